----------------------------- MODULE XargsExec -----------------------------
(***************************************************************************)
(* xargs exit status as a function of its children's outcomes (C19).       *)
(* A child outcome is a natural number: 0..255 = exit status,              *)
(* 1000 + s = killed by signal s.  The whole run can instead hit a command *)
(* that is missing ("notfound") or not executable ("notexec").             *)
(***************************************************************************)
EXTENDS Util, SequencesExt

IsSignal(o) == o >= 1000
Fatal(o) == o = 255 \/ IsSignal(o)
Failing(o) == o \in 1..125
\* 126..254 are not fixed by the property ("a status from 1 to 125")
Open(o) == o \in 126..254

FatalExit(o) == IF o = 255 THEN 124 ELSE 125

\* Index of the first fatal outcome, 0 if none.
FirstFatal(outs) ==
  LET F == {k \in DOMAIN outs : Fatal(outs[k])} IN
  IF F = {} THEN 0 ELSE CHOOSE k \in F : \A j \in F : k <= j

\* Reference: how many invocations are started and the exit status, given the
\* outcomes the successive invocations would have (outs[k] for the k-th batch).
RefExit(outs) ==
  LET f == FirstFatal(outs) IN
  IF f > 0 THEN [started |-> f, exit |-> FatalExit(outs[f])]
  ELSE [started |-> Len(outs),
        exit |-> IF \E k \in DOMAIN outs : Failing(outs[k]) THEN 123 ELSE 0]

InDomainOuts(outs) ==
  LET f == FirstFatal(outs)
      upto == IF f > 0 THEN f ELSE Len(outs) IN
  \A k \in 1..upto : ~Open(outs[k])

(***************************************************************************)
(* Implementation-shaped loop: result.combine(execute()?) - a sticky        *)
(* Success/Failure value and early return on a CommandExecutionError.       *)
(***************************************************************************)
VARIABLES outs, k, result, fin   \* fin: 0 while running, else the exit status + 1000
evars == <<outs, k, result, fin>>

ExecInit(o) == outs = o /\ k = 1 /\ result = "Success" /\ fin = 0

ChildReturns ==
  /\ fin = 0 /\ k <= Len(outs)
  /\ LET o == outs[k] IN
     IF o = 0 THEN /\ UNCHANGED <<result, fin>>                     \* combine(Success)
     ELSE IF o = 255 THEN fin' = 1000 + 124 /\ UNCHANGED result      \* UrgentlyFailed
     ELSE IF IsSignal(o) THEN fin' = 1000 + 125 /\ UNCHANGED result  \* Killed
     ELSE /\ result' = "Failure" /\ UNCHANGED fin                   \* combine(Failure), sticky
  /\ k' = k + 1 /\ UNCHANGED outs

AllDone ==
  /\ fin = 0 /\ k > Len(outs)
  /\ fin' = 1000 + (IF result = "Success" THEN 0 ELSE 123)
  /\ UNCHANGED <<outs, k, result>>

ExecNext == ChildReturns \/ AllDone

\* no invocation is started after a fatal outcome; failures are never forgotten
StopsAtFatal == \A j \in 1..(k - 2) : ~Fatal(outs[j])
Sticky == (\E j \in 1..(k - 1) : Failing(outs[j]) \/ Open(outs[j])) /\ fin = 0 => result = "Failure"
EndsAsReference ==
  fin # 0 /\ InDomainOuts(outs) => [started |-> k - 1, exit |-> fin - 1000] = RefExit(outs)

=============================================================================
