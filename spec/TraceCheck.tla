----------------------------- MODULE TraceCheck -----------------------------
(***************************************************************************)
(* Generic trace validation for records that are independent runs of the   *)
(* real code: {"in": input, "obs": observation}.  The instantiating module *)
(* supplies, from the specification of its property,                       *)
(*   InDomain(in, obs)  - the property fixes the behaviour on this input   *)
(*                        (obs only for measurements of the environment)   *)
(*   Conforms(in, obs)  - obs is a behaviour the specification allows      *)
(*   Describe(in)       - what the specification expected (for the replay  *)
(*                        file written by the driver)                      *)
(*   Beyond(in)         - the input uses behaviour that the specification  *)
(*                        describes but that no listed property fixes (the *)
(*                        specification has grown past the list): a        *)
(*                        disagreement there is reported as such, it is    *)
(*                        not a violation of the property being checked    *)
(* One step consumes one line.  A line that does not conform is reported   *)
(* and the validation goes on, so that every line is examined.             *)
(***************************************************************************)
EXTENDS Naturals, Sequences, TLC, Json

CONSTANTS Rec, Conforms(_, _), InDomain(_, _), Describe(_), Beyond(_)
VARIABLE l

Init == l = 1

Step ==
  /\ l <= Len(Rec)
  /\ LET r == Rec[l] IN
       IF ~InDomain(r.in, r.obs) THEN PrintT(<<"SKIP", l>>)
       ELSE IF Conforms(r.in, r.obs) THEN TRUE
       ELSE IF Beyond(r.in) THEN PrintT(<<"BEYOND", l>>)
       ELSE PrintT(<<"MISMATCH", l, ToJson(Describe(r.in))>>)
  /\ l' = l + 1

Spec == Init /\ [][Step]_l

\* All lines were consumed (POSTCONDITION; deadlock checking is off).
Accepted ==
  \/ TLCGet("stats").diameter = Len(Rec) + 1
  \/ PrintT(<<"TRACE-NOT-CONSUMED", TLCGet("stats").diameter, Len(Rec)>>) /\ FALSE
=============================================================================
