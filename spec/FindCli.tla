------------------------------ MODULE FindCli ------------------------------
(***************************************************************************)
(* find's command line beyond the operator grammar (property C11): which   *)
(* operands of which primaries are well-formed.  Operands are byte         *)
(* strings (sequences of 0..255).  Every classifier returns                *)
(*   "valid"    the property requires the primary to be accepted,          *)
(*   "invalid"  the property requires the whole command line to be         *)
(*              rejected before anything is visited,                       *)
(*   "unspec"   the property (and the tradition it refers to) leaves it    *)
(*              open; only "never a panic" is required.                    *)
(* A command line is rejected iff the operator grammar (FindExpr) rejects  *)
(* it or some primary has an invalid operand.                              *)
(***************************************************************************)
EXTENDS FindExpr

PLUS == 43  MINUS == 45  SLASHC == 47  COMMA == 44  DOT == 46  EQ == 61  PCT == 37  BSL == 92  SPC == 32

IsDigit(c) == c \in 48..57
IsOctal(c) == c \in 48..55
AllIn(s, S) == \A i \in DOMAIN s : s[i] \in S
AllDigits(s) == s # <<>> /\ \A i \in DOMAIN s : IsDigit(s[i])
IsSign(c) == c = PLUS \/ c = MINUS

DropSign(s) == IF s # <<>> /\ IsSign(s[1]) THEN Tail(s) ELSE s
SignCount(s) == IF s = <<>> \/ ~IsSign(s[1]) THEN 0
                ELSE IF Len(s) >= 2 /\ IsSign(s[2]) THEN 2 ELSE 1

(* -links -inum -uid -gid N ; -atime ... -mmin N (fractions: open) *)
NumClass(s, fractionsOpen) ==
  LET r == DropSign(s) IN
  IF SignCount(s) = 2 THEN "unspec"                       \* "++1": tradition accepts, the property is silent
  ELSE IF AllDigits(r) THEN (IF Len(r) <= 19 THEN "valid" ELSE "unspec")
  ELSE IF fractionsOpen /\ r # <<>> /\ AllIn(r, 48..57 \cup {DOT}) /\ \E i \in DOMAIN r : IsDigit(r[i]) THEN "unspec"
  ELSE "invalid"

(* -size [+-]N[bcwkMG] *)
SizeUnits == {98, 99, 119, 107, 77, 71}
SizeClass(s) ==
  LET r == DropSign(s)
      nd == CHOOSE k \in 0..Len(r) : (\A i \in 1..k : IsDigit(r[i])) /\ (k = Len(r) \/ ~IsDigit(r[k + 1]))
      suffix == SubSeq(r, nd + 1, Len(r))
  IN
  IF SignCount(s) = 2 THEN "unspec"
  ELSE IF nd = 0 THEN "invalid"
  ELSE IF suffix = <<>> \/ (Len(suffix) = 1 /\ suffix[1] \in SizeUnits) THEN (IF nd <= 19 THEN "valid" ELSE "unspec")
  ELSE "invalid"

(* -type / -xtype C *)
TypeLetters == {98, 99, 100, 112, 102, 108, 115}      \* b c d p f l s
TypeClass(s) ==
  IF Len(s) = 1 /\ s[1] \in TypeLetters THEN "valid"
  ELSE IF COMMA \in RangeOf(s) \/ 68 \in RangeOf(s) THEN "unspec"       \* lists and D (doors)
  ELSE "invalid"

(* -perm [-/]MODE : octal up to 07777, or symbolic clauses who*(op perms)+ separated by ',' *)
Who == {117, 103, 111, 97}        \* u g o a
PermOps == {PLUS, MINUS, EQ}
PermBits == {114, 119, 120, 88, 115, 116}   \* r w x X s t
CopyFrom == {117, 103, 111}       \* u g o
RECURSIVE OctVal(_)
OctVal(s) == IF s = <<>> THEN 0 ELSE IF Len(s) > 6 THEN 100000 ELSE 8 * OctVal(SubSeq(s, 1, Len(s) - 1)) + (s[Len(s)] - 48)

\* one clause: who* then (op, then permission bits or one copy letter)+
ClauseOK2(s) ==
  LET RECURSIVE Go(_, _)
      Go(r, st) ==
        IF r = <<>> THEN st # "who"
        ELSE LET c == Head(r) IN
             IF st = "who" THEN (IF c \in Who THEN Go(Tail(r), "who") ELSE IF c \in PermOps THEN Go(Tail(r), "op") ELSE FALSE)
             ELSE IF c \in PermOps THEN Go(Tail(r), "op")
             ELSE IF st = "op" /\ c \in CopyFrom THEN Go(Tail(r), "copied")
             ELSE IF st \in {"op", "bits"} /\ c \in PermBits THEN Go(Tail(r), "bits")
             ELSE FALSE
  IN Go(s, "who")

RECURSIVE SplitOn(_, _)
SplitOn(s, sep) ==     \* <<pieces>>, like str.split
  LET k == IF \E i \in DOMAIN s : s[i] = sep THEN CHOOSE i \in DOMAIN s : s[i] = sep /\ \A j \in 1..(i - 1) : s[j] # sep ELSE 0 IN
  IF k = 0 THEN <<s>> ELSE <<SubSeq(s, 1, k - 1)>> \o SplitOn(SubSeq(s, k + 1, Len(s)), sep)

PermClass(s) ==
  LET r == IF s # <<>> /\ s[1] \in {MINUS, SLASHC} THEN Tail(s) ELSE s IN
  IF s # <<>> /\ s[1] = PLUS THEN "unspec"                 \* the obsolete +MODE form
  ELSE IF r = <<>> THEN "invalid"
  ELSE IF AllIn(r, 48..57) THEN (IF AllIn(r, 48..55) /\ OctVal(r) <= 4095 THEN "valid" ELSE "invalid")
  ELSE IF \E i \in DOMAIN r : IsDigit(r[i]) THEN          \* digits mixed with anything else
       (IF r[1] \in PermOps /\ AllIn(Tail(r), (48..55) \cup PermOps) THEN "unspec"   \* "=644": chmod tradition accepts, the property is silent
        ELSE "invalid")
  ELSE IF \A k \in DOMAIN SplitOn(r, COMMA) : ClauseOK2(SplitOn(r, COMMA)[k]) THEN "valid"
  ELSE "invalid"

(* -regextype NAME *)
RegextypeClass(name) ==
  IF name \in {"emacs", "posix-basic", "posix-extended", "grep", "ed", "sed"} THEN "valid"
  ELSE IF name \in {"findutils-default", "gnu-awk", "awk", "posix-awk", "egrep", "posix-egrep", "posix-minimal-basic"} THEN "unspec"
  ELSE "invalid"

(* -printf FORMAT: a directive cut off by the end of the string is an error; what the   *)
(* property does not describe (other flags, unknown directives and escapes, non-ASCII) *)
(* is open.                                                                            *)
PrintfFlags == {MINUS, PLUS, SPC, 35, 48}
PrintfDirectives == {112, 102, 104, 72, 80, 100, 115, 110, 105, 85, 71, 109, 121, 89, 108}   \* p f h H P d s n i U G m y Y l
PrintfEscapes == {97, 98, 102, 110, 114, 116, 118, 92, 48}                                  \* a b f n r t v \ 0
Worse(a, b) == IF a = "invalid" \/ b = "invalid" THEN "invalid" ELSE IF a = "unspec" \/ b = "unspec" THEN "unspec" ELSE "valid"
RECURSIVE SkipSet(_, _)
SkipSet(r, S) == IF r # <<>> /\ r[1] \in S THEN SkipSet(Tail(r), S) ELSE r
RECURSIVE PrintfScan(_)
PrintfScan(s) ==
  IF s = <<>> THEN "valid"
  ELSE IF s[1] = BSL THEN
       (IF Len(s) = 1 THEN "unspec"
        ELSE Worse(IF s[2] \in PrintfEscapes THEN "valid" ELSE "unspec", PrintfScan(SubSeq(s, 3, Len(s)))))
  ELSE IF s[1] = PCT THEN
       LET afterFlags == SkipSet(Tail(s), PrintfFlags)
           flags == SubSeq(Tail(s), 1, Len(s) - 1 - Len(afterFlags))
           afterWidth == SkipSet(afterFlags, 48..57)
           width == SubSeq(afterFlags, 1, Len(afterFlags) - Len(afterWidth))
       IN IF afterWidth = <<>> THEN "invalid"
          ELSE LET here == IF afterWidth[1] = PCT THEN (IF flags = <<>> /\ width = <<>> THEN "valid" ELSE "unspec")
                           ELSE IF afterWidth[1] \in PrintfDirectives
                                THEN (IF AllIn(flags, {MINUS}) /\ Len(width) <= 4 THEN "valid" ELSE "unspec")
                           ELSE "unspec"
                   \* %A %C %T take one more character (the time field); what it may be is not part of the property
                   timeDir == afterWidth[1] \in {65, 67, 84}
               IN IF timeDir THEN Worse("unspec", PrintfScan(IF Len(afterWidth) >= 2 THEN SubSeq(afterWidth, 3, Len(afterWidth)) ELSE <<>>))
                  ELSE Worse(here, PrintfScan(Tail(afterWidth)))
  ELSE PrintfScan(Tail(s))
PrintfClass(s) == IF \E i \in DOMAIN s : s[i] >= 128 THEN "unspec" ELSE PrintfScan(s)

(* -exec / -execdir ARGS: args are abstract words "cmd", "{}", "x{}", "w", ";", "+" *)
ExecTerminator(args) ==   \* index of the terminating word, 0 if none
  LET cand == {j \in DOMAIN args : args[j] = ";" \/ (args[j] = "+" /\ j > 1 /\ args[j - 1] = "{}")} IN
  IF cand = {} THEN 0 ELSE CHOOSE j \in cand : \A k \in cand : j <= k
ExecClass(args) ==
  LET j == ExecTerminator(args) IN
  IF j = 0 \/ j = 1 THEN "invalid"
  ELSE IF args[1] # "cmd" THEN "unspec"       \* well-formed, but the command cannot be run: the outcome belongs to C08/C09
  ELSE IF args[j] = ";" THEN "valid"
  ELSE LET body == SubSeq(args, 2, j - 1)
           exact == Len(SelectSeq(body, LAMBDA w : w = "{}"))
           embedded == Len(SelectSeq(body, LAMBDA w : w = "x{}"))
       IN IF j = 2 THEN "unspec"                           \* the command itself is {}
          ELSE IF exact >= 2 THEN "invalid"
          ELSE IF embedded > 0 THEN "unspec"
          ELSE "valid"
ExecLen(args) == ExecTerminator(args)   \* words consumed (terminator included)

(***************************************************************************)
(* Whole command lines.  A word of the expression is either an operator    *)
(* or a primary [prim, cls, kind] with kind "test" / "action" and the      *)
(* class of its operand as determined above (the trace specification       *)
(* computes cls from the recorded operand bytes).                          *)
(***************************************************************************)
Abstract(w) == IF w.k = "op" THEN w.t ELSE IF w.kind = "action" THEN "a1" ELSE "t1"
CliClass(words) ==
  LET toks == [i \in DOMAIN words |-> Abstract(words[i])]
      bad == \E i \in DOMAIN words : words[i].k = "prim" /\ words[i].cls = "invalid"
      open == \E i \in DOMAIN words : words[i].k = "prim" /\ words[i].cls = "unspec"
  IN IF bad \/ ~RefParse(toks).ok THEN "reject"
     ELSE IF open THEN "unspec" ELSE "accept"
=============================================================================
