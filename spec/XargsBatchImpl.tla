--------------------------- MODULE XargsBatchImpl ---------------------------
(***************************************************************************)
(* The batching loop as the code implements it (src/xargs/mod.rs):         *)
(*   process_input : read an argument, add_arg; on ExhaustedCommandSpace   *)
(*                   apply the -x rule, execute the pending command, start *)
(*                   a fresh builder and retry; at end of input execute    *)
(*                   unless -r and nothing is pending.                     *)
(*   limiter chain : MaxArgs -> MaxLines -> MaxChars(-s) -> MaxChars(sys); *)
(*                   each limiter asks the rest of the chain before it     *)
(*                   updates its own counter, so an argument is either     *)
(*                   charged to every limiter or to none.                  *)
(* Initial arguments are charged once to the template the builders are     *)
(* cloned from (they cost bytes, but no -n slot and no line).              *)
(***************************************************************************)
EXTENDS XargsBatch

VARIABLES
  in,        \* the input record (constant during a run), plus in.sys = system budget
  pos,       \* index of the next argument the reader will return
  cur,       \* extra_args of the current builder (argument indices)
  cnt,       \* MaxArgs limiter: current_args
  line,      \* MaxLines limiter: current_line
  sizeS,     \* -s limiter: current_size
  sizeSys,   \* system limiter: current_size
  pending,   \* have_pending_command
  execs,     \* batches executed so far
  status     \* "run" | "ok" | "err"

bvars == <<in, pos, cur, cnt, line, sizeS, sizeSys, pending, execs, status>>

\* The system limiter charges every string its bytes, its terminator and one pointer (in.ptr, 0 where the input
\* does not say), starts from what the command and the initial arguments cost there (in.sysbase, by default in.cmd)
\* and refuses a single string longer than in.argmax (where given).
Ptr(i) == IF "ptr" \in DOMAIN i THEN i.ptr ELSE 0
SysBase(i) == IF "sysbase" \in DOMAIN i THEN i.sysbase ELSE i.cmd
SysCost(a) == Cost(a) + Ptr(in)

FreshBuilder == /\ cur' = <<>> /\ cnt' = 0 /\ line' = 1 /\ sizeS' = in.cmd /\ sizeSys' = SysBase(in)

ImplInit(i) ==
  /\ in = i /\ pos = 1 /\ cur = <<>> /\ cnt = 0 /\ line = 1
  /\ sizeS = i.cmd /\ sizeSys = SysBase(i) /\ pending = FALSE /\ execs = <<>>
  \* CommandBuilderOptions::new: the initial arguments must pass every limiter
  /\ status = IF (i.s > 0 /\ i.cmd > i.s) \/ SysBase(i) > i.sys THEN "err" ELSE "run"

\* The chain's verdict for argument a on the given counters:
\*   "ok", "full" (out_of_chars = false) or "chars" (out_of_chars = true).
Verdict(a, c, l, zs, zy) ==
  IF in.n > 0 /\ ~(c < in.n) THEN "full"
  ELSE IF in.L > 0 /\ ~(l <= in.L) THEN "full"
  ELSE IF in.s > 0 /\ ~(zs + Cost(a) <= in.s) THEN "chars"
  ELSE IF ~(zy + SysCost(a) <= in.sys) THEN "chars"
  ELSE IF "argmax" \in DOMAIN in /\ Cost(a) > in.argmax THEN "chars"
  ELSE "ok"

NextArg == in.args[pos]

\* add_arg succeeded: every limiter is updated, the argument joins the builder.
Accept ==
  /\ status = "run" /\ pos <= Len(in.args)
  /\ Verdict(NextArg, cnt, line, sizeS, sizeSys) = "ok"
  /\ cur' = Append(cur, pos) /\ cnt' = cnt + 1
  /\ line' = IF NextArg.hard THEN line + 1 ELSE line
  /\ sizeS' = sizeS + Cost(NextArg) /\ sizeSys' = sizeSys + SysCost(NextArg)
  /\ pending' = TRUE /\ pos' = pos + 1
  /\ UNCHANGED <<in, execs, status>>

\* -x: the size limit was the reason and -n or -L is in force.
XFail ==
  /\ status = "run" /\ pos <= Len(in.args)
  /\ Verdict(NextArg, cnt, line, sizeS, sizeSys) = "chars"
  /\ in.x /\ (in.n > 0 \/ in.L > 0)
  /\ status' = "err"
  /\ UNCHANGED <<in, pos, cur, cnt, line, sizeS, sizeSys, pending, execs>>

\* Execute what is pending, start a fresh builder, retry the same argument.
FlushRetry ==
  /\ status = "run" /\ pos <= Len(in.args)
  /\ LET v == Verdict(NextArg, cnt, line, sizeS, sizeSys) IN
     /\ v # "ok"
     /\ ~(v = "chars" /\ in.x /\ (in.n > 0 \/ in.L > 0))
  /\ execs' = IF pending THEN Append(execs, cur) ELSE execs
  /\ IF Verdict(NextArg, 0, 1, in.cmd, SysBase(in)) = "ok"
     THEN /\ cur' = <<pos>> /\ cnt' = 1
          /\ line' = IF NextArg.hard THEN 2 ELSE 1
          /\ sizeS' = in.cmd + Cost(NextArg) /\ sizeSys' = SysBase(in) + SysCost(NextArg)
          /\ pending' = TRUE /\ pos' = pos + 1 /\ UNCHANGED status
     ELSE \* ArgumentTooLarge
          /\ status' = "err" /\ FreshBuilder /\ UNCHANGED <<pending, pos>>
  /\ UNCHANGED in

\* End of input.
Eof ==
  /\ status = "run" /\ pos > Len(in.args)
  /\ execs' = IF ~in.r \/ pending THEN Append(execs, cur) ELSE execs
  /\ status' = "ok"
  /\ UNCHANGED <<in, pos, cur, cnt, line, sizeS, sizeSys, pending>>

ImplNext == Accept \/ XFail \/ FlushRetry \/ Eof

(***************************************************************************)
(* -I (CommandBuilder::execute, replace branch).  The loop above runs with *)
(* -n 1 over lines; what is executed is the command (in.cmd0 bytes with    *)
(* terminator) and the initial arguments with the line substituted:        *)
(* in.tmpl[k] = [lit, occ] - lit literal bytes and occ occurrences of the  *)
(* replace string.  Before it is run, the substituted command line goes    *)
(* through a fresh copy of the size limiters, string by string; the first  *)
(* that does not fit ends the run ("Argument too large", status 1).        *)
(***************************************************************************)
SubLen(t, len) == t.lit + t.occ * len
RECURSIVE SubstFold(_, _, _, _)
SubstFold(lens, k, zs, zy) ==
  IF k > Len(lens) THEN [ok |-> TRUE, s |-> zs, sys |-> zy]
  ELSE LET c == lens[k] + 1 IN
       IF (in.s > 0 /\ ~(zs + c <= in.s)) \/ ~(zy + c + Ptr(in) <= in.sys) \/ ("argmax" \in DOMAIN in /\ c > in.argmax)
       THEN [ok |-> FALSE, s |-> zs, sys |-> zy]
       ELSE SubstFold(lens, k + 1, zs + c, zy + c + Ptr(in))
SubstLens(len) == <<in.cmd0 - 1>> \o [k \in DOMAIN in.tmpl |-> SubLen(in.tmpl[k], len)]
SubstMeasure(len) == SubstFold(SubstLens(len), 1, 0, 0)

ImplFinished == status \in {"ok", "err"}
ImplOutcome == [execs |-> execs, exit |-> IF status = "ok" THEN 0 ELSE 1]

(***************************************************************************)
(* Step-wise invariants of the loop (hold in every reachable state).        *)
(***************************************************************************)
\* The limiter counters are exactly the declarative measures of the current batch.
CountersAgree ==
  status = "run" =>
    /\ cnt = Len(cur)
    /\ line = 1 + Cardinality({k \in DOMAIN cur : in.args[cur[k]].hard})
    /\ sizeS = BatchSize(in, cur) /\ sizeSys = SysBase(in) + (sizeS - in.cmd) + Ptr(in) * Len(cur)

\* Nothing lost, duplicated or reordered at any time.
LosslessAlways == Flatten(execs) \o (IF status = "run" THEN cur ELSE <<>>) = [k \in 1..Len(Flatten(execs) \o (IF status = "run" THEN cur ELSE <<>>)) |-> k]
                  /\ (status = "run" => Len(Flatten(execs)) + Len(cur) = pos - 1)

\* Every executed batch and the batch under construction respect all limits, and the
\* system budget on top.
LimitsAlways ==
  /\ \A j \in DOMAIN execs : Fits(in, execs[j]) /\ BatchSize(in, execs[j]) <= in.sys
  /\ (status = "run" => Fits(in, cur) /\ BatchSize(in, cur) <= in.sys)

=============================================================================
