---------------------------- MODULE FindActions ----------------------------
(***************************************************************************)
(* find's actions with effects outside find: -exec ... ; / -execdir ... ;  *)
(* (C09), -exec ... {} + / -execdir ... {} + (C08), -delete (C10) and      *)
(* -print0 into xargs -0 (C07), on top of the reference walk.              *)
(*                                                                         *)
(* The action is reached on the entries that pass `pre`, a test            *)
(*   [p |-> "none"] | [p |-> "name", pat |-> glob] | [p |-> "type", c]     *)
(* evaluated before it (juxtaposition; with neg |-> TRUE: "TEST -o ACTION").*)
(***************************************************************************)
EXTENDS FindWalk, Glob

LastSlashA(p) == LastIndexOf(p, SLASH)
BaseName(p) == SubSeq(p, LastSlashA(p) + 1, Len(p))
DirName(p) == IF LastSlashA(p) = 0 THEN <<>> ELSE SubSeq(p, 1, LastSlashA(p) - 1)     \* <<>> = find's own working directory

\* pre.neg (optional): the action is the right operand of -o - "TEST -o ACTION" reaches it where TEST is false
PreTest(tree, e, pre) ==
  IF pre.p = "none" THEN TRUE
  ELSE IF pre.p = "name" THEN GlobMatch(pre.pat, Utf8Decode(NameOf(e.path)), FALSE)     \* patterns and names are compared as characters
  ELSE tree[e.eff].kind = pre.c
PreHolds(tree, e, pre) == IF "neg" \in DOMAIN pre /\ pre.neg THEN ~PreTest(tree, e, pre) ELSE PreTest(tree, e, pre)

Reached(tree, cfg, roots, pre) == SelectSeq(WalkRoots(tree, cfg, roots).ents, LAMBDA e : PreHolds(tree, e, pre))

BRACES == <<123, 125>>
DOTSLASH == <<46, 47>>

(***************************************************************************)
(* C09: -exec CMD ARGS ;  One invocation per reached entry, in order:      *)
(* every "{}" in every argument replaced by the path (./basename with the  *)
(* parent directory as working directory for -execdir), nothing else       *)
(* touched; the action is true iff the command exits 0; find's own status  *)
(* is not affected.  status[k] = exit status of the k-th invocation        *)
(* (0 beyond the end of the script; "nocmd": the command cannot be run).   *)
(***************************************************************************)
ArgPath(e, execdir) == IF execdir THEN DOTSLASH \o BaseName(e.path) ELSE e.path
ExecArgv(template, e, execdir) == [k \in DOMAIN template |-> ReplaceSub(template[k], BRACES, ArgPath(e, execdir))]
\* a directory as the recorder reports it (relative to find's own working directory, "./" and "." removed)
RECURSIVE NormDir(_)
SLASHDOT == <<SLASH, 46>>
SLASHDOTSLASH == <<SLASH, 46, SLASH>>
NormDir(p) == IF p = <<46>> THEN <<>>
              ELSE IF Len(p) >= 2 /\ p[1] = 46 /\ p[2] = SLASH THEN NormDir(SubSeq(p, 3, Len(p)))
              ELSE IF Len(p) >= 2 /\ SubSeq(p, Len(p) - 1, Len(p)) = SLASHDOT THEN NormDir(SubSeq(p, 1, Len(p) - 2))
              ELSE IF ReplaceSub(p, SLASHDOTSLASH, <<SLASH>>) # p THEN NormDir(ReplaceSub(p, SLASHDOTSLASH, <<SLASH>>))
              ELSE p
ExecCwd(e, execdir) == IF execdir THEN NormDir(DirName(e.path)) ELSE <<>>

StatusAt(script, k) == IF k <= Len(script) THEN script[k] ELSE 0

SingleExecRun(tree, cfg, roots, pre, template, execdir, script, nocmd) ==
  LET r == Reached(tree, cfg, roots, pre) IN
  [execs |-> IF nocmd THEN <<>> ELSE [k \in DOMAIN r |-> [argv |-> ExecArgv(template, r[k], execdir), cwd |-> ExecCwd(r[k], execdir)]],
   \* what the labelled -printf after the action / in the -o branch shows: <<truth, path>>
   truth |-> [k \in DOMAIN r |-> <<~nocmd /\ StatusAt(script, k) = 0, r[k].path>>],
   exit |-> 0]

\* the starting points for which the property fixes the -execdir working directory and name ("d/." is d's "." - run
\* in d as "./."; through ".." the recorder's view of the directory and the spelling part ways)
ExecdirDom(roots) ==
  \A r \in DOMAIN roots : LET s == roots[r].spell IN s # <<>> /\ s[Len(s)] # SLASH /\ s # <<46>> /\ BaseName(s) # <<46, 46>>

(***************************************************************************)
(* C08: -exec CMD FIXED {} +.  Where the invocations are cut is up to find *)
(* (the budget); what is fixed: every invocation starts with the fixed     *)
(* arguments, the appended paths of all invocations concatenate to the     *)
(* reached entries in visit order, everything has run when find exits      *)
(* (also after -quit), for -execdir an invocation holds entries of one     *)
(* directory only, named ./basename, run in that directory; find's status  *)
(* is non-zero iff some invocation failed; the action is true on every      *)
(* entry.                                                                  *)
(* obsExecs: sequence of [argv, cwd] as recorded.                          *)
(***************************************************************************)
Appended(x, nfixed) == SubSeq(x.argv, nfixed + 1, Len(x.argv))

\* quitPath: -quit is evaluated (after the action) on the first reached entry with this path; <<>> = no -quit
MultiReached(tree, cfg, roots, pre, quitPath) ==
  LET all == Reached(tree, cfg, roots, pre)
      hits == {k \in DOMAIN all : all[k].path = quitPath}
  IN IF quitPath # <<>> /\ hits # {} THEN SubSeq(all, 1, CHOOSE k \in hits : \A j \in hits : k <= j) ELSE all

\* "The action itself is always true": what stands after it is evaluated on every reached entry, whether or not
\* an invocation has failed by then.  obsN / obsPaths: the entries a -printf placed after the action(s) reported.
MultiTruthOK(tree, cfg, roots, pre, quitPath, obsN, obsPaths, listed) ==
  LET r == MultiReached(tree, cfg, roots, pre, quitPath) IN
  obsN = Len(r) /\ (listed => obsPaths = Paths(r))

MultiExecShape(tree, cfg, roots, pre, fixed, execdir, quitPath, obsExecs) ==
  LET r == MultiReached(tree, cfg, roots, pre, quitPath)
      want == [k \in DOMAIN r |-> ArgPath(r[k], execdir)]
      nf == Len(fixed)
  IN
  /\ \A j \in DOMAIN obsExecs : Len(obsExecs[j].argv) > nf /\ SubSeq(obsExecs[j].argv, 1, nf) = fixed
  /\ Flatten([j \in DOMAIN obsExecs |-> Appended(obsExecs[j], nf)]) = want
  /\ execdir =>
       \* walking the invocations and the reached entries in step: one directory per invocation, run there
       LET starts == [j \in DOMAIN obsExecs |-> 1 + SumSeq([i \in 1..(j - 1) |-> Len(Appended(obsExecs[i], nf))])] IN
       \A j \in DOMAIN obsExecs :
          \A i \in 0..(Len(Appended(obsExecs[j], nf)) - 1) : NormDir(DirName(r[starts[j] + i].path)) = obsExecs[j].cwd
  /\ ~execdir => \A j \in DOMAIN obsExecs : obsExecs[j].cwd = <<>>

\* find's exit status: non-zero iff some invocation (of any '{} +' action, in the order they were run) failed
MultiExitOK(script, obsExecs, obsExit) == (obsExit # 0) <=> (\E j \in DOMAIN obsExecs : StatusAt(script, j) # 0)

\* one action, or two '{} +' actions side by side (told apart by their first fixed argument "A1" / "A2")
MultiExecOK(tree, cfg, roots, pre, fixed, execdir, script, quitPath, two, obsExecs, obsExit) ==
  /\ MultiExitOK(script, obsExecs, obsExit)
  /\ IF ~two THEN MultiExecShape(tree, cfg, roots, pre, fixed, execdir, quitPath, obsExecs)
     ELSE LET A1 == <<65, 49>> A2 == <<65, 50>>
              e1 == SelectSeq(obsExecs, LAMBDA x : x.argv # <<>> /\ x.argv[1] = A1)
              e2 == SelectSeq(obsExecs, LAMBDA x : x.argv # <<>> /\ x.argv[1] = A2)
          IN /\ Len(e1) + Len(e2) = Len(obsExecs)
             /\ MultiExecShape(tree, cfg, roots, pre, <<A1>> \o fixed, execdir, quitPath, e1)
             /\ MultiExecShape(tree, cfg, roots, pre, <<A2>>, execdir, quitPath, e2)

(***************************************************************************)
(* C10: -delete.  -delete implies -depth; an entry that passes `pre` is    *)
(* removed: a non-directory (a symbolic link itself, never its target)     *)
(* always, a directory iff nothing is left in it.  gone = set of nodes     *)
(* removed so far.                                                         *)
(***************************************************************************)
RECURSIVE DeleteFold(_, _, _, _, _)
DeleteFold(tree, ents, k, gone, acc) ==
  \* acc = [deleted: paths in order, failed: paths whose removal failed]
  IF k > Len(ents) THEN [gone |-> gone, deleted |-> acc.deleted, failed |-> acc.failed]
  ELSE LET e == ents[k]
           isRealDir == tree[e.node].kind = "d"
           \* (a directory reached as "." or ".." - a starting point spelled d/. or d/x/.. - cannot be removed under that name)
           ok == (~isRealDir \/ (Children(tree, e.node) \subseteq gone)) /\ NameOf(e.path) \notin {<<46>>, <<46, 46>>}
       IN IF ok THEN DeleteFold(tree, ents, k + 1, gone \cup {e.node}, [acc EXCEPT !.deleted = Append(@, e.path)])
          ELSE DeleteFold(tree, ents, k + 1, gone, [acc EXCEPT !.failed = Append(@, e.path)])

\* the entries up to and including the first whose removal fails ("( -delete -o -quit )": the run ends there)
RECURSIVE UpToFirstFailure(_, _, _, _)
UpToFirstFailure(tree, ents, k, gone) ==
  IF k > Len(ents) THEN ents
  ELSE LET e == ents[k]
           ok == (tree[e.node].kind # "d" \/ (Children(tree, e.node) \subseteq gone)) /\ NameOf(e.path) \notin {<<46>>, <<46, 46>>}
       IN IF ok THEN UpToFirstFailure(tree, ents, k + 1, gone \cup {e.node}) ELSE SubSeq(ents, 1, k)

DeleteRunQ(tree, cfg, roots, pre) ==
  LET dcfg == [cfg EXCEPT !.depth = TRUE]
      r == UpToFirstFailure(tree, Reached(tree, dcfg, roots, pre), 1, {})
      f == DeleteFold(tree, r, 1, {}, [deleted |-> <<>>, failed |-> <<>>])
  IN [matched |-> Paths(Reached(tree, dcfg, roots, pre)),
      deleted |-> f.deleted, failed |-> f.failed, gone |-> f.gone,
      errs |-> 0]

DeleteRun(tree, cfg, roots, pre) ==
  LET dcfg == [cfg EXCEPT !.depth = TRUE]
      r == Reached(tree, dcfg, roots, pre)
      f == DeleteFold(tree, r, 1, {}, [deleted |-> <<>>, failed |-> <<>>])
  IN [matched |-> Paths(r),                \* what -depth EXPR -print reports on the twin tree
      deleted |-> f.deleted, failed |-> f.failed, gone |-> f.gone,
      errs |-> WalkRoots(tree, dcfg, roots).errs]

\* Every physical node is met at most once - as an entry or as what a followed link resolves to.  (Otherwise a
\* removal changes what a later test sees - a link whose target went first has become dangling - and "the same set
\* as -depth EXPR -print on an identical tree" is no longer what any find can deliver.)
DeleteDom(tree, cfg, roots) ==
  LET w == WalkRoots(tree, [cfg EXCEPT !.depth = TRUE, !.min = 0, !.max = NoMax], roots).ents
      met == [i \in DOMAIN w |-> {w[i].node, w[i].eff}] IN
  /\ \A i, j \in DOMAIN w : i # j => met[i] \cap met[j] = {}
  /\ \A r \in DOMAIN roots : roots[r].spell # <<46>>

(***************************************************************************)
(* C07: -print0 writes, per reached entry, the path and one NUL (-print:   *)
(* one newline), nothing else; xargs -0 hands each NUL-terminated string   *)
(* to the command as one argument.                                         *)
(***************************************************************************)
PrintStream(tree, cfg, roots, pre, delim) ==
  LET r == Reached(tree, cfg, roots, pre) IN Flatten([k \in DOMAIN r |-> r[k].path \o <<delim>>])
RECURSIVE SplitAt(_, _)
SplitAt(bytes, d) ==      \* NUL-terminated records; a final unterminated record counts too
  IF bytes = <<>> THEN <<>>
  ELSE LET k == IF \E i \in DOMAIN bytes : bytes[i] = d THEN CHOOSE i \in DOMAIN bytes : bytes[i] = d /\ \A j \in 1..(i - 1) : bytes[j] # d ELSE 0 IN
       IF k = 0 THEN <<bytes>> ELSE <<SubSeq(bytes, 1, k - 1)>> \o SplitAt(SubSeq(bytes, k + 1, Len(bytes)), d)
Delivered(tree, cfg, roots, pre) == SelectSeq(SplitAt(PrintStream(tree, cfg, roots, pre, 0), 0), LAMBDA a : a # <<>>)
=============================================================================
