------------------------------ MODULE Numeric ------------------------------
(***************************************************************************)
(* Numeric operands of find tests (property C14): N means "equal", +N      *)
(* "greater", -N "less"; -size measures in whole units, rounding up.       *)
(*                                                                         *)
(* TLC's integers are 32 bit, so values beyond 2^31 are symbolic:          *)
(*   an operand is [v |-> n] or [huge |-> digits] (a numeral larger than   *)
(*   every measurable value; the harness passes the digits to find);       *)
(*   a file size is [bytes |-> n] or [k |-> k, d |-> d] meaning            *)
(*   k * unit + d bytes in the unit of the test (d in -1..1; k >= 1 when   *)
(*   d < 0), whose measure is computed without multiplying.                *)
(* For the time tests the measured value is the age in whole periods       *)
(* ([v |-> k]; k < 0: the timestamp lies in the future).                   *)
(***************************************************************************)
EXTENDS Util

Forms == {"eq", "gt", "lt"}
Cmp(form, n, v) ==            \* v: measured value, n: operand
  IF "huge" \in DOMAIN n THEN form = "lt"
  ELSE IF form = "eq" THEN v = n.v ELSE IF form = "gt" THEN v > n.v ELSE v < n.v

Units == {"c", "w", "b", "k", "M", "G", ""}
UnitBytes(u) == CASE u = "c" -> 1 [] u = "w" -> 2 [] u = "b" -> 512 [] u = "" -> 512
                  [] u = "k" -> 1024 [] u = "M" -> 1048576 [] u = "G" -> 1073741824

CeilDiv(a, b) == (a + b - 1) \div b     \* a + b - 1 must stay below 2^31: see SizeMeasure
SizeMeasure(f, u) ==
  IF "bytes" \in DOMAIN f
  THEN (IF f.bytes = 0 THEN 0 ELSE ((f.bytes - 1) \div UnitBytes(u)) + 1)
  ELSE IF UnitBytes(u) = 1 THEN f.k + f.d     \* bytes are not rounded
  ELSE IF f.d > 0 THEN f.k + 1 ELSE f.k      \* k*unit+1 -> k+1 ; k*unit -> k ; k*unit-1 -> k (k >= 1)

\* the measured value of file f for a test
Measure(prim, unit, f) == IF prim = "size" THEN SizeMeasure(f, unit) ELSE f.v

Selected(prim, unit, form, n, files) ==
  SelectSeq([i \in DOMAIN files |-> i], LAMBDA i : Cmp(form, n, Measure(prim, unit, files[i])))
=============================================================================
