---------------------------- MODULE XargsReplace ----------------------------
(***************************************************************************)
(* xargs -I / -i / --replace (C20): mode selection among -I, -n, -L and    *)
(* the replace-mode run itself.                                            *)
(* opts : the mode options in command-line order, each                     *)
(*        [o |-> "I", r |-> bytes] | [o |-> "n", k |-> Nat] | [o |-> "L", k |-> Nat] *)
(* init : initial arguments after the command (byte sequences)             *)
(* lines: the input lines (without their newline)                          *)
(***************************************************************************)
EXTENDS Util, SequencesExt

LastOf(opts, name) ==
  LET S == {k \in DOMAIN opts : opts[k].o = name} IN
  IF S = {} THEN 0 ELSE CHOOSE k \in S : \A j \in S : j <= k

\* The effective mode: [m |-> "I", r |-> R] | [m |-> "n", k |-> ..] | [m |-> "L", k |-> ..] | [m |-> "none"]
\* The option given last wins, except that -n 1 never conflicts with -I.
Mode(opts) ==
  LET iI == LastOf(opts, "I")  iN == LastOf(opts, "n")  iL == LastOf(opts, "L") IN
  IF iI = 0 /\ iN = 0 /\ iL = 0 THEN [m |-> "none"]
  ELSE IF iI > 0 /\ iL = 0 /\ (iN = 0 \/ opts[iN].k = 1) THEN [m |-> "I", r |-> opts[iI].r]
  ELSE IF iL > iN /\ iL > iI THEN [m |-> "L", k |-> opts[iL].k]
  ELSE IF iN > iL /\ iN > iI THEN [m |-> "n", k |-> opts[iN].k]
  ELSE [m |-> "I", r |-> opts[iI].r]

\* Replace mode: one invocation per non-empty line, every occurrence of R in every
\* initial argument replaced by the whole line, nothing appended.
ReplaceRun(init, lines, R) ==
  LET ne == SelectSeq(lines, LAMBDA ln : ln # <<>>) IN
  [j \in DOMAIN ne |-> [a \in DOMAIN init |-> ReplaceSub(init[a], R, ne[j])]]

\* Chunks of at most k consecutive elements.
RECURSIVE ChunksOf(_, _)
ChunksOf(s, k) ==
  IF s = <<>> THEN <<>>
  ELSE IF Len(s) <= k THEN <<s>>
  ELSE <<SubSeq(s, 1, k)>> \o ChunksOf(SubSeq(s, k + 1, Len(s)), k)

\* -n k / -L k on lines that contain no blanks: k lines (= k arguments) per invocation,
\* appended after the unchanged initial arguments; no input still runs once.
BatchRun(init, lines, k) ==
  LET ne == SelectSeq(lines, LAMBDA ln : ln # <<>>) IN
  IF ne = <<>> THEN << init >>
  ELSE LET cs == ChunksOf(ne, k) IN [j \in DOMAIN cs |-> init \o cs[j]]

RefReplace(in) ==
  LET md == Mode(in.opts) IN
  IF md.m = "I" THEN [mode |-> "I", argvs |-> ReplaceRun(in.init, in.lines, md.r), exit |-> 0]
  ELSE IF md.m \in {"n", "L"} THEN [mode |-> md.m, argvs |-> BatchRun(in.init, in.lines, md.k), exit |-> 0]
  ELSE [mode |-> "none", argvs |-> BatchRun(in.init, in.lines, 1000000), exit |-> 0]

\* Domain of the property: lines free of quotes, backslashes and leading blanks;
\* R not empty; in the -n / -L modes no blanks inside lines either (then lines = arguments).
BlankOrQuote(c) == c \in {32, 9, 39, 34, 92}
LineOk(ln, inner) ==
  /\ \A i \in DOMAIN ln : ln[i] \notin {39, 34, 92, 10, 0} /\ (~inner => ln[i] \notin {32, 9})
  \* the property excludes leading blanks only; in the -n / -L modes a trailing blank
  \* would continue the line, which is C04's subject
  /\ (ln # <<>> => ln[1] \notin {32, 9} /\ (~inner => ln[Len(ln)] \notin {32, 9}))
InDomainReplace(in) ==
  LET md == Mode(in.opts) IN
  /\ \A j \in DOMAIN in.lines : LineOk(in.lines[j], md.m = "I")
  /\ \A k \in DOMAIN in.opts : in.opts[k].o = "I" => in.opts[k].r # <<>>
  \* the property speaks of combining -I, -n and -L; repeating one of them is not covered
  /\ \A j, k \in DOMAIN in.opts : j # k => in.opts[j].o # in.opts[k].o

=============================================================================
