----------------------------- MODULE XargsRead -----------------------------
(***************************************************************************)
(* xargs input splitting (property C05).                                   *)
(*                                                                         *)
(*  Ref*  : what the property prescribes, as a function of the input bytes *)
(*          only (no notion of read() chunks).                             *)
(*  Impl* : the reader as the code implements it - a byte state machine    *)
(*          over a buffer `pending` refilled by read() calls of arbitrary  *)
(*          size (src/xargs/mod.rs, WhitespaceDelimitedArgumentReader and  *)
(*          ByteDelimitedArgumentReader).  One action per loop iteration.  *)
(***************************************************************************)
EXTENDS Util, SequencesExt

SP == 32   TAB == 9   NL == 10   SQ == 39   DQ == 34   BS == 92

IsSep(c) == c \in {SP, TAB, NL}

\* Bytes whose treatment the property leaves open in default mode: NUL cannot be
\* passed to exec, and VT/FF/CR are "white space" for some implementations only.
OpenByte(c) == c \in {0, 11, 12, 13}

Tok(b, h) == [b |-> b, hard |-> h]

(***************************************************************************)
(* Reference tokenisation, default mode.                                   *)
(* st: m = quoting mode ("n" none, "s" in '..', "d" in "..", "b" after \), *)
(*     cur = literal bytes of the current word, started = inside a word,   *)
(*     out = tokens so far, dom = still inside the property's domain.      *)
(***************************************************************************)
RefInit == [m |-> "n", cur |-> <<>>, started |-> FALSE, out |-> <<>>, dom |-> TRUE]

RefByte(st, c) ==
  CASE st.m = "s" ->
         IF c = SQ THEN [st EXCEPT !.m = "n"] ELSE [st EXCEPT !.cur = Append(@, c)]
    [] st.m = "d" ->
         IF c = DQ THEN [st EXCEPT !.m = "n"] ELSE [st EXCEPT !.cur = Append(@, c)]
    [] st.m = "b" -> [st EXCEPT !.m = "n", !.cur = Append(@, c)]
    [] OTHER ->
         IF c = SQ THEN [st EXCEPT !.m = "s", !.started = TRUE]
         ELSE IF c = DQ THEN [st EXCEPT !.m = "d", !.started = TRUE]
         ELSE IF c = BS THEN [st EXCEPT !.m = "b", !.started = TRUE]
         ELSE IF IsSep(c) THEN
              IF st.started
              \* (a word made only of an empty pair of quotes is an empty argument)
              THEN [st EXCEPT !.out = Append(@, Tok(st.cur, c = NL)),
                              !.cur = <<>>, !.started = FALSE]
              ELSE st
         ELSE [st EXCEPT !.cur = Append(@, c), !.started = TRUE,
                         !.dom = @ /\ ~OpenByte(c)]

\* FoldLeft (SequencesExt) is evaluated eagerly by TLC, which keeps long inputs cheap.
RefFold(bytes) == FoldLeft(RefByte, RefInit, bytes)

\* Result: err = unterminated quote; toks = arguments with hard/soft kind
\* (hard = the word was ended by a newline); dom = input is inside the domain on
\* which the property fixes the answer.
RefTokenize(bytes) ==
  LET st == RefFold(bytes) IN
  IF st.m \in {"s", "d"} THEN [err |-> TRUE, toks |-> <<>>, dom |-> st.dom]
  ELSE IF st.m = "b" THEN [err |-> FALSE, toks |-> <<>>, dom |-> FALSE]  \* dangling backslash
  ELSE IF st.started
       THEN [err |-> FALSE, toks |-> Append(st.out, Tok(st.cur, FALSE)), dom |-> st.dom]
       ELSE [err |-> FALSE, toks |-> st.out, dom |-> st.dom]

(***************************************************************************)
(* Reference splitting for -0 / -d C: split at d only, empty fields are    *)
(* dropped, every other byte is passed through; every token is "hard".     *)
(***************************************************************************)
SplitByte(d, st, c) ==
    IF c = d THEN [cur |-> <<>>, out |-> IF st.cur = <<>> THEN st.out ELSE Append(st.out, Tok(st.cur, TRUE))]
    ELSE [st EXCEPT !.cur = Append(@, c)]

RefSplit(bytes, d) ==
  LET st == FoldLeft(LAMBDA st, c : SplitByte(d, st, c), [cur |-> <<>>, out |-> <<>>], bytes) IN
  [err |-> FALSE,
   toks |-> IF st.cur = <<>> THEN st.out ELSE Append(st.out, Tok(st.cur, TRUE)),
   dom |-> TRUE]

\* The one entry point used by the conformance checks: delim = -1 means default mode.
RefRead(bytes, delim) == IF delim < 0 THEN RefTokenize(bytes) ELSE RefSplit(bytes, delim)

(***************************************************************************)
(* Properties of the reference itself (checked by TLC over a bounded       *)
(* alphabet in MC_C05): no argument out of nothing, separators alone give  *)
(* nothing, -0 is byte transparent.                                        *)
(***************************************************************************)
OnlySeps(bytes) == \A i \in DOMAIN bytes : IsSep(bytes[i])
NoQuoting(bytes) == \A i \in DOMAIN bytes : bytes[i] \notin {SQ, DQ, BS}

RefLaws(bytes) ==
  LET r == RefTokenize(bytes) IN
  /\ (OnlySeps(bytes) => r.toks = <<>> /\ ~r.err)
  \* "no argument that is not in the input": an empty argument comes from quotes only
  /\ (r.dom /\ ~r.err /\ NoQuoting(bytes) => \A k \in DOMAIN r.toks : r.toks[k].b # <<>>)
  /\ (NoQuoting(bytes) /\ ~r.err =>
         \* without quoting characters the literal bytes are exactly the non-separators
         Flatten([k \in DOMAIN r.toks |-> r.toks[k].b]) = FilterSeq(bytes, LAMBDA c : ~IsSep(c)))
  /\ \A d \in {0, NL} :
         LET s == RefSplit(bytes, d) IN
         /\ Flatten([k \in DOMAIN s.toks |-> s.toks[k].b]) = FilterSeq(bytes, LAMBDA c : c # d)
         /\ \A k \in DOMAIN s.toks : s.toks[k].b # <<>> /\ d \notin RangeOf(s.toks[k].b)

=============================================================================
