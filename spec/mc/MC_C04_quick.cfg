SPECIFICATION Spec
CONSTANTS
  MAXARGS = 4
  LENS = {1, 3}
  NS = {0, 1, 2}
  LS = {0, 1, 2}
  SDELTAS = {99, 0, 4, 7, 9}
  CMD = 5
  SYSS = {100000, 11}
  EMIT = TRUE
INVARIANTS CountersAgree LosslessAlways LimitsAlways EndsAsReference RefLawsHold EmitVectors
CHECK_DEADLOCK FALSE
