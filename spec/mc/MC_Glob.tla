------------------------------- MODULE MC_Glob -------------------------------
(* C12: every pattern up to LP characters over PALPHA, with and without case *)
(* folding, against a fixed universe of subject strings; the laws below are  *)
(* checked on the reference matcher and every pattern is printed with the    *)
(* set of subjects it matches for replay on the real find (-lname over links *)
(* whose targets are the subjects, -name and -path over files named so).     *)
EXTENDS Glob, Json, TLC, SequencesExt

CONSTANTS LP, PALPHA, EMIT

S1 == {97, 65, 98, 93, 45, 33, 92, 91, 47, 46, 42, 63}  \* a A b ] - ! \ [ / . * ?
S3 == {97, 47, 46, 10}                                   \* a / . newline
Subjects == SetToSeq({s \in SeqsUpTo(S1, 2) : s # <<>>} \cup {s \in SeqsOfLen(S3, 3) : TRUE} \cup {<<233>>, <<97, 233>>, <<128512>>})

VARIABLES pat, fold, picked
vars == <<pat, fold, picked>>
\* one step picks the case, so that the cases are evaluated by TLC's worker threads
Init == pat = <<>> /\ fold = FALSE /\ picked = FALSE
Next == ~picked /\ picked' = TRUE /\ pat' \in SeqsUpTo(PALPHA, LP) /\ fold' \in BOOLEAN
Spec == Init /\ [][Next]_vars

M(p, s) == GlobMatch(p, s, fold)
Special == {STAR, QM, BSLASH, LBR}

\* a pattern without special characters matches exactly itself (up to case when folding)
LiteralLaw ==
  (\A i \in DOMAIN pat : pat[i] \notin Special) =>
     \A k \in DOMAIN Subjects :
        M(pat, Subjects[k]) <=> (Len(Subjects[k]) = Len(pat) /\ \A i \in DOMAIN pat : SameChar(pat[i], Subjects[k][i], fold))
\* whole-string: without '*', pattern units and subject characters correspond one to one
RECURSIVE Units(_, _)
Units(p, i) == IF i > Len(p) THEN 0
               ELSE IF p[i] = BSLASH THEN 1 + Units(p, i + 2)
               ELSE IF p[i] = LBR /\ Bracket(p, i).ok THEN 1 + Units(p, Bracket(p, i).next)
               ELSE 1 + Units(p, i + 1)
WholeStringLaw ==
  (\A i \in DOMAIN pat : pat[i] # STAR) =>
     \A k \in DOMAIN Subjects : M(pat, Subjects[k]) => Len(Subjects[k]) = Units(pat, 1)
\* appending or prepending '*' only adds matches; '*' matches everything
StarLaw ==
  /\ \A k \in DOMAIN Subjects : GlobMatch(<<STAR>>, Subjects[k], fold)
  /\ (pat = <<>> \/ pat[Len(pat)] # BSLASH) =>
        \A k \in DOMAIN Subjects : M(pat, Subjects[k]) => (M(pat \o <<STAR>>, Subjects[k]) /\ M(<<STAR>> \o pat, Subjects[k]))
\* a lone trailing backslash: nothing matches
TrailingBackslashLaw ==
  (pat # <<>> /\ pat[Len(pat)] = BSLASH /\ (Len(pat) = 1 \/ pat[Len(pat) - 1] # BSLASH) /\ ~\E i \in DOMAIN pat : pat[i] = LBR) =>
     \A k \in DOMAIN Subjects : ~M(pat, Subjects[k])
\* [!x] is the complement of [x] on single characters
NegationLaw ==
  (Len(pat) >= 3 /\ pat[1] = LBR /\ pat[2] # BANG /\ Bracket(pat, 1).ok /\ Bracket(pat, 1).next = Len(pat) + 1) =>
     LET np == <<LBR, BANG>> \o Tail(pat) IN
     \A k \in DOMAIN Subjects : Len(Subjects[k]) = 1 => (M(pat, Subjects[k]) # GlobMatch(np, Subjects[k], fold))

EmitVectors ==
  (EMIT /\ picked) => PrintT(<<"VEC", ToJson([in |-> [pat |-> pat, fold |-> fold],
                                   exp |-> [dom |-> GlobInDomain(pat, fold),
                                            m |-> SelectSeq([k \in DOMAIN Subjects |-> k], LAMBDA k : M(pat, Subjects[k]))]])>>)
\* the subject universe itself, printed once
EmitSubjects == (EMIT /\ ~picked) => \A k \in DOMAIN Subjects : PrintT(<<"SUBJ", k, ToJson(Subjects[k])>>)
=============================================================================
