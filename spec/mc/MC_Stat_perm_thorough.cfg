SPECIFICATION Spec
CONSTANTS
  FLAVOUR = "perm"
  ALLMODES = TRUE
  EMIT = TRUE
INVARIANTS PermLaws XtypeDual LnameLaw SamefileLaw SymLaw EmitVectors
CHECK_DEADLOCK FALSE
