SPECIFICATION Spec
CONSTANTS
  MAXARGS = 9
  LENS = {1, 2, 7}
  RLIMS = {64, 256, 320, 384, 448, 512, 4000}
  ENVS = {0, 2, 6}
  CMDLENS = {3, 12}
  COSTMODEL = "ptr"
INVARIANTS NeverE2BIG LosslessAlways
CHECK_DEADLOCK FALSE
