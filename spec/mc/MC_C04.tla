------------------------------ MODULE MC_C04 ------------------------------
(* Bounded model checking of xargs batching: every argument sequence up to  *)
(* MAXARGS over the given lengths and line endings, every option            *)
(* combination; the implementation-shaped loop with its limiter chain must  *)
(* keep the declarative invariants in every state and end in one of the     *)
(* outcomes the reference allows.                                           *)
EXTENDS XargsBatchImpl, TLC, Json

CONSTANTS MAXARGS, LENS, NS, LS, SDELTAS, CMD, SYSS, EMIT

ArgSet == [len : LENS, hard : BOOLEAN]

Inputs ==
  {[args |-> a, n |-> n, L |-> l, s |-> (IF d = 99 THEN 0 ELSE CMD - 1 + d), cmd |-> CMD, x |-> x, r |-> r, sys |-> y] :
     a \in SeqsUpTo(ArgSet, MAXARGS), n \in NS, l \in LS, d \in SDELTAS, x \in BOOLEAN, r \in BOOLEAN, y \in SYSS}

\* (nested quantifiers instead of "\E i \in Inputs": TLC enumerates them without building the set of all inputs)
Init == \E a \in SeqsUpTo(ArgSet, MAXARGS), n \in NS, l \in LS, d \in SDELTAS, x \in BOOLEAN, r \in BOOLEAN, y \in SYSS :
           ImplInit([args |-> a, n |-> n, L |-> l, s |-> (IF d = 99 THEN 0 ELSE CMD - 1 + d), cmd |-> CMD, x |-> x, r |-> r, sys |-> y])
Next == ImplNext
Spec == Init /\ [][Next]_bvars

SysNotBinding == in.sys >= in.cmd + SumSeq([k \in DOMAIN in.args |-> Cost(in.args[k])])

\* The reference does not know in.sys
RefIn == [f \in (DOMAIN in) \ {"sys"} |-> in[f]]

EndsAsReference == ImplFinished /\ SysNotBinding => ImplOutcome \in RefOutcomes(RefIn)

\* With a binding system budget the run is still lossless and within the user limits,
\* and never exceeds the system budget (LimitsAlways); it ends with exit 0 or 1.
RefLawsHold == (pos = 1 /\ execs = <<>>) => RefLaws(RefIn)

EmitVectors ==
  (EMIT /\ pos = 1 /\ execs = <<>> /\ cur = <<>> /\ SysNotBinding /\ in.sys = 100000 /\ ~(in.n > 0 /\ in.L > 0)) =>
     PrintT(<<"VEC", ToJson([in |-> RefIn, exp |-> [outcomes |-> SetToSeq(RefOutcomes(RefIn))]])>>)
=============================================================================
