SPECIFICATION ISpec
CONSTANTS
  N = 4
  NNAMES = 2
  FLAVOUR = "impl"
  EMIT = FALSE
INVARIANTS RefinesReference Terminates
CHECK_DEADLOCK FALSE
