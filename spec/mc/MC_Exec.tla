------------------------------- MODULE MC_Exec -------------------------------
(* C09: argument templates with zero, one or several {} per argument x exit   *)
(* status scripts x -exec / -execdir x a test in front x a command that       *)
(* cannot be run, on a tree whose names contain blanks, '{}' and a leading    *)
(* dash.  The laws are the property's sentences; every case is a vector.      *)
EXTENDS FindActions, Json, TLC

CONSTANTS MAXSCRIPT, EMIT

N(par, nm, kd) == [parent |-> par, name |-> nm, kind |-> kd, target |-> 0]
TREE == << N(0, <<100>>, "d"), N(1, <<97>>, "f"), N(1, <<98, 32, 99>>, "f"), N(1, <<115>>, "d"),
           N(4, <<123, 125>>, "f"), N(1, <<45, 110>>, "f"), N(4, <<113, 39, 34>>, "f") >>     \* d d/a "d/b c" d/s "d/s/{}" d/-n d/s/q'"
\* the starting point: the directory, a directory below it named with two components, a file
RootChoices == { << [spell |-> <<100>>, node |-> 1] >>, << [spell |-> <<100, 47, 115>>, node |-> 4] >>, << [spell |-> <<46, 47, 100, 47, 97>>, node |-> 2] >> }
cfg == [mode |-> "P", min |-> 0, max |-> NoMax, depth |-> FALSE, sorted |-> TRUE, prune |-> {}]

Pieces == { BRACES, <<120>> \o BRACES \o <<121>>, BRACES \o BRACES, <<108, 105, 116>>, <<>>, <<45, 45>> }
Templates == SeqsUpTo(Pieces, 2)
Scripts == SeqsUpTo({0, 1, 7}, MAXSCRIPT)
Pres == {[p |-> "none"], [p |-> "name", pat |-> <<97>>], [p |-> "type", c |-> "f"], [p |-> "name", pat |-> <<42, 123, 125>>]}

VARIABLES template, script, execdir, pre, nocmd, picked, phase, roots
vars == <<template, script, execdir, pre, nocmd, picked, phase, roots>>
Init == template = <<>> /\ script = <<>> /\ execdir = FALSE /\ pre = [p |-> "none"] /\ nocmd = FALSE /\ picked = FALSE /\ phase = 0 /\ roots = << [spell |-> <<100>>, node |-> 1] >>
\* two steps, so that TLC's workers share the cases: first the template, then the rest
Next == \/ /\ phase = 0 /\ phase' = 1 /\ template' \in Templates /\ UNCHANGED <<script, execdir, pre, nocmd, picked, roots>>
        \/ /\ phase = 1 /\ phase' = 2 /\ picked' = TRUE /\ UNCHANGED template
           /\ script' \in Scripts /\ execdir' \in BOOLEAN /\ pre' \in Pres /\ roots' \in RootChoices
           /\ nocmd' \in (IF script' = <<>> THEN BOOLEAN ELSE {FALSE})
Spec == Init /\ [][Next]_vars

run == SingleExecRun(TREE, cfg, roots, pre, template, execdir, script, nocmd)
reached == Reached(TREE, cfg, roots, pre)

\* one invocation per reached entry, in visit order
OncePerEntry == picked => (nocmd \/ Len(run.execs) = Len(reached)) /\ Len(run.truth) = Len(reached)
\* the template's shape survives: as many arguments as the template has, literal arguments untouched
ArgvIntact ==
  picked => \A k \in DOMAIN run.execs :
     /\ Len(run.execs[k].argv) = Len(template)
     /\ \A a \in DOMAIN template :
          /\ (~\E i \in 1..(Len(template[a]) - 1) : template[a][i] = 123 /\ template[a][i + 1] = 125) => run.execs[k].argv[a] = template[a]
          /\ template[a] = BRACES => run.execs[k].argv[a] = ArgPath(reached[k], execdir)
          /\ template[a] = BRACES \o BRACES => run.execs[k].argv[a] = ArgPath(reached[k], execdir) \o ArgPath(reached[k], execdir)
\* true exactly when the command exits 0
TrueIffZero == picked => \A k \in DOMAIN run.truth : run.truth[k][1] <=> (~nocmd /\ StatusAt(script, k) = 0)
\* -execdir: ./basename, in the parent directory
ExecdirLaw ==
  (picked /\ execdir) => \A k \in DOMAIN run.execs :
     /\ run.execs[k].cwd = NormDir(DirName(reached[k].path))
     /\ (DirName(reached[k].path) = <<>> \/ DirName(reached[k].path) \o <<SLASH>> \o BaseName(reached[k].path) = reached[k].path)
ExitUnaffected == picked => run.exit = 0

EmitVectors ==
  (EMIT /\ picked) =>
     PrintT(<<"VEC", ToJson([in |-> [mode |-> "single", tree |-> TREE, roots |-> roots, cfg |-> [cfg EXCEPT !.prune = <<>>], pre |-> pre,
                                     template |-> template, execdir |-> execdir, script |-> script, nocmd |-> nocmd],
                              exp |-> [execs |-> run.execs, truth |-> run.truth, exit |-> run.exit]])>>)
=============================================================================
