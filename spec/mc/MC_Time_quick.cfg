SPECIFICATION Spec
CONSTANTS
  KMAX = 2
  NMAX = 3
  EMIT = TRUE
INVARIANTS Trichotomy FractionDiscarded OwnTimestamp StrictNewer EmitVectors
CHECK_DEADLOCK FALSE
