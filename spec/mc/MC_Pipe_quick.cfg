SPECIFICATION Spec
CONSTANTS
  LN = 1
  EMIT = TRUE
INVARIANTS RoundTrip OneNulPerEntry StartsAsGiven EmitVectors
CHECK_DEADLOCK FALSE
