------------------------------ MODULE MC_Expr ------------------------------
(* C01 / C11: every token sequence up to L over VOCAB is fed, token by      *)
(* token, to the implementation-shaped builder; when the sequence ends, the *)
(* builder's verdict and the behaviour of the tree it built are compared    *)
(* with the reference grammar and the reference evaluation, for every file  *)
(* valuation.  Every sequence is printed as a vector (tokens, verdict, the  *)
(* prescribed output on the fixture chain) for replay on the real find.     *)
EXTENDS FindExpr, Json

CONSTANTS L, VOCAB, EMIT

VARIABLES toks, st, done
vars == <<toks, st, done>>

Init == toks = <<>> /\ st = ImplInit /\ done = FALSE

Feed(t) == /\ ~done /\ Len(toks) < L
           /\ toks' = Append(toks, t) /\ st' = ImplStep(st, t) /\ done' = FALSE
Finish == ~done /\ done' = TRUE /\ UNCHANGED <<toks, st>>

Next == Finish \/ \E t \in VOCAB : Feed(t)
Spec == Init /\ [][Next]_vars

\* file valuations over the two tests the vocabulary uses
Valuations == {[dir |-> d, sat |-> s, sub |-> 0] : d \in BOOLEAN, s \in SUBSET {"t1", "t2"}}

\* the fixture: a chain of directories (one child each, so the visit order is fixed) ending in a file
CHAIN == << [dir |-> TRUE, sat |-> {}, sub |-> 4], [dir |-> TRUE, sat |-> {"t1"}, sub |-> 3],
            [dir |-> TRUE, sat |-> {"t2"}, sub |-> 2], [dir |-> TRUE, sat |-> {"t1", "t2"}, sub |-> 1],
            [dir |-> FALSE, sat |-> {"t1"}, sub |-> 0] >>

Agree ==
  done =>
    LET p == RefParse(toks) IN
    /\ ImplAccepts(st) <=> p.ok
    /\ p.ok => \A f \in Valuations : ImplFile(st, f) = RefFile(toks, f)

\* ---- laws of the reference itself -------------------------------------------
\* parentheses around a whole well-formed expression change nothing
ParenNeutral ==
  (done /\ toks # <<>> /\ RefParse(toks).ok) =>
     LET w == <<"lp">> \o toks \o <<"rp">> IN
     /\ RefParse(w).ok
     /\ \A f \in Valuations : RefFile(w, f) = RefFile(toks, f)
\* juxtaposition is -a: deleting every explicit -a from a well-formed expression changes nothing
ImplicitAnd ==
  (done /\ RefParse(toks).ok) =>
     LET w == SelectSeq(toks, LAMBDA t : t # "and") IN
     /\ RefParse(w).ok
     /\ \A f \in Valuations : RefFile(w, f) = RefFile(toks, f)
\* a double negation in front of a primary cancels
DoubleNot ==
  (done /\ RefParse(toks).ok) =>
     \A i \in 1..(Len(toks) - 1) :
        (toks[i] = "not" /\ toks[i + 1] = "not") =>
           LET w == SubSeq(toks, 1, i - 1) \o SubSeq(toks, i + 2, Len(toks)) IN
           RefParse(w).ok /\ \A f \in Valuations : RefFile(w, f) = RefFile(toks, f)
\* nothing is output for a file after -quit, and -print is never added when an action is present
QuitAndPrintLaws ==
  (done /\ RefParse(toks).ok) =>
     LET run == RefRun(toks, CHAIN) IN
     /\ (HasAction(toks) => \A k \in DOMAIN run : run[k][2] # "P")
     /\ \A f \in Valuations : RefFile(toks, f).quit => ("quit" \in RangeOf(toks))
     /\ \A k \in DOMAIN run : k > 1 => run[k - 1][1] <= run[k][1]

EmitVectors ==
  (done /\ EMIT) =>
     PrintT(<<"VEC", ToJson([in |-> [toks |-> toks, files |-> CHAIN, form |-> Len(toks)],
                              exp |-> [dom |-> (toks = <<>> \/ toks[1] \notin {"comma", "rp"}),
                                       ok |-> RefParse(toks).ok,
                                       run |-> IF RefParse(toks).ok THEN RefRun(toks, CHAIN) ELSE <<>>]])>>)
=============================================================================
