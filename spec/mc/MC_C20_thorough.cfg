SPECIFICATION Spec
CONSTANTS
  MAXOPTS = 3
  MAXLINES = 3
  EMIT = TRUE
INVARIANTS ReplaceLaws NOneCompatible LastWins EmitVectors
CHECK_DEADLOCK FALSE
