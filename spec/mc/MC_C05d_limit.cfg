SPECIFICATION Spec
CONSTANTS
  BUF = 3
  LIMIT = 2
  K = 4
  ALPHA = {97, 0, 10, 39, 92, 32}
  DELIMS = {0, 10, 97}
  EMIT = FALSE
INVARIANTS EqualsRefSplit NothingLost EmitVectors
CHECK_DEADLOCK FALSE
