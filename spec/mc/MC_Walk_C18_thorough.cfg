SPECIFICATION Spec
CONSTANTS
  N = 3
  NNAMES = 2
  FLAVOUR = "C18"
  EMIT = TRUE
INVARIANTS RangeLaw EmptyRangeLaw NoDuplicates PhysicalCompleteness OrderLaw PruneLaw PruneNoopUnderDepth HLaw DanglingVisited EmitVectors
CHECK_DEADLOCK FALSE
