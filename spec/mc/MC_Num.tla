------------------------------- MODULE MC_Num -------------------------------
(* C14: every unit x every operand in 0..NMAX (and numerals near 2^63 /      *)
(* 2^64) against files of k*unit-1, k*unit, k*unit+1 bytes; link counts and  *)
(* owner ids likewise; ages in days and minutes from two periods in the      *)
(* future to three in the past.  The laws are the property's own sentences.  *)
EXTENDS Numeric, Json, TLC

CONSTANTS NMAX, KMAX, EMIT

SizeFiles == <<[k |-> 0, d |-> 0], [k |-> 0, d |-> 1]>> \o
             Flatten([k \in 1..KMAX |-> <<[k |-> k, d |-> -1], [k |-> k, d |-> 0], [k |-> k, d |-> 1]>>])
ByteFiles == [i \in 1..12 |-> [bytes |-> <<0, 1, 2, 511, 512, 513, 1023, 1024, 1025, 1048575, 1048576, 1048577>>[i]]]
ValFiles == [i \in 1..4 |-> [v |-> i]]
IdFiles == [i \in 1..4 |-> [v |-> i - 1]]       \* owner ids start at 0: "-uid -0" must select nothing
\* ages in whole periods; below zero: a timestamp later than 'now' (N, +N, -N are read the same way there)
AgeFiles == [i \in 1..6 |-> [v |-> i - 3]]
Operands == {[v |-> n] : n \in 0..NMAX} \cup
            {[huge |-> "9223372036854775807"], [huge |-> "9223372036854775808"], [huge |-> "18446744073709551615"]}

VARIABLES prim, unit, n, files, picked
vars == <<prim, unit, n, files, picked>>
Init == prim = "size" /\ unit = "c" /\ n = [v |-> 0] /\ files = <<>> /\ picked = FALSE
Next ==
  /\ ~picked /\ picked' = TRUE /\ n' \in Operands
  /\ \/ prim' = "size" /\ unit' \in Units /\ files' \in {SizeFiles, ByteFiles}
     \/ prim' = "links" /\ unit' = "" /\ files' = ValFiles
     \/ prim' \in {"uid", "gid"} /\ unit' = "" /\ files' = IdFiles
     \/ prim' \in {"mtime", "mmin", "atime", "amin"} /\ unit' = "" /\ files' = AgeFiles /\ "v" \in DOMAIN n'
Spec == Init /\ [][Next]_vars

Sel(form) == Selected(prim, unit, form, n, files)
InSel(i, form) == \E k \in DOMAIN Sel(form) : Sel(form)[k] = i

\* exactly one of N, +N, -N holds for every file
Trichotomy == picked => \A i \in DOMAIN files : Cardinality({f \in Forms : InSel(i, f)}) = 1
\* +N and -N are monotone in N
Monotone ==
  (picked /\ "v" \in DOMAIN n /\ n.v > 0) =>
     LET m == [v |-> n.v - 1] IN
     \A i \in DOMAIN files :
        /\ Cmp("gt", n, Measure(prim, unit, files[i])) => Cmp("gt", m, Measure(prim, unit, files[i]))
        /\ Cmp("lt", m, Measure(prim, unit, files[i])) => Cmp("lt", n, Measure(prim, unit, files[i]))
\* -size -1<unit> matches only empty files; -size 1M matches 1 .. 2^20 bytes
EmptyLaw ==
  (picked /\ prim = "size" /\ n = [v |-> 1]) =>
     \A i \in DOMAIN files :
        InSel(i, "lt") <=> (IF "bytes" \in DOMAIN files[i] THEN files[i].bytes = 0 ELSE (files[i].k = 0 /\ files[i].d = 0) \/ (UnitBytes(unit) = 1 /\ files[i].k + files[i].d = 0))
OneMegLaw ==
  (picked /\ prim = "size" /\ unit = "M" /\ n = [v |-> 1] /\ files = ByteFiles) =>
     \A i \in DOMAIN files : InSel(i, "eq") <=> (files[i].bytes >= 1 /\ files[i].bytes <= 1048576)
\* rounding up: one byte over a whole number of units counts as one more unit
RoundUpLaw ==
  (picked /\ prim = "size" /\ files = SizeFiles /\ UnitBytes(unit) > 1) =>
     \A i \in DOMAIN files : Measure(prim, unit, files[i]) = files[i].k + (IF files[i].d > 0 THEN 1 ELSE 0)

EmitVectors ==
  (EMIT /\ picked) =>
     PrintT(<<"VEC", ToJson([in |-> [prim |-> prim, unit |-> unit, n |-> n, files |-> files],
                              exp |-> [eq |-> Sel("eq"), gt |-> Sel("gt"), lt |-> Sel("lt")]])>>)
=============================================================================
