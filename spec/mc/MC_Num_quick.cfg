SPECIFICATION Spec
CONSTANTS
  NMAX = 3
  KMAX = 2
  EMIT = TRUE
INVARIANTS Trichotomy Monotone EmptyLaw OneMegLaw RoundUpLaw EmitVectors
CHECK_DEADLOCK FALSE
