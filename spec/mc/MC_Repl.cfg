SPECIFICATION Spec
CONSTANTS
  MAXT = 3
  LITS = {0, 1, 5}
  OCCS = {0, 1, 2, 3}
  LENS = {1, 2, 4, 6, 7, 8, 14, 15}
  RLIMS = {64, 256, 320, 384, 512, 4000}
  ENVS = {0, 2, 6}
  CMDLENS = {3, 12}
  MEASURED = TRUE
INVARIANTS ReplNeverE2BIG ReplTooLongReported ReplNotOverStrict
CHECK_DEADLOCK FALSE
