SPECIFICATION Spec
CONSTANTS
  FLAVOUR = "sym"
  ALLMODES = FALSE
  EMIT = TRUE
INVARIANTS PermLaws XtypeDual LnameLaw SamefileLaw SymLaw EmitVectors
CHECK_DEADLOCK FALSE
