------------------------------ MODULE MC_C05d ------------------------------
(* Bounded model checking of the xargs reader for -0 / -d C: every byte     *)
(* string up to K over ALPHA x every delimiter in DELIMS x every way of      *)
(* cutting it into read() chunks: the arguments are RefSplit's, whatever the *)
(* chunking.  One vector per input for the conformance harness.              *)
EXTENDS XargsSplitImpl, TLC, Json

CONSTANTS K, ALPHA, DELIMS, EMIT

VARIABLE sorig
vars == <<svars, sorig>>

Init == \E bytes \in SeqsUpTo(ALPHA, K), d \in DELIMS : sorig = bytes /\ SInit(bytes, d)
Next == SNext /\ UNCHANGED sorig
Spec == Init /\ [][Next]_vars

Ref == RefSplit(sorig, sdelim)
\* "splits only at that one byte and performs no quote or backslash processing, so every other byte reaches the
\* command unchanged" - and independently of the chunking
EqualsRefSplit == SFinished => stoks = Ref.toks
\* nothing is lost on the way: tokens so far, the field under construction, the buffer and the rest re-compose the input
NothingLost ==
  sphase = "fill" =>
    FilterSeq(Flatten([k \in DOMAIN stoks |-> stoks[k].b]) \o field \o sbuf \o sinput, LAMBDA c : c # sdelim)
      = FilterSeq(sorig, LAMBDA c : c # sdelim)
EmitVectors ==
  (EMIT /\ sphase = "call" /\ stoks = <<>> /\ sinput = sorig /\ sbuf = <<>>) =>
     PrintT(<<"VEC", ToJson([in |-> [bytes |-> sorig, delim |-> sdelim], exp |-> Ref])>>)
=============================================================================
