SPECIFICATION Spec
CONSTANTS
  N = 4
  FLAVOUR = "lang"
  EMIT = TRUE
  WITHREP = FALSE
INVARIANTS AltCommutes GroupNeutral PlusLaw WholeString CaseLaw EmitVectors
CHECK_DEADLOCK FALSE
