SPECIFICATION Spec
CONSTANTS
  NR = 2
  NE = 2
  DIRS = {1, 2}
  MAXCAP = 2
  DROPQUIT = FALSE
INVARIANTS AllDeliveredInOrder NoEmptyRun OneDirPerRun WithinCap
CHECK_DEADLOCK FALSE
