------------------------------ MODULE MC_Printf ------------------------------
(* C16: every format string up to LF characters over an alphabet of literal    *)
(* characters, '%', '\', the '-' flag, a width digit and directive / escape    *)
(* letters, rendered by the specification on a fixed tree (directory, files,   *)
(* links to a file, to a directory, dangling) under -P / -L and three          *)
(* spellings of the starting point.  Laws first, then one vector per case.     *)
EXTENDS Printf, Json

CONSTANTS LF, ALPHA, EMIT

N(par, nm, kd, tg, sz, md, tx) == [parent |-> par, name |-> nm, kind |-> kd, target |-> tg, size |-> sz, mode |-> md, text |-> tx,
                                   uid |-> 0, gid |-> 0, nlink |-> 1, ino |-> 1]
TREE == << N(0, <<100>>, "d", 0, 0, 493, <<>>),                 \* d        0755
           N(1, <<102>>, "f", 0, 5, 2541, <<>>),               \* d/f      04755, 5 bytes
           N(1, <<108>>, "l", 2, 1, 511, <<102>>),             \* d/l -> f
           N(1, <<115>>, "d", 0, 0, 448, <<>>),                \* d/s      0700
           N(4, <<103>>, "f", 0, 0, 0, <<>>),                  \* d/s/g    0000, empty
           N(1, <<107>>, "l", 4, 1, 511, <<115>>),             \* d/k -> s
           N(1, <<122>>, "l", 0, 7, 511, <<110, 111, 119, 104, 101, 114, 101>>) >>   \* d/z -> nowhere (dangling)
Spellings == { <<100>>, <<46, 47, 100>>, <<100, 47>> }

VARIABLES fmt, mode, spell, picked
vars == <<fmt, mode, spell, picked>>
Init == fmt = <<>> /\ mode = "P" /\ spell = <<100>> /\ picked = FALSE
Next == ~picked /\ picked' = TRUE /\ fmt' \in SeqsUpTo(ALPHA, LF) /\ mode' \in {"P", "L"} /\ spell' \in Spellings
Spec == Init /\ [][Next]_vars

cfg == [mode |-> mode, min |-> 0, max |-> NoMax, depth |-> FALSE, sorted |-> TRUE, prune |-> {}]
roots == << [spell |-> spell, node |-> 1] >>
parsed == ParseFmt(Utf8(fmt))      \* fmt is a sequence of characters (233 = e-acute, two bytes)
run == PrintfRun(TREE, cfg, roots, parsed.comps)
ents == Walk(TREE, cfg, spell, 1, 0, {}).ents
ctx == [tree |-> TREE, cfg |-> cfg, start |-> spell]

\* a format without '%' and '\' is copied verbatim, once per entry, nothing appended
LiteralLaw ==
  (picked /\ ~\E i \in DOMAIN fmt : fmt[i] \in {PCT, BSL}) =>
     parsed.ok /\ run.out = Flatten([k \in DOMAIN ents |-> Utf8(fmt)])
\* %p is the path as -print prints it; %H, '/' and %P recompose it below the starting point
PathLaws ==
  picked => \A k \in DOMAIN ents :
     LET e == ents[k] IN
     /\ Value(ctx, e, 112) = e.path
     /\ e.depth > 0 => e.path = Value(ctx, e, 72) \o (IF spell[Len(spell)] = SLASH THEN <<>> ELSE <<SLASH>>) \o Value(ctx, e, 80)
     /\ e.depth = 0 => Value(ctx, e, 80) = <<>> /\ Value(ctx, e, 72) = e.path
     /\ (e.depth > 0) => Value(ctx, e, 104) \o <<SLASH>> \o Value(ctx, e, 102) = e.path
\* padding never truncates and pads to exactly the width
PadLaw ==
  (picked /\ parsed.ok) =>
     \A c \in DOMAIN parsed.comps : parsed.comps[c].t = "dir" =>
        \A k \in DOMAIN ents :
           DirDom(ctx, ents[k], parsed.comps[c]) =>
             LET v == Value(ctx, ents[k], parsed.comps[c].c)
                 r == RenderComp(ctx, ents[k], parsed.comps[c]) IN
             /\ Len(r) = MaxOf(Len(v), parsed.comps[c].width)
             /\ IF parsed.comps[c].left THEN IsPrefixOf(v, r) ELSE IsSuffixOf(v, r)
\* %y agrees with what the follow mode resolves: under -L a link to a directory is 'd', a dangling link 'l'
TypeLaw ==
  picked => \A k \in DOMAIN ents :
     LET e == ents[k] IN
     Value(ctx, e, 121) = <<TypeLetter(TREE[Eff(TREE, cfg, e.node, e.depth)].kind)>>

EmitVectors ==
  (EMIT /\ picked /\ parsed.ok) =>
     PrintT(<<"VEC", ToJson([in |-> [tree |-> TREE, roots |-> roots, cfg |-> [cfg EXCEPT !.prune = <<>>], fmt |-> fmt],
                              exp |-> [dom |-> run.dom, out |-> IF run.dom THEN run.out ELSE <<>>]])>>)
=============================================================================
