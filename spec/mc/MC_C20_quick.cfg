SPECIFICATION Spec
CONSTANTS
  MAXOPTS = 2
  MAXLINES = 2
  EMIT = TRUE
INVARIANTS ReplaceLaws NOneCompatible LastWins EmitVectors
CHECK_DEADLOCK FALSE
