SPECIFICATION Spec
CONSTANTS
  MAXSCRIPT = 2
  EMIT = TRUE
INVARIANTS OncePerEntry ArgvIntact TrueIffZero ExecdirLaw ExitUnaffected EmitVectors
CHECK_DEADLOCK FALSE
