SPECIFICATION Spec
CONSTANTS
  N = 4
  NNAMES = 2
  FLAVOUR = "C02u"
  EMIT = TRUE
INVARIANTS RangeLaw EmptyRangeLaw NoDuplicates OrderLaw UnreadableLaw EmitVectors
CHECK_DEADLOCK FALSE
