SPECIFICATION Spec
CONSTANTS
  NR = 2
  NE = 3
  DIRS = {1, 2}
  MAXCAP = 3
  DROPQUIT = FALSE
INVARIANTS AllDeliveredInOrder NoEmptyRun OneDirPerRun WithinCap
CHECK_DEADLOCK FALSE
