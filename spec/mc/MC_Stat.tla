------------------------------- MODULE MC_Stat -------------------------------
(* C13.  FLAVOUR "tree": a fixed tree with every creatable file type, links   *)
(* to each, a dangling link, a hard-linked pair, an empty file and an empty   *)
(* directory x {-P,-H,-L} x starting point given directly or through a link   *)
(* x a catalogue of tests; "perm": -perm MODE in its three forms over a       *)
(* directory of files carrying the modes in MODES; "sym": structured symbolic *)
(* modes and their octal value.                                               *)
EXTENDS Stat, Json

CONSTANTS FLAVOUR, ALLMODES, EMIT

N(par, nm, kd, tg, sz, md, tx, hl, u, g) ==
  [parent |-> par, name |-> nm, kind |-> kd, target |-> tg, size |-> sz, mode |-> md, text |-> tx, hl |-> hl,
   uid |-> u, gid |-> g, nlink |-> 1, ino |-> 1]
TREE == << N(0, <<100>>, "d", 0, 0, 493, <<>>, 0, 0, 0),                       \* 1  d
           N(1, <<102>>, "f", 0, 3, 420, <<>>, 0, 1000, 100),                 \* 2  d/f      0644 uid 1000 gid 100
           N(1, <<101>>, "f", 0, 0, 384, <<>>, 0, 0, 0),                      \* 3  d/e      empty file 0600
           N(1, <<103>>, "f", 0, 3, 420, <<>>, 2, 1000, 100),                 \* 4  d/g      hard link of d/f
           N(1, <<115>>, "d", 0, 0, 448, <<>>, 0, 0, 0),                      \* 5  d/s      0700
           N(5, <<120>>, "f", 0, 1, 2541, <<>>, 0, 54321, 0),                 \* 6  d/s/x    04755 uid 54321
           N(1, <<116>>, "d", 0, 0, 493, <<>>, 0, 0, 0),                      \* 7  d/t      empty directory
           N(1, <<112>>, "p", 0, 0, 420, <<>>, 0, 0, 0),                      \* 8  d/p      fifo
           N(1, <<107>>, "s", 0, 0, 493, <<>>, 0, 0, 0),                      \* 9  d/k      socket
           N(1, <<108, 102>>, "l", 2, 1, 511, <<102>>, 0, 0, 0),              \* 10 d/lf -> f
           N(1, <<108, 115>>, "l", 5, 1, 511, <<115>>, 0, 0, 0),              \* 11 d/ls -> s
           N(1, <<108, 122>>, "l", 0, 7, 511, <<110, 111, 119, 104, 101, 114, 101>>, 0, 0, 0),  \* 12 d/lz -> nowhere
           N(1, <<108, 112>>, "l", 8, 1, 511, <<112>>, 0, 0, 0),              \* 13 d/lp -> p
           N(0, <<114>>, "l", 1, 1, 511, <<100>>, 0, 0, 0) >>                 \* 14 r -> d
Roots == { << [spell |-> <<100>>, node |-> 1] >>, << [spell |-> <<114>>, node |-> 14] >> }

TreeTests ==
  {[p |-> "type", c |-> c] : c \in {"d", "f", "l", "p", "s"}} \cup {[p |-> "xtype", c |-> c] : c \in {"d", "f", "l", "p", "s"}}
  \cup {[p |-> "perm", kind |-> k, m |-> m] : k \in {"exact", "all", "any"}, m \in {0, 4, 420, 384, 493, 448, 2048, 2541, 4095, 73, 18, 511}}
  \cup {[p |-> "uid", form |-> f, n |-> n] : f \in Forms, n \in {0, 1000}} \cup {[p |-> "gid", form |-> f, n |-> n] : f \in Forms, n \in {0, 100}}
  \cup {[p |-> "empty"]}
  \cup {[p |-> "samefile", ref |-> r] : r \in {2, 4, 10, 5, 11, 12}}
  \cup {[p |-> "lname", pat |-> q] : q \in { <<42>>, <<102>>, <<63>>, <<110, 111, 42>> }}

Cover == {0, 1, 2, 4, 8, 16, 32, 64, 128, 256, 512, 1024, 2048, 420, 493, 384, 448, 511, 2541, 1517, 1023, 4095, 73, 146, 292, 18, 3072, 3584, 365, 438}
Modes == IF ALLMODES THEN 0..4095 ELSE Cover
PermOperands == {0, 1, 4, 18, 73, 146, 292, 384, 420, 448, 493, 511, 1024, 2048, 2541, 3072, 4095}

Whos == (SUBSET {"u", "g", "o"}) \ {{}}
PermSets == {{}, {"r"}, {"w"}, {"x"}, {"r", "w"}, {"r", "x"}, {"r", "w", "x"}, {"s"}, {"t"}, {"x", "s"}, {"r", "w", "x", "s", "t"}, {"X"}, {"r", "X"}}
Acts == {[op |-> o, perms |-> ps, copy |-> ""] : o \in {"+", "-", "="}, ps \in PermSets}
        \cup {[op |-> o, perms |-> {}, copy |-> c] : o \in {"+", "="}, c \in {"u", "g", "o"}}
Second == {[op |-> "+", perms |-> {"x"}, copy |-> ""], [op |-> "-", perms |-> {"w"}, copy |-> ""], [op |-> "=", perms |-> {"r"}, copy |-> ""],
           [op |-> "+", perms |-> {}, copy |-> "u"]}
\* who-less clauses ("=w", "-+x" ...); where the operand itself would begin with '+' (exact form) it is left out - that
\* spelling once meant something else
NoWho == {<<[who |-> {}, acts |-> <<a>>]>> : a \in {x \in Acts : x.copy = ""}}
        \cup {<<[who |-> {"u"}, acts |-> <<[op |-> "=", perms |-> {"r"}, copy |-> ""]>>], [who |-> {}, acts |-> <<a>>]>> : a \in {x \in Acts : x.copy = ""}}
SymModes ==
  NoWho \cup
  {<<[who |-> w, acts |-> <<a>>]>> : w \in Whos, a \in Acts}
  \cup {<<[who |-> w, acts |-> <<a, b>>]>> : w \in {{"u"}, {"g", "o"}, {"u", "g", "o"}}, a \in Acts, b \in Second}
  \cup {<<[who |-> {"u"}, acts |-> <<[op |-> "=", perms |-> {"r", "w", "x"}, copy |-> ""]>>], [who |-> w, acts |-> <<a>>]>> : w \in Whos, a \in Acts}

VARIABLES cfgmode, roots, test, sym, picked
vars == <<cfgmode, roots, test, sym, picked>>
Init == cfgmode = "P" /\ roots = (CHOOSE r \in Roots : TRUE) /\ test = [p |-> "empty"] /\ sym = <<>> /\ picked = FALSE
Next ==
  /\ ~picked /\ picked' = TRUE
  /\ IF FLAVOUR = "tree" THEN cfgmode' \in {"P", "H", "L"} /\ roots' \in Roots /\ test' \in TreeTests /\ sym' = <<>>
     ELSE IF FLAVOUR = "perm"
     THEN UNCHANGED <<cfgmode, roots>> /\ sym' = <<>> /\ \E k \in {"exact", "all", "any"}, m \in PermOperands : test' = [p |-> "perm", kind |-> k, m |-> m]
     ELSE UNCHANGED <<cfgmode, roots>> /\ sym' \in SymModes
          /\ \E k \in {"exact", "all", "any"} :
                /\ ~(k = "exact" /\ sym'[1].who = {} /\ sym'[1].acts[1].op # "=")
                /\ test' = [p |-> "perm", kind |-> k, m |-> SymbolicValue(sym')]
Spec == Init /\ [][Next]_vars

cfg == [mode |-> cfgmode, min |-> 0, max |-> NoMax, depth |-> FALSE, sorted |-> TRUE, prune |-> {}]
sel == Selection(TREE, cfg, roots, test)
ents == WalkRoots(TREE, cfg, roots).ents

\* ---- the property's sentences ------------------------------------------------------
\* -perm laws on all modes
PermLaws ==
  (picked /\ test.p = "perm") =>
     \A b \in Modes :
        /\ PermMatch("exact", test.m, b) <=> (b = test.m)
        /\ PermMatch("exact", test.m, b) => PermMatch("all", test.m, b)
        /\ (test.m # 0 /\ PermMatch("all", test.m, b)) => PermMatch("any", test.m, b)
        /\ PermMatch("any", 0, b) /\ PermMatch("all", 0, b)
\* -xtype makes the opposite choice from -type: under -L it sees the links themselves, under -P what they point to
XtypeDual ==
  (picked /\ FLAVOUR = "tree" /\ test.p = "xtype") =>
     LET other == [cfg EXCEPT !.mode = IF cfgmode = "L" THEN "P" ELSE "L"] IN
     \A k \in DOMAIN ents :
        (cfgmode # "H" \/ ents[k].depth > 0) =>
           (TestHolds(TREE, cfg, ents[k], test) <=>
              TestHolds(TREE, other, [ents[k] EXCEPT !.eff = Eff(TREE, other, ents[k].node, ents[k].depth)], [p |-> "type", c |-> test.c]))
\* -lname is false for every link the follow mode resolves
LnameLaw ==
  (picked /\ FLAVOUR = "tree" /\ test.p = "lname") =>
     \A k \in DOMAIN ents : TestHolds(TREE, cfg, ents[k], test) => (TREE[ents[k].node].kind = "l" /\ ents[k].eff = ents[k].node)
\* a hard link is the same file; under -P a symbolic link is not the file it points to
SamefileLaw ==
  (picked /\ FLAVOUR = "tree" /\ test = [p |-> "samefile", ref |-> 2]) =>
     /\ \A k \in DOMAIN ents : ents[k].node \in {2, 4} => TestHolds(TREE, cfg, ents[k], test)
     /\ cfgmode = "P" => \A k \in DOMAIN ents : ents[k].node = 10 => ~TestHolds(TREE, cfg, ents[k], test)
\* a symbolic mode and its octal value are the same operand
SymLaw == (picked /\ FLAVOUR = "sym") =>
  /\ test.m \in 0..4095
  \* for a directory X is x; for another file it adds nothing the mode did not have; without X and without "=" the two values agree
  /\ BitsOf(test.m) \subseteq BitsOf(SymbolicValueFor(sym, TRUE)) \/ \E c \in DOMAIN sym : \E a \in DOMAIN sym[c].acts : sym[c].acts[a].op # "+"
  /\ (\A c \in DOMAIN sym : \A a \in DOMAIN sym[c].acts : "X" \notin sym[c].acts[a].perms /\ sym[c].acts[a].op # "=") => SymbolicValueFor(sym, TRUE) = test.m
  \* ... and they never differ in anything but the execute bits and the two bits a directory keeps under "="
  /\ (BitsOf(SymbolicValueFor(sym, TRUE)) \ BitsOf(test.m)) \cup (BitsOf(test.m) \ BitsOf(SymbolicValueFor(sym, TRUE))) \subseteq {0, 3, 6, 10, 11}

EmitVectors ==
  (EMIT /\ picked) =>
     PrintT(<<"VEC", ToJson(
        IF FLAVOUR = "tree"
        THEN [in |-> [tree |-> TREE, roots |-> roots, cfg |-> [cfg EXCEPT !.prune = <<>>], test |-> test], exp |-> [paths |-> sel.paths]]
        ELSE [in |-> [modes |-> IF ALLMODES THEN "all" ELSE "cover", cover |-> SetToSeq(Cover), kind |-> test.kind, m |-> test.m, text |-> SymbolicText(sym)],
              \* sel: which of the files are selected; seld: which of the directories carrying the same modes
              exp |-> [sel |-> SetToSeq({b \in Modes : PermMatch(test.kind, test.m, b)}),
                       seld |-> SetToSeq({b \in Modes : PermMatch(test.kind, IF FLAVOUR = "sym" THEN SymbolicValueFor(sym, TRUE) ELSE test.m, b)})]])>>)
=============================================================================
