----------------------------- MODULE MC_Operand -----------------------------
(* C11: every operand string up to K over a per-primary alphabet of valid    *)
(* characters, near-misses and junk is classified by FindCli and printed as  *)
(* a vector: the real find must reject exactly the "invalid" ones before     *)
(* visiting anything, accept the "valid" ones, and never panic on any.       *)
EXTENDS FindCli, Json

CONSTANTS K, KINDS, EMIT

Alpha(kind) ==
  CASE kind = "num" -> {43, 45, 48, 49, 57, 120, 46}                       \* + - 0 1 9 x .
    [] kind = "timenum" -> {43, 45, 48, 49, 57, 120, 46}
    [] kind = "size" -> {43, 45, 49, 48, 107, 99, 71, 120, 102}             \* + - 1 0 k c G x f
    [] kind = "type" -> {102, 100, 108, 120, 68, 44}                        \* f d l x D ,
    [] kind = "perm" -> {45, 47, 43, 61, 55, 56, 117, 97, 114, 120, 44}     \* - / + = 7 8 u a r x ,
    [] kind = "printf" -> {120, 37, 92, 45, 53, 112, 122, 110, 84, 81}      \* x % \ - 5 p z n T Q
    [] OTHER -> {}
ExecWords == {"cmd", "{}", "x{}", "w", ";", "+"}
RegexTypes == {"emacs", "posix-basic", "posix-extended", "grep", "ed", "sed", "posix-egrep", "awk",
               "", "posix", "EMACS", "emacs ", "posix-extended2", "posix_basic", "foo"}

Cases(kind) ==
  IF kind = "exec" THEN {a \in SeqsUpTo(ExecWords, K) : ExecTerminator(a) \in {0, Len(a)}}   \* nothing after the terminator
  ELSE IF kind = "regextype" THEN RegexTypes
  ELSE SeqsUpTo(Alpha(kind), IF kind = "type" THEN MinOf(K, 3) ELSE K)

Class(kind, a) ==
  CASE kind = "num" -> NumClass(a, FALSE)
    [] kind = "timenum" -> NumClass(a, TRUE)
    [] kind = "size" -> SizeClass(a)
    [] kind = "type" -> TypeClass(a)
    [] kind = "perm" -> PermClass(a)
    [] kind = "printf" -> PrintfClass(a)
    [] kind = "exec" -> ExecClass(a)
    [] kind = "regextype" -> RegextypeClass(a)

VARIABLES kind, arg
vars == <<kind, arg>>
Init == kind \in KINDS /\ arg \in Cases(kind)
Next == UNCHANGED vars
Spec == Init /\ [][Next]_vars

cls == Class(kind, arg)

\* ---- laws of the classifiers -----------------------------------------------
SignLaw ==
  (kind \in {"num", "timenum", "size"} /\ arg # <<>> /\ ~IsSign(arg[1]) /\ cls = "valid") =>
     Class(kind, <<PLUS>> \o arg) = "valid" /\ Class(kind, <<MINUS>> \o arg) = "valid"
\* the comparison prefix of -perm is independent of the mode
PermPrefixLaw ==
  (kind = "perm" /\ arg # <<>> /\ arg[1] \notin {MINUS, SLASHC, PLUS} /\ cls # "unspec") =>
     Class(kind, <<MINUS>> \o arg) = cls /\ Class(kind, <<SLASHC>> \o arg) = cls
\* symbolic modes: a comma list is valid iff every clause is
PermListLaw ==
  (kind = "perm" /\ arg # <<>> /\ arg[1] \notin {MINUS, SLASHC, PLUS} /\ ~\E i \in DOMAIN arg : IsDigit(arg[i])) =>
     (cls = "valid" <=> \A k \in DOMAIN SplitOn(arg, COMMA) : ClauseOK2(SplitOn(arg, COMMA)[k]))
\* a format is rejected only if its tail is an unfinished directive
PrintfLaw ==
  (kind = "printf" /\ cls = "invalid") =>
     \E i \in DOMAIN arg : arg[i] = PCT /\ AllIn(SubSeq(arg, i + 1, Len(arg)), PrintfFlags \cup (48..57))
\* -exec: whatever is classified valid has a command and a terminator
ExecLaw ==
  (kind = "exec" /\ cls = "valid") => (ExecTerminator(arg) >= 2 /\ arg[1] = "cmd")
NonVacuous == TRUE

EmitVectors ==
  EMIT => PrintT(<<"VEC", ToJson([in |-> [kind |-> kind, arg |-> arg, form |-> Len(arg)], exp |-> [cls |-> cls]])>>)
=============================================================================
