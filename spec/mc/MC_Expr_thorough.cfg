SPECIFICATION Spec
CONSTANTS
  L = 5
  VOCAB = {"t1", "t2", "a1", "a2", "true", "false", "prune", "quit", "opt", "not", "and", "or", "comma", "lp", "rp"}
  EMIT = TRUE
INVARIANTS Agree ParenNeutral ImplicitAnd DoubleNot QuitAndPrintLaws EmitVectors
CHECK_DEADLOCK FALSE
