SPECIFICATION Spec
CONSTANTS
  LW = 2
  EMIT = TRUE
INVARIANTS NoCutLaw DefaultPrintLaw PruneDepthLaw FileLaw NoErrLaw EmitVectors
CHECK_DEADLOCK FALSE
