SPECIFICATION Spec
CONSTANTS
  LW = 2
  EMIT = TRUE
INVARIANTS NoCutLaw DefaultPrintLaw PruneDepthLaw EmitVectors
CHECK_DEADLOCK FALSE
