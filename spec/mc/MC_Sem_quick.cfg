SPECIFICATION Spec
CONSTANTS
  LW = 2
  EMIT = TRUE
INVARIANTS NoCutLaw DefaultPrintLaw SilentActionLaw PruneDepthLaw FileLaw NoErrLaw RootsLaw GoptLaw EmitVectors
CHECK_DEADLOCK FALSE
