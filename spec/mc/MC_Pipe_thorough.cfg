SPECIFICATION Spec
CONSTANTS
  LN = 2
  EMIT = TRUE
INVARIANTS RoundTrip OneNulPerEntry StartsAsGiven EmitVectors
CHECK_DEADLOCK FALSE
