SPECIFICATION Spec
CONSTANTS
  KMAX = 5
  NMAX = 6
  EMIT = TRUE
INVARIANTS Trichotomy FractionDiscarded OwnTimestamp StrictNewer EmitVectors
CHECK_DEADLOCK FALSE
