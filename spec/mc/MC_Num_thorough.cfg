SPECIFICATION Spec
CONSTANTS
  NMAX = 6
  KMAX = 5
  EMIT = TRUE
INVARIANTS Trichotomy Monotone EmptyLaw OneMegLaw RoundUpLaw EmitVectors
CHECK_DEADLOCK FALSE
