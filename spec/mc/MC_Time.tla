------------------------------- MODULE MC_Time -------------------------------
(* C15: ages k*period - e, k*period, k*period + e (e = one nanosecond, one    *)
(* second) for k up to KMAX x operands up to NMAX x the three timestamp kinds *)
(* x days/minutes; and every -newerXY pair with the entry's X one nanosecond  *)
(* or one second before, equal to, or after the reference's Y.                *)
EXTENDS Time, Json, TLC

CONSTANTS KMAX, NMAX, EMIT

\* an age as <<sec, nsec>>
Ages(unit) ==
  UNION {{ <<k * Period(unit), 0>>, <<k * Period(unit), 1>>, <<k * Period(unit) + 1, 0>>, <<k * Period(unit) + Period(unit) \div 2, 500000000>> }
         \cup (IF k > 0 THEN { <<k * Period(unit) - 1, 999999999>>, <<k * Period(unit) - 1, 0>> } ELSE {}) : k \in 0..KMAX}
Deltas == { <<-1, 0>>, <<0, -1>>, <<0, 0>>, <<0, 1>>, <<1, 0>> }       \* entry.X - ref.Y as <<sec, nsec>>
XY == {<<x, y>> : x \in {"a", "m", "c"}, y \in {"a", "m", "c"}} \ {<<"c", "c">>}

VARIABLES mode, kind, unit, age, n, xy, delta, picked
vars == <<mode, kind, unit, age, n, xy, delta, picked>>
Init == mode = "age" /\ kind = "m" /\ unit = "day" /\ age = <<0, 0>> /\ n = 0 /\ xy = <<"m", "m">> /\ delta = <<0, 0>> /\ picked = FALSE
Next ==
  /\ ~picked /\ picked' = TRUE
  /\ \/ /\ mode' = "age" /\ kind' \in {"a", "m", "c"} /\ unit' \in {"day", "min"}
        /\ age' \in Ages(unit') /\ n' \in 0..NMAX /\ UNCHANGED <<xy, delta>>
     \/ /\ mode' = "newer" /\ xy' \in XY /\ delta' \in Deltas /\ UNCHANGED <<kind, unit, age, n>>
Spec == Init /\ [][Next]_vars

\* realise the case with small numbers: now = <<10^6 + age>>, timestamp = <<10^6, 0>>
Base == 1000000
NowOf(a) == <<Base + a[1], a[2]>>
EntOf == [a |-> <<5, 5>>, m |-> <<5, 5>>, c |-> <<5, 5>>]
Ent == [EntOf EXCEPT ![kind] = <<Base, 0>>]
Sel(form) == AgeTest(kind, unit, form, [v |-> n], NowOf(age), Ent)

\* ---- the property's sentences -------------------------------------------------
Trichotomy == (picked /\ mode = "age") => Cardinality({f \in Forms : Sel(f)}) = 1
\* a fraction of a period is discarded: just under (k+1) periods still counts as k
FractionDiscarded ==
  (picked /\ mode = "age") =>
     LET p == Periods(NowOf(age), <<Base, 0>>, unit) IN
     /\ p * Period(unit) <= age[1]
     /\ age[1] < (p + 1) * Period(unit)
\* each test looks at its own timestamp only
OwnTimestamp ==
  (picked /\ mode = "age") =>
     \A other \in {"a", "m", "c"} \ {kind} :
        \A f \in Forms : AgeTest(kind, unit, f, [v |-> n], NowOf(age), [Ent EXCEPT ![other] = <<Base - 777777, 3>>]) = Sel(f)
\* -newer is strict and sees nanoseconds
RefOf == [a |-> <<Base, 500>>, m |-> <<Base, 500>>, c |-> <<Base, 500>>]
EntN == [a |-> <<1, 1>>, m |-> <<1, 1>>, c |-> <<1, 1>>]
NewerSel == NewerTest(xy[1], xy[2], [EntN EXCEPT ![xy[1]] = <<Base + delta[1], 500 + delta[2]>>], RefOf)
StrictNewer == (picked /\ mode = "newer") => (NewerSel <=> (delta[1] > 0 \/ (delta[1] = 0 /\ delta[2] > 0)))

EmitVectors ==
  (EMIT /\ picked) =>
     PrintT(<<"VEC", ToJson(IF mode = "age"
        THEN [in |-> [mode |-> mode, kind |-> kind, unit |-> unit, age |-> age, n |-> n],
              exp |-> [eq |-> Sel("eq"), gt |-> Sel("gt"), lt |-> Sel("lt")]]
        ELSE [in |-> [mode |-> mode, x |-> xy[1], y |-> xy[2], delta |-> delta],
              exp |-> [sel |-> NewerSel]])>>)
=============================================================================
