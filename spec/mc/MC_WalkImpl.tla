---------------------------- MODULE MC_WalkImpl ----------------------------
(* The walk as the code performs it (FindWalkImpl: walkdir's iterator driven   *)
(* by process_dir) against the reference walk (FindWalk), on every tree with   *)
(* at most N nodes x follow mode x depth range x -depth x at most one pruned   *)
(* directory x at most one directory that cannot be read or that is a mount    *)
(* point (with and without -xdev).  Each case is one behaviour of the machine; *)
(* when it is done, Refines must hold: what was evaluated is the reference     *)
(* walk, except for the two named deviations.                                  *)
EXTENDS MC_Walk, FindWalkImpl

\* one directory of the tree marked noread or mnt (or none)
Marked(t, k, what) ==
  [i \in DOMAIN t |-> [parent |-> t[i].parent, name |-> t[i].name, kind |-> t[i].kind, target |-> t[i].target,
                       noread |-> (what = "noread" /\ i = k), mnt |-> (what = "mnt" /\ i = k)]]
MarkChoices(t) ==
  {Marked(t, 0, "none")} \cup {Marked(t, k, "noread") : k \in {i \in DOMAIN t : t[i].kind = "d"}}
                         \cup {Marked(t, k, "mnt") : k \in {i \in DOMAIN t : t[i].kind = "d" /\ i # 1}}
IRanges == {<<0, NoMax>>, <<1, 2>>, <<0, 1>>, <<2, 1>>}

IInit ==
  /\ tree \in UNION {MarkChoices(t) : t \in Trees}
  /\ roots = << [spell |-> tree[1].name, node |-> 1] >>
  /\ files0 = FALSE
  /\ \E m \in {"P", "H", "L"}, r \in IRanges, d \in BOOLEAN, x \in BOOLEAN :
       LET base == [mode |-> m, min |-> r[1], max |-> r[2], depth |-> d, sorted |-> TRUE, prune |-> {}, xdev |-> x] IN
       /\ (x => \E i \in DOMAIN tree : tree[i].mnt)
       /\ \E pr \in {S \in SUBSET DirPaths(tree, base, roots) : Cardinality(S) <= 1} : cfg = [base EXCEPT !.prune = pr]
  /\ WInit

INext == WNext(tree, cfg, roots[1]) /\ UNCHANGED vars
ISpec == IInit /\ [][INext]_<<vars, wvars>>

RefinesReference == Refines(tree, cfg, roots[1])
\* the machine always comes to an end (no step is possible only when it is done)
Terminates == (~ENABLED INext) => phase = "done"
=============================================================================
