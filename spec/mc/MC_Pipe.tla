------------------------------- MODULE MC_Pipe -------------------------------
(* C07: every tree of a directory with up to two entries whose names are up   *)
(* to LN characters over a class alphabet (letter, blank, newline, quotes,    *)
(* backslash, glob characters, leading dash, multi-byte); the byte stream     *)
(* -print0 must produce and the arguments xargs -0 must deliver.              *)
EXTENDS FindActions, Json, TLC

CONSTANTS LN, EMIT

Sym == {<<97>>, <<32>>, <<10>>, <<39>>, <<34>>, <<92>>, <<42>>, <<45>>, <<195, 169>>, <<123, 125>>}
Names == {Flatten(s) : s \in (SeqsUpTo(Sym, LN) \ {<<>>})}

VARIABLES n1, n2, kind2, rootspell, picked, phase
vars == <<n1, n2, kind2, rootspell, picked, phase>>
Init == n1 = <<97>> /\ n2 = <<>> /\ kind2 = "f" /\ rootspell = <<100>> /\ picked = FALSE /\ phase = 0
Next == \/ phase = 0 /\ phase' = 1 /\ n1' \in Names /\ UNCHANGED <<n2, kind2, rootspell, picked>>
        \/ /\ phase = 1 /\ phase' = 2 /\ picked' = TRUE /\ UNCHANGED n1
           /\ n2' \in {<<>>} \cup {x \in Names : LexLess(n1, x)}
           /\ kind2' \in {"f", "d"} /\ rootspell' \in {<<100>>, <<46, 47, 100>>, <<100, 47>>}
Spec == Init /\ [][Next]_vars

N(par, nm, kd) == [parent |-> par, name |-> nm, kind |-> kd, target |-> 0]
tree == IF n2 = <<>> THEN <<N(0, <<100>>, "d"), N(1, n1, "f")>> ELSE <<N(0, <<100>>, "d"), N(1, n1, "d"), N(IF kind2 = "d" THEN 2 ELSE 1, n2, "f")>>
roots == << [spell |-> rootspell, node |-> 1] >>
cfg == [mode |-> "P", min |-> 0, max |-> NoMax, depth |-> FALSE, sorted |-> TRUE, prune |-> {}]
pre == [p |-> "none"]
stream == PrintStream(tree, cfg, roots, pre, 0)
paths == Paths(Reached(tree, cfg, roots, pre))

\* splitting the stream at NUL gives back the paths: nothing in a name can be mistaken for a separator
RoundTrip == picked => Delivered(tree, cfg, roots, pre) = paths
\* one NUL per entry and none inside a record
OneNulPerEntry == picked => Len(SelectSeq(stream, LAMBDA c : c = 0)) = Len(paths)
\* every record starts with the starting point exactly as given
StartsAsGiven == picked => \A k \in DOMAIN paths : IsPrefixOf(rootspell, paths[k])

EmitVectors ==
  (EMIT /\ picked) =>
     PrintT(<<"VEC", ToJson([in |-> [tree |-> tree, roots |-> roots, cfg |-> [cfg EXCEPT !.prune = <<>>], pre |-> pre],
                              exp |-> [stream |-> stream, pstream |-> PrintStream(tree, cfg, roots, pre, 10), args |-> paths]])>>)
=============================================================================
