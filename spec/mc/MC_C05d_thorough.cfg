SPECIFICATION Spec
CONSTANTS
  BUF = 3
  LIMIT = 0
  K = 6
  ALPHA = {97, 0, 10, 39, 92, 32, 195}
  DELIMS = {0, 10, 97}
  EMIT = TRUE
INVARIANTS EqualsRefSplit NothingLost EmitVectors
CHECK_DEADLOCK FALSE
