------------------------------ MODULE MC_C05 ------------------------------
(* Bounded model checking of the xargs reader: every byte string up to K   *)
(* over ALPHA, every way of cutting it into read() chunks (Refill is       *)
(* nondeterministic), ImplAnswer = RefTokenize on the property's domain.   *)
EXTENDS XargsReadImpl, TLC, Json

CONSTANTS K, ALPHA, EMIT

VARIABLE orig   \* the whole input of this behaviour (never changes)

vars == <<rvars, orig>>

Init == /\ orig \in SeqsUpTo(ALPHA, K)
        /\ ImplInit(orig)

Next == ImplNext /\ UNCHANGED orig

Spec == Init /\ [][Next]_vars

Ref == RefTokenize(orig)

\* C05: the argument sequence (with hard/soft kinds) and the error status depend on
\* the input bytes only, and equal the reference wherever the property fixes it.
EqualsRef ==
  ImplFinished /\ Ref.dom =>
     /\ ImplAnswer.err = Ref.err
     /\ (~Ref.err => ImplAnswer.toks = Ref.toks)

\* No argument out of nothing: an argument is never empty unless quotes produced it.
NoPhantomArgs ==
  ImplFinished /\ phase = "done" /\ NoQuoting(orig) =>
     \A k \in DOMAIN toks : toks[k].b # <<>>

\* The bytes read so far plus what is buffered always re-compose the input.
NothingLostInBuffers ==
  phase = "scan" /\ esc = "n" /\ NoQuoting(orig) =>
     FilterSeq(Flatten([k \in DOMAIN toks |-> toks[k].b]) \o result
               \o SubSeq(pending, i + 1, Len(pending)) \o input, LAMBDA c : ~IsSep(c))
       = FilterSeq(orig, LAMBDA c : ~IsSep(c))

RefLawsHold == RefLaws(orig)

\* Test vectors for the conformance harness: one line per input (initial states only).
EmitVectors ==
  (EMIT /\ phase = "call" /\ toks = <<>> /\ input = orig /\ carry = <<>>) =>
     PrintT(<<"VEC", ToJson([in |-> [bytes |-> orig, delim |-> -1], exp |-> Ref])>>)
=============================================================================
