SPECIFICATION Spec
CONSTANTS
  MAXSCRIPT = 3
  EMIT = TRUE
INVARIANTS OncePerEntry ArgvIntact TrueIffZero ExecdirLaw ExitUnaffected EmitVectors
CHECK_DEADLOCK FALSE
