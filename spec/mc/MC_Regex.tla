------------------------------ MODULE MC_Regex ------------------------------
(* C17.  FLAVOUR "lang": every pattern tree up to size N over the atoms      *)
(* a, b, '.', [ab], [^a] x every syntax x -regex / -iregex x anchored with   *)
(* the literal prefix "r/" or not; "scope": small trees x command-line       *)
(* shapes that place -regextype before, inside and after parentheses.        *)
(* Each case is printed with the set of paths of the fixture it selects.     *)
EXTENDS Regex, Json

CONSTANTS N, FLAVOUR, EMIT, WITHREP

A == 97  B == 98
Atoms == {[t |-> "c", c |-> A], [t |-> "c", c |-> B], [t |-> "any"],
          [t |-> "set", cs |-> {A, B}, neg |-> FALSE], [t |-> "set", cs |-> {A}, neg |-> TRUE]}
Unary(x) == {[t |-> "star", a |-> x], [t |-> "plus", a |-> x], [t |-> "opt", a |-> x], [t |-> "grp", a |-> x]}
            \cup (IF WITHREP THEN {[t |-> "rep", a |-> x, lo |-> 1, hi |-> 2]} ELSE {})
Binary(x, y) == {[t |-> "cat", a |-> x, b |-> y], [t |-> "alt", a |-> x, b |-> y]}
RECURSIVE AST(_)
AST(n) == IF n = 1 THEN Atoms
          ELSE UNION {Unary(x) : x \in AST(n - 1)}
               \cup UNION {UNION {Binary(x, y) : x \in AST(i), y \in AST(n - 1 - i)} : i \in 1..(n - 2)}
Trees == UNION {AST(n) : n \in 1..N}

\* the fixture: names below the starting point "r" ("b" is a directory)
Names == << <<A>>, <<B>>, <<A, A>>, <<A, B>>, <<B, A>>, <<B, B>>, <<A, A, B>>, <<A, B, B>>, <<B, A, B>>, <<65>>, <<A, 66>>,
            <<B, 47, A>>, <<B, 47, B>>, <<B, 47, A, B>> >>
R == 114
Paths == << <<R>> >> \o [k \in DOMAIN Names |-> <<R, 47>> \o Names[k]]

W(x) == [w |-> x]
RT(t) == [w |-> "rt", rt |-> t]
Shapes(t1, t2) ==
  { <<RT(t1), W("RE")>>,
    <<RT(t1), W("lp"), W("RE"), W("rp")>>,
    <<W("lp"), RT(t1), W("rp"), W("RE")>>,
    <<RT(t1), W("lp"), RT(t2), W("rp"), W("RE")>>,
    <<RT(t1), RT(t2), W("RE")>>,
    <<W("RE"), RT(t1)>>,
    <<RT(t2), W("lp"), W("true"), W("or"), RT(t1), W("rp"), W("RE")>>,
    <<W("lp"), W("lp"), RT(t1), W("rp"), W("RE"), W("rp")>> }

VARIABLES ast, words, icase, anch, picked
vars == <<ast, words, icase, anch, picked>>
Init == ast = [t |-> "any"] /\ words = <<W("RE")>> /\ icase = FALSE /\ anch = FALSE /\ picked = FALSE
Next ==
  /\ ~picked /\ picked' = TRUE
  /\ IF FLAVOUR = "lang"
     THEN /\ ast' \in Trees
          /\ \E t \in {"none"} \cup Syntaxes : words' = IF t = "none" THEN <<W("RE")>> ELSE <<RT(t), W("RE")>>
          /\ icase' \in BOOLEAN /\ anch' \in BOOLEAN
     ELSE /\ ast' \in UNION {AST(n) : n \in 1..MinOf(N, 2)}
          /\ \E t1 \in {"posix-extended", "posix-basic", "emacs"}, t2 \in {"posix-extended", "grep", "emacs"} : words' \in Shapes(t1, t2)
          /\ icase' = FALSE /\ anch' = TRUE
Spec == Init /\ [][Next]_vars

syn == EffectiveType(words)
full == IF anch THEN [t |-> "cat", a |-> [t |-> "c", c |-> R], b |-> [t |-> "cat", a |-> [t |-> "c", c |-> 47], b |-> ast]] ELSE ast
Sel(e, ic) == SelectSeq([k \in DOMAIN Paths |-> k], LAMBDA k : InLang(e, Paths[k], ic))

\* ---- laws of the language definition -------------------------------------------
\* the order of alternatives is irrelevant
RECURSIVE Swap(_)
Swap(e) == IF e.t = "alt" THEN [t |-> "alt", a |-> Swap(e.b), b |-> Swap(e.a)]
           ELSE IF e.t = "cat" THEN [t |-> "cat", a |-> Swap(e.a), b |-> Swap(e.b)]
           ELSE IF e.t \in {"grp", "star", "plus", "opt"} THEN [e EXCEPT !.a = Swap(e.a)]
           ELSE IF e.t = "rep" THEN [e EXCEPT !.a = Swap(e.a)]
           ELSE e
AltCommutes == picked => Sel(Swap(full), icase) = Sel(full, icase)
\* grouping does not change the language; x+ = xx*; x? = x | empty
GroupNeutral == picked => Sel([t |-> "grp", a |-> full], icase) = Sel(full, icase)
PlusLaw == (picked /\ ast.t = "plus") =>
              \A k \in DOMAIN Paths : InLang(ast, Paths[k], icase) <=> InLang([t |-> "cat", a |-> ast.a, b |-> [t |-> "star", a |-> ast.a]], Paths[k], icase)
\* whole-string: a pattern for a proper prefix or suffix of a path does not select it
WholeString == (picked /\ ast.t = "c") => \A k \in DOMAIN Paths : InLang(ast, Paths[k], icase) => Len(Paths[k]) = 1
\* -iregex selects at least what -regex selects
RECURSIVE HasNeg(_)
HasNeg(e) == IF e.t = "set" THEN e.neg
             ELSE IF e.t \in {"cat", "alt"} THEN HasNeg(e.a) \/ HasNeg(e.b)
             ELSE IF e.t \in {"grp", "star", "plus", "opt", "rep"} THEN HasNeg(e.a) ELSE FALSE
CaseLaw == (picked /\ ~HasNeg(full)) => \A k \in DOMAIN Paths : InLang(full, Paths[k], FALSE) => InLang(full, Paths[k], TRUE)

EmitVectors ==
  (EMIT /\ picked) =>
    PrintT(<<"VEC", ToJson([in |-> [words |-> words, pattern |-> Concrete(full, syn), icase |-> icase, names |-> Names],
                             exp |-> [dom |-> Supported(full, syn), m |-> Sel(full, icase)]])>>)
=============================================================================
