SPECIFICATION Spec
CONSTANTS
  LW = 3
  EMIT = TRUE
INVARIANTS NoCutLaw DefaultPrintLaw PruneDepthLaw EmitVectors
CHECK_DEADLOCK FALSE
