SPECIFICATION Spec
CONSTANTS
  LW = 3
  EMIT = TRUE
INVARIANTS NoCutLaw DefaultPrintLaw SilentActionLaw PruneDepthLaw FileLaw NoErrLaw GoptLaw EmitVectors
CHECK_DEADLOCK FALSE
