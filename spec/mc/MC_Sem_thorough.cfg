SPECIFICATION Spec
CONSTANTS
  LW = 3
  EMIT = TRUE
INVARIANTS NoCutLaw DefaultPrintLaw SilentActionLaw PruneDepthLaw FileLaw NoErrLaw RootsLaw GoptLaw EmitVectors
CHECK_DEADLOCK FALSE
