------------------------------ MODULE MC_C20 ------------------------------
(* Bounded enumeration of -I/-n/-L orders, templates and line lists.  One   *)
(* state per input; the invariants are laws of the reference definition,    *)
(* and every state is printed as a vector for replay on the real binary.    *)
EXTENDS XargsReplace, TLC, Json
CONSTANTS MAXOPTS, MAXLINES, EMIT

R1 == <<82>>          \* "R"
Braces == <<123, 125>> \* "{}"
OptSet == {[o |-> "I", r |-> R1], [o |-> "I", r |-> Braces], [o |-> "n", k |-> 1], [o |-> "n", k |-> 2], [o |-> "L", k |-> 1], [o |-> "L", k |-> 2]}
\* templates: initial-argument lists with zero, one or many occurrences of R / {}
Templates == { <<>>, << <<82>> >>, << <<120>>, <<82, 45, 82>> >>, << <<123, 125>>, <<120, 82, 121>> >>, << <<97>> >>, << <<82, 82>>, <<123, 125, 123, 125>> >>,
               << <<123, 123, 125, 125>>, <<123, 123, 125>> >>,        \* "{{}}" "{{}": R right after a partial start of R
               [i \in 1..7 |-> <<96 + i, 82>>] }                      \* seven arguments "aR" .. "gR": R in every one of them
LineSet == { <<97>>, <<98, 32, 99>>, <<82>>, <<>>, <<100, 32>>, <<99, 233>> }      \* the last one is not valid UTF-8

VARIABLE inp
Init == inp \in [opts : SeqsUpTo(OptSet, MAXOPTS), init : Templates, lines : SeqsUpTo(LineSet, MAXLINES), final_nl : BOOLEAN]
Next == UNCHANGED inp
Spec == Init /\ [][Next]_inp

Ref == RefReplace(inp)
Dom == InDomainReplace(inp)

\* one invocation per non-empty line, nothing appended, arguments without R unchanged
ReplaceLaws ==
  Dom /\ Ref.mode = "I" =>
     LET md == Mode(inp.opts)
         ne == SelectSeq(inp.lines, LAMBDA ln : ln # <<>>) IN
     /\ Len(Ref.argvs) = Len(ne)
     /\ \A j \in DOMAIN Ref.argvs :
          /\ Len(Ref.argvs[j]) = Len(inp.init)
          /\ \A a \in DOMAIN inp.init :
               (ReplaceSub(inp.init[a], md.r, <<>>) = inp.init[a]) => Ref.argvs[j][a] = inp.init[a]
\* -I together with -n 1 only: replace mode in either order
NOneCompatible ==
  (\E a, b \in DOMAIN inp.opts : inp.opts[a].o = "I" /\ inp.opts[b].o = "n" /\ inp.opts[b].k = 1)
  /\ (\A c \in DOMAIN inp.opts : inp.opts[c].o # "L" /\ (inp.opts[c].o = "n" => inp.opts[c].k = 1))
    => Ref.mode = "I"
\* otherwise the last of the three kinds decides
LastWins ==
  (inp.opts # <<>> /\ ~(\E b \in DOMAIN inp.opts : inp.opts[b].o = "n" /\ inp.opts[b].k = 1)) =>
     Ref.mode = inp.opts[Len(inp.opts)].o

EmitVectors == EMIT => PrintT(<<"VEC", ToJson([in |-> inp, exp |-> Ref @@ [dom |-> Dom]])>>)
=============================================================================
