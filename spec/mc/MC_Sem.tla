------------------------------- MODULE MC_Sem -------------------------------
(* The composed specification (FindSem) on a bounded space: every sequence   *)
(* of up to LW words over a vocabulary of real primaries and operators, on   *)
(* the 14-node tree of MC_Stat (every file type, links to each, a dangling   *)
(* link, a hard-linked pair) under -P and -L.  Laws relate the composition   *)
(* to its parts; every well-formed case is printed with the exact bytes      *)
(* find must write.                                                          *)
EXTENDS FindSem, Json

CONSTANTS LW, EMIT

\* 'now' and the modification times: node i was modified AGE[i] before 'now' (the harness sets the real
\* modification times relative to the clock it injects; status-change times are not under its control)
NOW == <<1000000, 500>>
AGE == << <<0, 5>>, <<59, 999999999>>, <<60, 0>>, <<59, 999999999>>, <<86400, 0>>, <<119, 0>>, <<60, 1>>, <<3600, 0>>, <<0, 0>>, <<120, 0>>, <<61, 0>> >>
Back(a) == IF NOW[2] >= a[2] THEN <<NOW[1] - a[1], NOW[2] - a[2]>> ELSE <<NOW[1] - a[1] - 1, NOW[2] + 1000000000 - a[2]>>
N(par, nm, kd, tg, sz, md, tx, hl, u, g) ==
  [parent |-> par, name |-> nm, kind |-> kd, target |-> tg, size |-> sz, mode |-> md, text |-> tx, hl |-> hl,
   uid |-> u, gid |-> g, nlink |-> 1, ino |-> 1]
Timed(tr) == [i \in DOMAIN tr |-> [parent |-> tr[i].parent, name |-> tr[i].name, kind |-> tr[i].kind, target |-> tr[i].target,
                                     size |-> tr[i].size, mode |-> tr[i].mode, text |-> tr[i].text,
                                     hl |-> tr[i].hl, uid |-> tr[i].uid, gid |-> tr[i].gid, nlink |-> 1, ino |-> 1,
                                     age |-> AGE[IF tr[i].hl # 0 THEN tr[i].hl ELSE i],
                                     tm |-> [m |-> Back(AGE[IF tr[i].hl # 0 THEN tr[i].hl ELSE i]), c |-> NOW]]]
TREE0 == << N(0, <<100>>, "d", 0, 64, 493, <<>>, 0, 0, 0), N(1, <<102>>, "f", 0, 3, 420, <<>>, 0, 1000, 100),
           N(1, <<101>>, "f", 0, 0, 384, <<>>, 0, 0, 0), N(1, <<103>>, "f", 0, 3, 420, <<>>, 2, 1000, 100),
           N(1, <<115>>, "d", 0, 64, 448, <<>>, 0, 0, 0), N(5, <<120>>, "f", 0, 1, 2541, <<>>, 0, 54321, 0),
           N(1, <<116>>, "d", 0, 64, 493, <<>>, 0, 0, 0), N(1, <<112>>, "p", 0, 0, 420, <<>>, 0, 0, 0),
           N(1, <<108, 102>>, "l", 2, 1, 511, <<102>>, 0, 0, 0), N(1, <<108, 115>>, "l", 5, 1, 511, <<115>>, 0, 0, 0),
           N(1, <<108, 122>>, "l", 0, 7, 511, <<110, 111, 119, 104, 101, 114, 101>>, 0, 0, 0) >>
TREE == Timed(TREE0)
\* (a directory's size is whatever the file system says, but never 0)
\* d  d/f  d/e  d/g(=f)  d/s  d/s/x  d/t  d/p  d/lf->f  d/ls->s  d/lz->nowhere

RXAST == [t |-> "cat", a |-> [t |-> "star", a |-> [t |-> "any"]],
          b |-> [t |-> "cat", a |-> [t |-> "c", c |-> 47], b |-> [t |-> "cat", a |-> [t |-> "set", cs |-> {101, 108}, neg |-> FALSE], b |-> [t |-> "any"]]]]
Op(t) == [k |-> "op", t |-> t]
T(t) == [k |-> "test", q |-> t]
Vocab ==
  { Op("not"), Op("or"), Op("comma"), Op("lp"), Op("rp"),
    T([p |-> "type", c |-> "f"]), T([p |-> "type", c |-> "d"]), T([p |-> "xtype", c |-> "l"]),
    T([p |-> "perm", kind |-> "all", m |-> 64]), T([p |-> "empty"]), T([p |-> "samefile", ref |-> 2]),
    [k |-> "glob", on |-> "name", pat |-> <<108, 42>>, fold |-> FALSE],              \* -name 'l*'
    [k |-> "glob", on |-> "path", pat |-> <<42, 47, 115, 42>>, fold |-> FALSE],      \* -path '*/s*'
    T([p |-> "size", form |-> "lt", n |-> 1, unit |-> "k"]),                             \* -size -1k: empty files only
    T([p |-> "age", kind |-> "m", unit |-> "min", form |-> "gt", n |-> 0]),              \* -mmin +0
    T([p |-> "newer", x |-> "m", y |-> "m", ref |-> 9]),                                 \* -newer d/lf (the link, or d/f under -L)
    [k |-> "regex", ast |-> RXAST, fold |-> FALSE, text |-> RX!Concrete(RXAST, "emacs")], \* -regex '.*/[el].'
    [k |-> "print", delim |-> 10, file |-> 1],                                           \* -fprint F1
    [k |-> "gopt", o |-> "depth"], [k |-> "gopt", o |-> "maxdepth", n |-> 1],           \* -depth, -maxdepth 1 inside the expression
    [k |-> "exec", c |-> "false"],                                                       \* -exec false ;
    [k |-> "prune"], [k |-> "quit"], [k |-> "print", delim |-> 0],
    [k |-> "printf", fmt |-> <<37, 121, 37, 109, 58, 37, 80, 92, 110>>] }            \* -printf '%y%m:%P\n'

VARIABLES words, mode, depth, picked, phase, rsel
vars == <<words, mode, depth, picked, phase, rsel>>
Init == words = <<>> /\ mode = "P" /\ depth = FALSE /\ picked = FALSE /\ phase = 0 /\ rsel = 1
Next == \/ /\ phase = 0 /\ phase' = 1 /\ words' \in SeqsUpTo(Vocab, LW - 1) /\ rsel' \in (IF Len(words') = LW - 1 THEN {1} ELSE {1, 2}) /\ UNCHANGED <<mode, depth, picked>>
        \/ /\ phase = 1 /\ phase' = 2 /\ picked' = TRUE /\ mode' \in {"P", "L"} /\ depth' \in BOOLEAN /\ UNCHANGED rsel
           /\ \E w \in Vocab \cup {Op("end")} : words' = IF w = Op("end") THEN words ELSE Append(words, w)
Spec == Init /\ [][Next]_vars

cfg == [mode |-> mode, min |-> 0, max |-> NoMax, depth |-> depth, sorted |-> TRUE, prune |-> {},
        syn |-> "emacs", now |-> NOW, users |-> {0}, groups |-> {0}]
\* the starting points: d alone, or d/s, a name that does not exist, d/t
R1 == << [spell |-> <<100>>, node |-> 1] >>
R2 == << [spell |-> <<100, 47, 115>>, node |-> 5], [spell |-> <<110, 111, 112, 101>>, node |-> 0], [spell |-> <<100, 47, 116>>, node |-> 7] >>
roots == IF rsel = 1 THEN R1 ELSE R2
ok == SemParse(words).ok
res == FindResult(words, TREE, cfg, roots)
out == res.outs[0]
ecfg == EffCfg(words, cfg)
U == WalkRoots(TREE, ecfg, roots).ents

\* without -prune and -quit the composition is the reference walk with the expression applied to every entry
NoCutLaw ==
  (picked /\ ok /\ rsel = 1 /\ ~\E i \in DOMAIN words : words[i].k \in {"prune", "quit"}) =>
     out = Flatten([k \in DOMAIN U |-> EntryEval(words, TREE, ecfg, <<100>>, U[k]).out])
\* an expression without action prints exactly the paths on which it is true, one per line
DefaultPrintLaw ==
  (picked /\ ok /\ rsel = 1 /\ words # <<>> /\ ~SemHasAction(words) /\ ~\E i \in DOMAIN words : words[i].k \in {"prune", "quit"}) =>
     out = Flatten([k \in DOMAIN U |-> IF SEval(SemParse(words).ast, words, TREE, ecfg, <<100>>, U[k]).v THEN U[k].path \o <<10>> ELSE <<>>])
\* an action that writes nothing still counts: with -exec somewhere - nested, negated or never reached - and no
\* output action, nothing at all is printed
SilentActionLaw ==
  (picked /\ ok /\ (\E i \in DOMAIN words : words[i].k = "exec") /\ ~\E i \in DOMAIN words : IsOutput(words[i])) => out = <<>>
\* -prune changes nothing under -depth
PruneDepthLaw ==
  (picked /\ ok /\ ecfg.depth) =>
     out = FindOutput(SelectSeq([i \in DOMAIN words |-> IF words[i].k = "prune" THEN [k |-> "const", v |-> TRUE] ELSE words[i]], LAMBDA w : TRUE), TREE, cfg, roots)

\* a global option has the same effect wherever it stands: moving -depth / -maxdepth 1 to the front (where it is
\* and-ed with the rest) changes nothing as long as it stands where its own truth value cannot matter
GoptLaw ==
  (picked /\ ok /\ words # <<>> /\ words[Len(words)].k = "gopt" /\ Len(words) >= 2 /\ words[Len(words) - 1].k # "op"
   /\ ~\E i \in DOMAIN words : words[i].k = "op") =>
     out = FindOutput(<<words[Len(words)]>> \o SubSeq(words, 1, Len(words) - 1), TREE, cfg, roots)

\* the regex word as the harness takes it: the members of a set as a sequence
RECURSIVE Seqd(_)
Seqd(e) == IF e.t = "set" THEN [t |-> "set", cs |-> SetToSeq(e.cs), neg |-> e.neg]
           ELSE IF e.t \in {"cat", "alt"} THEN [t |-> e.t, a |-> Seqd(e.a), b |-> Seqd(e.b)]
           ELSE IF e.t \in {"grp", "star", "plus", "opt"} THEN [t |-> e.t, a |-> Seqd(e.a)]
           ELSE e
VecWords == [i \in DOMAIN words |-> IF words[i].k = "regex" THEN [k |-> "regex", ast |-> Seqd(words[i].ast), fold |-> words[i].fold, text |-> words[i].text]
                                     ELSE words[i]]
\* an output file holds exactly what the same action would have written to standard output
FileLaw ==
  (picked /\ ok) =>
     LET std == [i \in DOMAIN words |-> IF IsAction(words[i]) /\ ChanOf(words[i]) = 1 THEN [k |-> "print", delim |-> 10, file |-> 0] ELSE
                                         IF IsOutput(words[i]) THEN [k |-> "const", v |-> TRUE] ELSE words[i]]
     IN (\E i \in DOMAIN words : IsAction(words[i]) /\ ChanOf(words[i]) = 1) => res.outs[1] = FindOutput(std, TREE, cfg, roots)
\* without a missing starting point or a loop nothing is diagnosed
NoErrLaw == picked /\ ok /\ rsel = 1 => res.errs = 0
\* starting points are independent: unless -quit is evaluated, the run is the runs on each of them one after the
\* other, and the one that does not exist is diagnosed (and only that)
RootsLaw ==
  (picked /\ ok /\ rsel = 2 /\ ~\E i \in DOMAIN words : words[i].k = "quit") =>
     /\ \A c \in Chans : res.outs[c] = FindResult(words, TREE, cfg, <<R2[1]>>).outs[c] \o FindResult(words, TREE, cfg, <<R2[3]>>).outs[c]
     /\ res.errs = 1

EmitVectors ==
  (EMIT /\ picked /\ ok /\ SemDom(words, TREE, cfg, roots)) =>
     PrintT(<<"VEC", ToJson([in |-> [tree |-> TREE, roots |-> roots,
                                     cfg |-> [mode |-> mode, min |-> 0, max |-> NoMax, depth |-> depth, sorted |-> TRUE, prune |-> <<>>,
                                              syn |-> "emacs", nowoff |-> <<0, NOW[2]>>],
                                     words |-> VecWords],
                             exp |-> [out |-> out, errs |-> res.errs, files |-> [c \in 1..2 |-> [there |-> c \in FilesNamed(words), b |-> res.outs[c]]]]])>>)
=============================================================================
