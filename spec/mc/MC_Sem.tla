------------------------------- MODULE MC_Sem -------------------------------
(* The composed specification (FindSem) on a bounded space: every sequence   *)
(* of up to LW words over a vocabulary of real primaries and operators, on   *)
(* the 14-node tree of MC_Stat (every file type, links to each, a dangling   *)
(* link, a hard-linked pair) under -P and -L.  Laws relate the composition   *)
(* to its parts; every well-formed case is printed with the exact bytes      *)
(* find must write.                                                          *)
EXTENDS FindSem, Json

CONSTANTS LW, EMIT

N(par, nm, kd, tg, sz, md, tx, hl, u, g) ==
  [parent |-> par, name |-> nm, kind |-> kd, target |-> tg, size |-> sz, mode |-> md, text |-> tx, hl |-> hl,
   uid |-> u, gid |-> g, nlink |-> 1, ino |-> 1]
TREE == << N(0, <<100>>, "d", 0, 0, 493, <<>>, 0, 0, 0), N(1, <<102>>, "f", 0, 3, 420, <<>>, 0, 1000, 100),
           N(1, <<101>>, "f", 0, 0, 384, <<>>, 0, 0, 0), N(1, <<103>>, "f", 0, 3, 420, <<>>, 2, 1000, 100),
           N(1, <<115>>, "d", 0, 0, 448, <<>>, 0, 0, 0), N(5, <<120>>, "f", 0, 1, 2541, <<>>, 0, 54321, 0),
           N(1, <<116>>, "d", 0, 0, 493, <<>>, 0, 0, 0), N(1, <<112>>, "p", 0, 0, 420, <<>>, 0, 0, 0),
           N(1, <<108, 102>>, "l", 2, 1, 511, <<102>>, 0, 0, 0), N(1, <<108, 115>>, "l", 5, 1, 511, <<115>>, 0, 0, 0),
           N(1, <<108, 122>>, "l", 0, 7, 511, <<110, 111, 119, 104, 101, 114, 101>>, 0, 0, 0) >>
\* d  d/f  d/e  d/g(=f)  d/s  d/s/x  d/t  d/p  d/lf->f  d/ls->s  d/lz->nowhere

Op(t) == [k |-> "op", t |-> t]
T(t) == [k |-> "test", q |-> t]
Vocab ==
  { Op("not"), Op("or"), Op("comma"), Op("lp"), Op("rp"),
    T([p |-> "type", c |-> "f"]), T([p |-> "type", c |-> "d"]), T([p |-> "xtype", c |-> "l"]),
    T([p |-> "perm", kind |-> "all", m |-> 64]), T([p |-> "empty"]), T([p |-> "samefile", ref |-> 2]),
    [k |-> "glob", on |-> "name", pat |-> <<108, 42>>, fold |-> FALSE],              \* -name 'l*'
    [k |-> "glob", on |-> "path", pat |-> <<42, 47, 115, 42>>, fold |-> FALSE],      \* -path '*/s*'
    [k |-> "prune"], [k |-> "quit"], [k |-> "print", delim |-> 0],
    [k |-> "printf", fmt |-> <<37, 121, 37, 109, 58, 37, 80, 92, 110>>] }            \* -printf '%y%m:%P\n'

VARIABLES words, mode, depth, picked, phase
vars == <<words, mode, depth, picked, phase>>
Init == words = <<>> /\ mode = "P" /\ depth = FALSE /\ picked = FALSE /\ phase = 0
Next == \/ /\ phase = 0 /\ phase' = 1 /\ words' \in SeqsUpTo(Vocab, LW - 1) /\ UNCHANGED <<mode, depth, picked>>
        \/ /\ phase = 1 /\ phase' = 2 /\ picked' = TRUE /\ mode' \in {"P", "L"} /\ depth' \in BOOLEAN
           /\ \E w \in Vocab \cup {Op("end")} : words' = IF w = Op("end") THEN words ELSE Append(words, w)
Spec == Init /\ [][Next]_vars

cfg == [mode |-> mode, min |-> 0, max |-> NoMax, depth |-> depth, sorted |-> TRUE, prune |-> {}]
roots == << [spell |-> <<100>>, node |-> 1] >>
ok == SemParse(words).ok
out == FindOutput(words, TREE, cfg, roots)
U == WalkRoots(TREE, cfg, roots).ents

\* without -prune and -quit the composition is the reference walk with the expression applied to every entry
NoCutLaw ==
  (picked /\ ok /\ ~\E i \in DOMAIN words : words[i].k \in {"prune", "quit"}) =>
     out = Flatten([k \in DOMAIN U |-> EntryEval(words, TREE, cfg, <<100>>, U[k]).out])
\* an expression without action prints exactly the paths on which it is true, one per line
DefaultPrintLaw ==
  (picked /\ ok /\ words # <<>> /\ ~SemHasAction(words) /\ ~\E i \in DOMAIN words : words[i].k \in {"prune", "quit"}) =>
     out = Flatten([k \in DOMAIN U |-> IF SEval(SemParse(words).ast, words, TREE, cfg, <<100>>, U[k]).v THEN U[k].path \o <<10>> ELSE <<>>])
\* -prune changes nothing under -depth
PruneDepthLaw ==
  (picked /\ ok /\ depth) =>
     out = FindOutput(SelectSeq([i \in DOMAIN words |-> IF words[i].k = "prune" THEN [k |-> "const", v |-> TRUE] ELSE words[i]], LAMBDA w : TRUE), TREE, cfg, roots)

EmitVectors ==
  (EMIT /\ picked /\ ok /\ SemDom(words, TREE, cfg, roots)) =>
     PrintT(<<"VEC", ToJson([in |-> [tree |-> TREE, roots |-> roots, cfg |-> [cfg EXCEPT !.prune = <<>>], words |-> words], exp |-> [out |-> out]])>>)
=============================================================================
