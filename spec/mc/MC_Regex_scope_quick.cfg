SPECIFICATION Spec
CONSTANTS
  N = 3
  FLAVOUR = "scope"
  EMIT = TRUE
  WITHREP = TRUE
INVARIANTS AltCommutes GroupNeutral PlusLaw WholeString CaseLaw EmitVectors
CHECK_DEADLOCK FALSE
