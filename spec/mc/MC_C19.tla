------------------------------ MODULE MC_C19 ------------------------------
(* All outcome sequences up to MAXLEN over OUTCOMES: the sticky-result loop *)
(* stops at the first fatal outcome and ends with the reference status.     *)
EXTENDS XargsExec, TLC, Json
CONSTANTS MAXLEN, OUTCOMES, EMIT

Init == \E o \in SeqsUpTo(OUTCOMES, MAXLEN) : ExecInit(o)
Spec == Init /\ [][ExecNext]_evars

EmitVectors ==
  (EMIT /\ k = 1 /\ fin = 0 /\ outs # <<>>) =>
     PrintT(<<"VEC", ToJson([in |-> [kind |-> "script", outs |-> outs, per |-> 1],
                             exp |-> RefExit(outs) @@ [dom |-> InDomainOuts(outs)]])>>)
=============================================================================
