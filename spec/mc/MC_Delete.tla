------------------------------ MODULE MC_Delete ------------------------------
(* C10: -delete on a tree with files, nested and empty directories, links to   *)
(* a file inside, to a file and a directory outside the starting point, and a  *)
(* dangling link x {-P,-H,-L} x tests in front.  Laws, then one vector per     *)
(* case: what the twin run -depth EXPR -print reports, what is removed, what   *)
(* is left (every node, inside and outside), whether a removal fails.          *)
EXTENDS FindActions, Json, TLC

CONSTANTS EMIT

N(par, nm, kd, tg) == [parent |-> par, name |-> nm, kind |-> kd, target |-> tg]
TREE == << N(0, <<100>>, "d", 0), N(1, <<97>>, "f", 0), N(1, <<115>>, "d", 0), N(3, <<120>>, "f", 0), N(3, <<121>>, "f", 0),
           N(1, <<101>>, "d", 0), N(1, <<108, 102>>, "l", 2), N(1, <<108, 111>>, "l", 11), N(1, <<108, 100>>, "l", 10),
           N(0, <<111>>, "d", 0), N(10, <<116>>, "f", 0), N(1, <<108, 122>>, "l", 0), N(3, <<117>>, "d", 0), N(13, <<120>>, "f", 0),
           N(0, <<114>>, "l", 1), N(3, <<119>>, "d", 0), N(16, <<107>>, "f", 0), N(1, <<119>>, "d", 0) >>
\* (16 d/s/w  17 d/s/w/k  18 d/w : a removal that fails deep down, then a matched empty directory higher up)
\* 1 d  2 d/a  3 d/s  4 d/s/x  5 d/s/y  6 d/e  7 d/lf->a  8 d/lo->o/t  9 d/ld->o  10 o  11 o/t  12 d/lz dangling  13 d/s/u  14 d/s/u/x  15 r->d
RootChoices == { << [spell |-> <<100>>, node |-> 1] >>, << [spell |-> <<100, 47, 115>>, node |-> 3] >>,
                 << [spell |-> <<114>>, node |-> 15] >>, << [spell |-> <<100, 47, 115>>, node |-> 3], [spell |-> <<100, 47, 101>>, node |-> 6] >> }
Pres == {[p |-> "none"], [p |-> "name", pat |-> <<120>>], [p |-> "name", pat |-> <<91, 120, 121, 93>>], [p |-> "type", c |-> "f"],
         [p |-> "type", c |-> "d"], [p |-> "type", c |-> "l"], [p |-> "name", pat |-> <<115>>], [p |-> "name", pat |-> <<108, 42>>],
         [p |-> "name", pat |-> <<117>>], [p |-> "name", pat |-> <<91, 117, 120, 93>>], [p |-> "name", pat |-> <<119>>],
         [p |-> "name", pat |-> <<91, 117, 119, 93>>]}
Ranges == {<<0, NoMax>>, <<1, NoMax>>, <<0, 1>>, <<2, 2>>}

VARIABLES roots, mode, pre, range, picked
vars == <<roots, mode, pre, range, picked>>
Init == roots = << [spell |-> <<100>>, node |-> 1] >> /\ mode = "P" /\ pre = [p |-> "none"] /\ range = <<0, NoMax>> /\ picked = FALSE
Next == ~picked /\ picked' = TRUE /\ roots' \in RootChoices /\ mode' \in {"P", "H", "L"} /\ pre' \in Pres /\ range' \in Ranges
Spec == Init /\ [][Next]_vars

cfg == [mode |-> mode, min |-> range[1], max |-> range[2], depth |-> FALSE, sorted |-> TRUE, prune |-> {}]
run == DeleteRun(TREE, cfg, roots, pre)
dom == DeleteDom(TREE, cfg, roots)
RECURSIVE Under(_, _)
Under(n, a) == n # 0 /\ (n = a \/ Under(TREE[n].parent, a))

\* the entries deleted or attempted are exactly what -depth EXPR -print reports, in that order
SameAsDepthPrint == picked => Len(run.deleted) + Len(run.failed) = Len(run.matched)
\* a directory goes only when nothing is left in it
DirOnlyWhenEmpty == picked => \A n \in run.gone : TREE[n].kind = "d" => Children(TREE, n) \subseteq run.gone
\* a symbolic link is removed itself, never what it points to - unless that is reached (and matched) on its own
LinkNotTarget ==
  (picked /\ mode = "P") => \A n \in run.gone : Under(n, roots[1].node) \/ \E r \in DOMAIN roots : Under(n, roots[r].node)
\* under -P nothing outside the starting points ever changes
OutsideUntouched ==
  (picked /\ mode = "P") => ((10 \notin run.gone /\ 11 \notin run.gone /\ 15 \notin run.gone) \/ roots[1].node = 15)
\* a removal fails exactly for a matched real directory that keeps an entry
FailureLaw ==
  picked => (run.failed # <<>> <=>
               \E k \in DOMAIN Reached(TREE, [cfg EXCEPT !.depth = TRUE], roots, pre) :
                  LET e == Reached(TREE, [cfg EXCEPT !.depth = TRUE], roots, pre)[k] IN
                  TREE[e.node].kind = "d" /\ ~(Children(TREE, e.node) \subseteq run.gone))

EmitVectors ==
  (EMIT /\ picked) =>
     PrintT(<<"VEC", ToJson([in |-> [tree |-> TREE, roots |-> roots, cfg |-> [cfg EXCEPT !.prune = <<>>], pre |-> pre],
                              exp |-> [dom |-> dom, matched |-> run.matched, deleted |-> run.deleted,
                                       left |-> [i \in DOMAIN TREE |-> i \notin run.gone], fail |-> (run.failed # <<>> \/ run.errs > 0)]])>>)
=============================================================================
