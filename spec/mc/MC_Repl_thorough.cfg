SPECIFICATION Spec
CONSTANTS
  MAXT = 3
  LITS = {0, 1, 5, 9}
  OCCS = {0, 1, 2, 3}
  LENS = {1, 2, 3, 4, 5, 6, 7, 8, 12, 14, 15, 16}
  RLIMS = {64, 256, 320, 384, 448, 512, 4000}
  ENVS = {0, 2, 6}
  CMDLENS = {3, 12}
  MEASURED = TRUE
INVARIANTS ReplNeverE2BIG ReplTooLongReported ReplNotOverStrict
CHECK_DEADLOCK FALSE
