------------------------------- MODULE MC_C06 -------------------------------
(* C06 at model level: the batching loop (XargsBatchImpl) with the system     *)
(* budget the code derives from sysconf(_SC_ARG_MAX), the environment and     *)
(* the 2048-byte headroom, against the kernel's acceptance rule, on scaled    *)
(* constants: pointers 4 bytes, ARGMIN 64, STKCAP 96, STRMAX 16, headroom 8.  *)
(* COSTMODEL selects how the system limiter charges an argument:              *)
(*   "bytes"    len + 1                     (the code before the repair)      *)
(*   "ptr"      len + 1 + PTR, budget capped at STKCAP, long arguments        *)
(*              refused                      (the repaired code)              *)
EXTENDS XargsBatchImpl, TLC

CONSTANTS MAXARGS, LENS, RLIMS, ENVS, COSTMODEL

PTR == 4  ARGMIN == 64  STKCAP == 96  STRMAX == 16  HEADROOM == 8
K == INSTANCE KernelExec

\* the command: argv[0] of 3 bytes, no initial arguments; the file name executed is the same string
CMDLEN == 3
EnvBytes(e) == e * 5             \* e variables of the form "A=xy" -> 4 bytes + terminator
\* what the code takes as the budget of the last limiter (in bytes of its own cost model)
SysBudget(rlim, e) ==
  LET am == IF COSTMODEL = "ptr" THEN MinOf(K!LibcArgMax(rlim), STKCAP) ELSE K!LibcArgMax(rlim)
      envcost == IF COSTMODEL = "ptr" THEN EnvBytes(e) + e * PTR ELSE EnvBytes(e)
  IN am - HEADROOM - envcost
\* the cost of one argument in the system limiter's units, expressed through the length the generic machine sees:
\* XargsBatchImpl charges Cost(a) = a.len + 1, so the "ptr" model is obtained by inflating the lengths
Inflate(l) == IF COSTMODEL = "ptr" THEN l + PTR ELSE l
CmdCost == IF COSTMODEL = "ptr" THEN CMDLEN + 1 + PTR + (CMDLEN + 1) ELSE CMDLEN + 1   \* argv[0] (+ pointer + file name)

VARIABLES rlim, env, lens
Inputs(ls, rl, e) ==
  [args |-> [k \in DOMAIN ls |-> [len |-> Inflate(ls[k]), hard |-> FALSE]], n |-> 0, L |-> 0, s |-> 0,
   cmd |-> CmdCost, x |-> FALSE, r |-> FALSE, sys |-> SysBudget(rl, e)]

Init == \E ls \in SeqsUpTo(LENS, MAXARGS), rl \in RLIMS, e \in ENVS :
           /\ lens = ls /\ rlim = rl /\ env = e
           \* the repaired code refuses an argument that is too long for any exec before batching
           /\ ImplInit(Inputs(ls, rl, e))
Next == ImplNext /\ UNCHANGED <<rlim, env, lens>>
Spec == Init /\ [][Next]_<<bvars, rlim, env, lens>>

TooLong(l) == l + 1 > STRMAX
ExecOf(b) == [argc |-> 1 + Len(b), argbytes |-> (CMDLEN + 1) + SumSeq([k \in DOMAIN b |-> lens[b[k]] + 1]),
              maxarg |-> IF b = <<>> THEN CMDLEN ELSE MaxOf(CMDLEN, CHOOSE m \in {lens[b[k]] : k \in DOMAIN b} : \A k \in DOMAIN b : lens[b[k]] <= m),
              envc |-> env, envbytes |-> EnvBytes(env), fname |-> CMDLEN + 1]

\* every command line the loop hands to exec is one the kernel accepts - as long as each single argument is
\* within the per-argument limit (the property's premise)
\* ... and as long as the command alone, with this environment, could be executed at all with room to spare
BaseOK == K!Accepts([ExecOf(<<>>) EXCEPT !.argbytes = @ + HEADROOM], rlim)
NeverE2BIG ==
  (BaseOK /\ \A k \in DOMAIN lens : ~TooLong(lens[k])) => \A j \in DOMAIN execs : K!Accepts(ExecOf(execs[j]), rlim)
=============================================================================
