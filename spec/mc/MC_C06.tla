------------------------------- MODULE MC_C06 -------------------------------
(* C06 at model level: the batching loop (XargsBatchImpl) with the system     *)
(* budget the code derives from sysconf(_SC_ARG_MAX), the environment and     *)
(* the 2048-byte headroom, against the kernel's acceptance rule, on scaled    *)
(* constants: pointers 4 bytes, ARGMIN 64, STKCAP 96, STRMAX 16, headroom 8.  *)
(* COSTMODEL selects how the system limiter charges an argument:              *)
(*   "bytes"    len + 1                     (the code before the repair)      *)
(*   "nofname"  len + 1 + PTR, budget capped at STKCAP, long arguments        *)
(*              refused - but the name of the executed file is not charged    *)
(*              (the code after the first repair: safe only while the name    *)
(*              fits in the headroom)                                         *)
(*   "ptr"      as "nofname", and the file name is reserved as well           *)
(*              (the repaired code)                                           *)
EXTENDS XargsBatchImpl, TLC

CONSTANTS MAXARGS, LENS, RLIMS, ENVS, COSTMODEL, CMDLENS

PTR == 4  ARGMIN == 64  STKCAP == 96  STRMAX == 16  HEADROOM == 8
K == INSTANCE KernelExec

\* the command: argv[0] of cmdlen bytes (a path: the file name executed is the same string), no initial arguments
VARIABLES rlim, env, lens, cmdlen
Ptrs == COSTMODEL \in {"ptr", "nofname"}
EnvBytes(e) == e * 5             \* e variables of the form "A=xy" -> 4 bytes + terminator
\* what the code takes as the budget of the last limiter (in bytes of its own cost model)
SysBudget(rl, e) ==
  LET am == IF Ptrs THEN MinOf(K!LibcArgMax(rl), STKCAP) ELSE K!LibcArgMax(rl)
      envcost == IF Ptrs THEN EnvBytes(e) + e * PTR ELSE EnvBytes(e)
  IN am - HEADROOM - envcost
\* the cost of one argument in the system limiter's units, expressed through the length the generic machine sees:
\* XargsBatchImpl charges Cost(a) = a.len + 1, so the "ptr" model is obtained by inflating the lengths
Inflate(l) == IF Ptrs THEN l + PTR ELSE l
\* argv[0] (+ pointer (+ file name)); the code takes the file name off the budget instead - the same thing
CmdCost(cl) == CASE COSTMODEL = "ptr" -> cl + 1 + PTR + (cl + 1)
                 [] COSTMODEL = "nofname" -> cl + 1 + PTR
                 [] OTHER -> cl + 1

Inputs(ls, rl, e, cl) ==
  [args |-> [k \in DOMAIN ls |-> [len |-> Inflate(ls[k]), hard |-> FALSE]], n |-> 0, L |-> 0, s |-> 0,
   cmd |-> CmdCost(cl), x |-> FALSE, r |-> FALSE, sys |-> SysBudget(rl, e)]

Init == \E ls \in SeqsUpTo(LENS, MAXARGS), rl \in RLIMS, e \in ENVS, cl \in CMDLENS :
           /\ lens = ls /\ rlim = rl /\ env = e /\ cmdlen = cl
           \* the repaired code refuses an argument that is too long for any exec before batching
           /\ ImplInit(Inputs(ls, rl, e, cl))
Next == ImplNext /\ UNCHANGED <<rlim, env, lens, cmdlen>>
Spec == Init /\ [][Next]_<<bvars, rlim, env, lens, cmdlen>>

TooLong(l) == l + 1 > STRMAX
ExecOf(b) == [argc |-> 1 + Len(b), argbytes |-> (cmdlen + 1) + SumSeq([k \in DOMAIN b |-> lens[b[k]] + 1]),
              maxarg |-> IF b = <<>> THEN cmdlen ELSE MaxOf(cmdlen, CHOOSE m \in {lens[b[k]] : k \in DOMAIN b} : \A k \in DOMAIN b : lens[b[k]] <= m),
              envc |-> env, envbytes |-> EnvBytes(env), fname |-> cmdlen + 1]

\* every command line the loop hands to exec is one the kernel accepts - as long as each single argument is
\* within the per-argument limit (the property's premise)
\* ... and as long as the command alone, with this environment, could be executed at all with room to spare
BaseOK == K!Accepts([ExecOf(<<>>) EXCEPT !.argbytes = @ + HEADROOM], rlim)
NeverE2BIG ==
  (BaseOK /\ \A k \in DOMAIN lens : ~TooLong(lens[k])) => \A j \in DOMAIN execs : K!Accepts(ExecOf(execs[j]), rlim)
=============================================================================
