SPECIFICATION Spec
CONSTANTS
  LF = 2
  ALPHA = {120, 37, 92, 45, 51, 112, 102, 104, 72, 80, 100, 109, 121, 89, 108, 116, 48, 233}
  EMIT = TRUE
INVARIANTS LiteralLaw PathLaws PadLaw TypeLaw EmitVectors
CHECK_DEADLOCK FALSE
