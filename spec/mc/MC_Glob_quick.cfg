SPECIFICATION Spec
CONSTANTS
  LP = 3
  PALPHA = {97, 65, 42, 63, 91, 93, 33, 45, 92, 46}
  EMIT = TRUE
INVARIANTS LiteralLaw WholeStringLaw StarLaw TrailingBackslashLaw NegationLaw EmitVectors EmitSubjects
CHECK_DEADLOCK FALSE
