------------------------------- MODULE MC_Repl -------------------------------
(* C06 for -I at model level: the measurement of the substituted command     *)
(* line (XargsBatchImpl!SubstMeasure, CommandBuilder::execute) against the    *)
(* kernel's acceptance rule (KernelExec), on the scaled constants of MC_C06:  *)
(* pointers 4 bytes, ARGMIN 64, STKCAP 96, STRMAX 16, headroom 8.             *)
(* Every template of up to MAXT initial arguments (lit literal bytes, occ     *)
(* occurrences of the replace string) x line lengths x stack limits x         *)
(* environments x command-name lengths.                                       *)
(* MEASURED = FALSE is the code before the repair (04b33be): the substituted  *)
(* command line is not measured at all, every line that the loop accepted is  *)
(* run - TLC then finds the command line the kernel refuses.                  *)
EXTENDS XargsBatchImpl, TLC

CONSTANTS MAXT, LITS, OCCS, LENS, RLIMS, ENVS, CMDLENS, MEASURED

PTR == 4  ARGMIN == 64  STKCAP == 96  STRMAX == 16  HEADROOM == 8
K == INSTANCE KernelExec

VARIABLES rlim, env, cmdlen
EnvBytes(e) == e * 5
SysBudget(rl, e, cl) ==
  LET b == MinOf(K!LibcArgMax(rl), STKCAP)  c == HEADROOM + EnvBytes(e) + e * PTR + (cl + 1) IN IF b > c THEN b - c ELSE 0

Tmpls == SeqsUpTo([lit : LITS, occ : OCCS], MAXT)
RawLen(t) == t.lit + 2 * t.occ          \* the replace string is {} - two bytes

Init == \E tm \in Tmpls, rl \in RLIMS, e \in ENVS, cl \in CMDLENS :
          /\ rlim = rl /\ env = e /\ cmdlen = cl
          /\ ImplInit([args |-> <<>>, n |-> 1, L |-> 0, s |-> 0, x |-> FALSE, r |-> FALSE,
                       cmd |-> (cl + 1) + SumSeq([k \in DOMAIN tm |-> RawLen(tm[k]) + 1]),
                       sysbase |-> (cl + 1 + PTR) + SumSeq([k \in DOMAIN tm |-> RawLen(tm[k]) + 1 + PTR]),
                       sys |-> SysBudget(rl, e, cl), ptr |-> PTR, argmax |-> STRMAX, tmpl |-> tm, cmd0 |-> cl + 1])
Next == UNCHANGED <<bvars, rlim, env, cmdlen>>
Spec == Init /\ [][Next]_<<bvars, rlim, env, cmdlen>>

\* the loop hands a line to execute() only if the line itself passed the limiters on top of the raw templates
LineAccepted(len) == len + 1 <= STRMAX /\ SysBase(in) + len + 1 + PTR <= in.sys
RFits(len) == IF MEASURED THEN SubstMeasure(len).ok ELSE TRUE

ExecOf(len) ==
  LET subs == [k \in DOMAIN in.tmpl |-> SubLen(in.tmpl[k], len)] IN
  [argc |-> 1 + Len(subs), argbytes |-> (cmdlen + 1) + SumSeq([k \in DOMAIN subs |-> subs[k] + 1]),
   maxarg |-> IF subs = <<>> THEN cmdlen ELSE MaxOf(cmdlen, CHOOSE m \in RangeOf(subs) : \A k \in DOMAIN subs : subs[k] <= m),
   envc |-> env, envbytes |-> EnvBytes(env), fname |-> cmdlen + 1]

\* whatever is run is accepted by the kernel
ReplNeverE2BIG == \A len \in LENS : (LineAccepted(len) /\ RFits(len)) => K!Accepts(ExecOf(len), rlim)
\* a substituted argument over the per-string limit is reported, never run
ReplTooLongReported == \A len \in LENS : (\E k \in DOMAIN in.tmpl : SubLen(in.tmpl[k], len) + 1 > STRMAX) => ~(LineAccepted(len) /\ RFits(len)) \/ ~MEASURED
\* ... and nothing is turned away that fits with the headroom to spare
ReplNotOverStrict ==
  \A len \in LENS :
    LET x == ExecOf(len) IN
    (/\ x.maxarg + 1 <= STRMAX
     /\ x.fname + x.argbytes + x.envbytes + (x.argc + x.envc) * PTR + HEADROOM <= MinOf(K!LibcArgMax(rlim), STKCAP))
    => SubstMeasure(len).ok
=============================================================================
