SPECIFICATION Spec
CONSTANTS
  K = 3
  KINDS = {"num", "timenum", "size", "type", "perm", "printf", "exec", "regextype"}
  EMIT = TRUE
INVARIANTS SignLaw PermPrefixLaw PermListLaw PrintfLaw ExecLaw EmitVectors
CHECK_DEADLOCK FALSE
