SPECIFICATION Spec
CONSTANTS
  BUF = 3
  K = 5
  ALPHA = {97, 32, 10, 39, 34, 92}
  EMIT = FALSE
  STARTED = FALSE
INVARIANTS EqualsRef NoPhantomArgs NothingLostInBuffers RefLawsHold EmitVectors
CHECK_DEADLOCK FALSE
