SPECIFICATION Spec
CONSTANTS
  MAXARGS = 8
  LENS = {1, 2, 7}
  RLIMS = {64, 256, 320, 384, 512, 4000}
  ENVS = {0, 2, 6}
  CMDLENS = {3, 12}
  COSTMODEL = "bytes"
INVARIANTS NeverE2BIG LosslessAlways
CHECK_DEADLOCK FALSE
