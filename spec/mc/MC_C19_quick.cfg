SPECIFICATION Spec
CONSTANTS
  MAXLEN = 4
  OUTCOMES = {0, 1, 125, 255, 1009}
  EMIT = TRUE
INVARIANTS StopsAtFatal Sticky EndsAsReference EmitVectors
CHECK_DEADLOCK FALSE
