SPECIFICATION Spec
CONSTANTS
  MAXARGS = 5
  LENS = {1, 5}
  NS = {0, 1, 2, 3}
  LS = {0, 1, 2}
  SDELTAS = {99, 0, 3, 7, 10, 14}
  CMD = 5
  SYSS = {100000, 12}
  EMIT = TRUE
INVARIANTS CountersAgree LosslessAlways LimitsAlways EndsAsReference RefLawsHold EmitVectors
CHECK_DEADLOCK FALSE
