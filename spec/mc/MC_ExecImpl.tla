----------------------------- MODULE MC_ExecImpl -----------------------------
(* C08 at model level: the command-line builder of -exec/-execdir ... {} +    *)
(* (FindExecImpl) on every sequence of evaluated entries: up to NR starting   *)
(* points x up to NE entries each, every entry in one of the directories      *)
(* DIRS, reached by the action or not, with -quit evaluated on it or not, x   *)
(* -exec / -execdir x command lines that hold 1..MAXCAP paths.                *)
(* Checked: every reached path is delivered exactly once and in visit order,  *)
(* everything pending has run when find exits (also after -quit), no empty    *)
(* invocation, one directory per -execdir invocation, the capacity is kept.   *)
(* DROPQUIT = TRUE models a builder that forgets what is pending when -quit   *)
(* ends the walk (the end-of-root dispatch skipped): TLC finds the lost path. *)
EXTENDS FindExecImpl, Util, TLC

CONSTANTS NR, NE, DIRS, MAXCAP, DROPQUIT

Flags == [dir : DIRS, reached : BOOLEAN, quit : BOOLEAN]
\* an entry's argument is unique: <<starting point, index>>
RootOf(rr, fs) == [k \in DOMAIN fs |-> [arg |-> <<rr, k>>, dir |-> fs[k].dir, reached |-> fs[k].reached, quit |-> fs[k].quit]]

Init == \E n \in 1..NR : \E fss \in [1..n -> SeqsUpTo(Flags, NE)] : \E ed \in BOOLEAN, c \in 1..MAXCAP :
          XInit([roots |-> [rr \in 1..n |-> RootOf(rr, fss[rr])], execdir |-> ed, cap |-> c])

EndRootDropping ==
  /\ AtEnd /\ quit
  /\ xst' = "done" /\ curdir' = NoDir /\ batch' = <<>>
  /\ UNCHANGED <<xin, r, i, runs, quit>>

Next == IF DROPQUIT THEN EvalEntry(CapFull) \/ (EndRoot /\ ~quit) \/ EndRootDropping ELSE XNext
Spec == Init /\ [][Next]_xvars

Terminates == <>(xst = "done")
=============================================================================
