------------------------------ MODULE MC_Walk ------------------------------
(* Bounded enumeration of file trees x configurations for the traversal     *)
(* properties.  One state per case; the invariants are laws that the        *)
(* reference walk has to satisfy (stated without the recursion it is        *)
(* defined by), and every case is printed as a vector that the harness      *)
(* materialises and runs through the real find.                             *)
(* FLAVOUR selects which dimensions are enumerated:                         *)
(*   "C02" follow mode x (mindepth, maxdepth) incl. min > max x -depth      *)
(*   "C03" subsets of directories pruned x -depth x two depth ranges        *)
(*   "C18" lists of starting points with spelling variants and missing ones *)
EXTENDS FindWalk, Json

CONSTANTS N, NNAMES, FLAVOUR, EMIT

NAMES == {<<96 + k>> : k \in 1..NNAMES}

\* ---- all trees with at most N nodes, built node by node --------------------
NewNodes(t) ==
  LET k == Len(t)
      dirs == {j \in 1..k : t[j].kind = "d"}
      nonlinks == {j \in 1..k : t[j].kind # "l"}
  IN { [parent |-> p, name |-> nm, kind |-> kd, target |-> tg] :
         p \in {0} \cup dirs, nm \in NAMES, kd \in {"d", "f", "l"}, tg \in {0} \cup nonlinks }

ValidNew(t, nd) ==
  /\ (nd.kind # "l" => nd.target = 0)
  /\ \A j \in DOMAIN t : t[j].parent = nd.parent => t[j].name # nd.name
  \* symmetry reduction: siblings are created in name order
  /\ \A j \in DOMAIN t : t[j].parent = nd.parent => LexLess(t[j].name, nd.name)
  \* node 1 is the (first) starting point
  /\ (t = <<>> => nd.parent = 0)

RECURSIVE TreesOfLen(_)
TreesOfLen(k) ==
  IF k = 0 THEN {<<>>}
  ELSE UNION { {Append(t, nd) : nd \in {x \in NewNodes(t) : ValidNew(t, x)}} : t \in TreesOfLen(k - 1) }

Trees == UNION {TreesOfLen(k) : k \in 1..N}

\* ---- configurations -----------------------------------------------------
Ranges == IF FLAVOUR = "C02u" THEN {<<0, NoMax>>, <<1, 1>>, <<0, 0>>, <<2, NoMax>>}
          ELSE IF FLAVOUR = "C02" THEN {<<a, b>> : a \in 0..3, b \in {0, 1, 2, NoMax}}
          ELSE IF FLAVOUR = "C03" THEN {<<0, NoMax>>, <<1, 2>>}
          ELSE {<<0, NoMax>>, <<1, 1>>}
Modes == IF FLAVOUR = "C03" THEN {"P", "L"} ELSE IF FLAVOUR = "C18" THEN {"P", "H"} ELSE {"P", "H", "L"}

BaseCfg(m, r, d) == [mode |-> m, min |-> r[1], max |-> r[2], depth |-> d, sorted |-> TRUE, prune |-> {}]

Plain(t, i) == t[i].name
Spellings(t, i) ==
  {Plain(t, i), <<46, 47>> \o Plain(t, i)} \cup
  (IF t[i].kind = "d" THEN {Plain(t, i) \o <<47>>} ELSE {})
Tops(t) == {i \in DOMAIN t : t[i].parent = 0}
RootChoices(t) ==
  IF FLAVOUR # "C18" THEN { << [spell |-> Plain(t, 1), node |-> 1] >> }
  ELSE LET one == UNION { {[spell |-> s, node |-> i] : s \in Spellings(t, i)} : i \in Tops(t) }
                    \cup {[spell |-> <<109, 105, 115, 115>>, node |-> 0]}       \* "miss": does not exist
       IN {<<a>> : a \in one} \cup {<<a, b>> : a \in one, b \in one}

DirPaths(t, cfg, roots) ==
  LET w == WalkRoots(t, [cfg EXCEPT !.min = 0, !.max = NoMax, !.depth = FALSE], roots).ents
  IN {w[k].path : k \in {j \in DOMAIN w : w[j].dir}}

PruneChoices(t, cfg, roots) ==
  IF FLAVOUR # "C03" THEN {{}}
  ELSE {S \in SUBSET DirPaths(t, cfg, roots) : Cardinality(S) <= 2}

\* FLAVOUR "C02u": as "C02", and one directory of the tree (or none) cannot be read
Mark(t, k) == [i \in DOMAIN t |-> [parent |-> t[i].parent, name |-> t[i].name, kind |-> t[i].kind, target |-> t[i].target, noread |-> (i = k)]]
TreeChoices == IF FLAVOUR = "C02u"
               THEN UNION {{Mark(t, k) : k \in {0} \cup {i \in DOMAIN t : t[i].kind = "d"}} : t \in Trees}
               ELSE Trees

VARIABLES tree, roots, cfg, files0
vars == <<tree, roots, cfg, files0>>

Init ==
  /\ tree \in TreeChoices
  /\ roots \in RootChoices(tree)
  /\ \E m \in Modes, r \in Ranges, d \in (IF FLAVOUR = "C18" THEN {FALSE} ELSE BOOLEAN) :
       \E pr \in PruneChoices(tree, BaseCfg(m, r, d), roots) :
          cfg = [BaseCfg(m, r, d) EXCEPT !.prune = pr]
  /\ files0 \in (IF FLAVOUR = "C18" THEN BOOLEAN ELSE {FALSE})

Next == UNCHANGED vars
Spec == Init /\ [][Next]_vars

\* ---- laws of the reference walk -------------------------------------------
W == WalkRoots(tree, cfg, roots)
Unpruned == WalkRoots(tree, [cfg EXCEPT !.prune = {}], roots)

RangeLaw == \A k \in DOMAIN W.ents : cfg.min <= W.ents[k].depth /\ W.ents[k].depth <= cfg.max
EmptyRangeLaw == cfg.min > cfg.max => W.ents = <<>>
NoDuplicates == Len(roots) = 1 => \A i, j \in DOMAIN W.ents : i # j => W.ents[i].path # W.ents[j].path

\* -P: exactly the nodes of the starting point's subtree, at their distance from it
RECURSIVE DistTo(_, _, _)
DistTo(t, n, r) == IF n = r THEN 0 ELSE IF n = 0 THEN -1000 ELSE 1 + DistTo(t, t[n].parent, r)
\* an unreadable directory costs exactly one error and hides exactly what is beneath it
RECURSIVE Beneath(_, _, _)
Beneath(t, n, a) == n # 0 /\ t[n].parent # 0 /\ (t[n].parent = a \/ Beneath(t, t[n].parent, a))
UnreadableLaw ==
  (FLAVOUR = "C02u" /\ cfg.mode = "P") =>
     LET plain == [i \in DOMAIN tree |-> [tree[i] EXCEPT !.noread = FALSE]]
         full == WalkRoots(plain, cfg, roots)
         bad == {i \in DOMAIN tree : tree[i].noread} IN
     /\ Paths(W.ents) = Paths(SelectSeq(full.ents, LAMBDA e : ~\E b \in bad : Beneath(tree, e.node, b)))
     /\ LET all == WalkRoots(plain, [cfg EXCEPT !.min = 0], roots).ents IN
        W.errs = full.errs + Cardinality({b \in bad : \E k \in DOMAIN all : all[k].node = b /\ all[k].depth < cfg.max})

PhysicalCompleteness ==
  (cfg.mode = "P" /\ cfg.prune = {} /\ Len(roots) = 1 /\ roots[1].node # 0 /\ FLAVOUR # "C02u") =>
     LET r == roots[1].node
         want == {n \in DOMAIN tree : DistTo(tree, n, r) >= cfg.min /\ DistTo(tree, n, r) <= cfg.max}
     IN /\ {W.ents[k].node : k \in DOMAIN W.ents} = want
        /\ Len(W.ents) = Cardinality(want)
        /\ \A k \in DOMAIN W.ents : W.ents[k].depth = DistTo(tree, W.ents[k].node, r)

OrderLaw ==
  Len(roots) = 1 =>
    IF cfg.depth THEN PostOrderOK(Paths(W.ents)) ELSE PreOrderOK(Paths(W.ents))

\* -prune cuts exactly the strict descendants of the pruned directories, in place
PruneLaw ==
  ~cfg.depth =>
    Paths(W.ents) = SelectSeq(Paths(Unpruned.ents),
                              LAMBDA p : ~\E q \in cfg.prune :
                                            /\ IsBelow(q, p)
                                            /\ \E k \in DOMAIN Unpruned.ents :
                                                 /\ Unpruned.ents[k].path = q /\ Unpruned.ents[k].dir)
PruneNoopUnderDepth == cfg.depth => W.ents = Unpruned.ents

\* -H differs from -P only in what the starting point itself resolves to
HLaw == (cfg.mode = "H" /\ \A r \in DOMAIN roots : roots[r].node = 0 \/ tree[roots[r].node].kind # "l")
          => Paths(W.ents) = Paths(WalkRoots(tree, [cfg EXCEPT !.mode = "P"], roots).ents)

\* under -L a dangling link inside the visited area is an entry (as a link)
DanglingVisited ==
  cfg.mode = "L" =>
    \A k \in DOMAIN W.ents :
       LET e == W.ents[k] IN
       (e.dir /\ e.depth < cfg.max /\ e.path \notin cfg.prune) =>
          \A c \in Children(tree, e.eff) :
             (tree[c].kind = "l" /\ tree[c].target = 0 /\ e.depth + 1 >= cfg.min) =>
                \E j \in DOMAIN W.ents : W.ents[j].node = c /\ W.ents[j].path = ChildPath(e.path, tree[c].name)

EmitVectors ==
  EMIT => PrintT(<<"VEC", ToJson([in |-> [tree |-> tree, roots |-> roots,
                                          cfg |-> [cfg EXCEPT !.prune = SetToSeq(cfg.prune)],
                                          files0 |-> files0, form |-> Len(tree) + cfg.min + Cardinality(cfg.prune)],
                                   exp |-> [paths |-> Paths(W.ents), errs |-> W.errs, sorted |-> TRUE]])>>)
=============================================================================
