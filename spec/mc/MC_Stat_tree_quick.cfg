SPECIFICATION Spec
CONSTANTS
  FLAVOUR = "tree"
  ALLMODES = FALSE
  EMIT = TRUE
INVARIANTS PermLaws XtypeDual LnameLaw SamefileLaw SymLaw EmitVectors
CHECK_DEADLOCK FALSE
