SPECIFICATION Spec
CONSTANTS
  MAXLEN = 5
  OUTCOMES = {0, 1, 2, 125, 126, 255, 1009, 1015}
  EMIT = TRUE
INVARIANTS StopsAtFatal Sticky EndsAsReference EmitVectors
CHECK_DEADLOCK FALSE
