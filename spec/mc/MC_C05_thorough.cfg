SPECIFICATION Spec
CONSTANTS
  BUF = 3
  K = 6
  ALPHA = {97, 32, 9, 10, 39, 34, 92, 195}
  EMIT = TRUE
INVARIANTS EqualsRef NoPhantomArgs NothingLostInBuffers RefLawsHold EmitVectors
CHECK_DEADLOCK FALSE
