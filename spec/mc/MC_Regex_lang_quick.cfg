SPECIFICATION Spec
CONSTANTS
  N = 3
  FLAVOUR = "lang"
  EMIT = TRUE
  WITHREP = TRUE
INVARIANTS AltCommutes GroupNeutral PlusLaw WholeString CaseLaw EmitVectors
CHECK_DEADLOCK FALSE
