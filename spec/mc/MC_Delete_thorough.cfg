SPECIFICATION Spec
CONSTANTS
  EMIT = TRUE
INVARIANTS SameAsDepthPrint DirOnlyWhenEmpty LinkNotTarget OutsideUntouched FailureLaw EmitVectors
CHECK_DEADLOCK FALSE
