------------------------------- MODULE Glob -------------------------------
(***************************************************************************)
(* POSIX fnmatch() without flags on whole strings (property C12), as a     *)
(* recursive relation between a pattern and a subject, both sequences of   *)
(* characters (code points; the harness encodes them as UTF-8).            *)
(*   '*'  any sequence of characters (including '/', a leading '.', '\n')  *)
(*   '?'  any one character                                                *)
(*   '\c' the character c; a pattern ending in a lone '\' matches nothing  *)
(*   '[...]' bracket expression: '!' negation, ']' first is a member,      *)
(*        ranges a-b, classes [:alpha:] ...; an unmatched '[' is literal    *)
(* Outside the domain of the property (InDomain = FALSE): '^' negation,    *)
(* reversed ranges, [. .] and [= =], malformed [: :], a backslash inside   *)
(* a bracket expression.                                                   *)
(***************************************************************************)
EXTENDS Util

STAR == 42  QM == 63  BSLASH == 92  LBR == 91  RBR == 93  BANG == 33  DASH == 45  CARET == 94  COLON == 58

IsUpper(c) == c \in 65..90
IsLower(c) == c \in 97..122
Fold(c) == IF IsUpper(c) THEN c + 32 ELSE c
SameChar(a, b, fold) == IF fold THEN Fold(a) = Fold(b) ELSE a = b

ClassNames == {"alpha", "digit", "upper", "lower", "alnum", "space", "punct", "xdigit"}
InClass(name, c) ==
  CASE name = "alpha" -> IsUpper(c) \/ IsLower(c)
    [] name = "digit" -> c \in 48..57
    [] name = "upper" -> IsUpper(c)
    [] name = "lower" -> IsLower(c)
    [] name = "alnum" -> IsUpper(c) \/ IsLower(c) \/ c \in 48..57
    [] name = "space" -> c \in {32, 9, 10, 11, 12, 13}
    [] name = "punct" -> c \in (33..47) \cup (58..64) \cup (91..96) \cup (123..126)
    [] name = "xdigit" -> c \in (48..57) \cup (65..70) \cup (97..102)
    [] OTHER -> FALSE

\* class names as character sequences
NameChars(name) ==
  CASE name = "alpha" -> <<97, 108, 112, 104, 97>>
    [] name = "digit" -> <<100, 105, 103, 105, 116>>
    [] name = "upper" -> <<117, 112, 112, 101, 114>>
    [] name = "lower" -> <<108, 111, 119, 101, 114>>
    [] name = "alnum" -> <<97, 108, 110, 117, 109>>
    [] name = "space" -> <<115, 112, 97, 99, 101>>
    [] name = "punct" -> <<112, 117, 110, 99, 116>>
    [] name = "xdigit" -> <<120, 100, 105, 103, 105, 116>>

(***************************************************************************)
(* Bracket expression starting at p[i] = '['.  Result                      *)
(*   [ok, next, neg, items, dom]                                           *)
(* ok = FALSE: no closing ']' - the '[' is an ordinary character;          *)
(* items: sequence of [t |-> "c", c] / [t |-> "r", lo, hi] / [t |-> "k",   *)
(* name]; dom = FALSE: a construct the property does not cover.            *)
(***************************************************************************)
ClassAt(p, k) ==    \* the class name whose "[:name:]" starts at p[k], or "" if none
  LET cands == {n \in ClassNames :
                  LET w == <<LBR, COLON>> \o NameChars(n) \o <<COLON, RBR>> IN
                  k + Len(w) - 1 <= Len(p) /\ SubSeq(p, k, k + Len(w) - 1) = w}
  IN IF cands = {} THEN "" ELSE CHOOSE n \in cands : TRUE

RECURSIVE BrItems(_, _, _, _, _)
BrItems(p, k, first, items, dom) ==
  \* k: next position to read; first: no member read yet (a ']' here is a member)
  IF k > Len(p) THEN [ok |-> FALSE, next |-> 0, items |-> items, dom |-> dom]
  ELSE IF p[k] = RBR /\ ~first THEN [ok |-> TRUE, next |-> k + 1, items |-> items, dom |-> dom /\ items # <<>>]
  ELSE IF p[k] = LBR /\ k < Len(p) /\ p[k + 1] \in {COLON, 46, 61} THEN
       (IF p[k + 1] = COLON /\ ClassAt(p, k) # ""
        THEN LET nx == k + Len(NameChars(ClassAt(p, k))) + 4 IN
             \* a class cannot be a range end point: "[[:alpha:]-z]" is undefined unless the '-' is the last member
             BrItems(p, nx, FALSE, Append(items, [t |-> "k", name |-> ClassAt(p, k)]),
                     dom /\ ~(nx + 1 <= Len(p) /\ p[nx] = DASH /\ p[nx + 1] # RBR))
        ELSE BrItems(p, k + 1, FALSE, Append(items, [t |-> "c", c |-> LBR]), FALSE))     \* [. [= or a malformed [: : not covered
  ELSE IF k + 2 <= Len(p) /\ p[k + 1] = DASH /\ p[k + 2] # RBR THEN
       BrItems(p, k + 3, FALSE, Append(items, [t |-> "r", lo |-> p[k], hi |-> p[k + 2]]),
               dom /\ p[k] <= p[k + 2] /\ p[k] # BSLASH /\ p[k + 2] # BSLASH /\ p[k + 2] # LBR
                   \* "a-c-e": POSIX leaves a '-' right after a range undefined unless it is the last member
                   /\ ~(k + 4 <= Len(p) /\ p[k + 3] = DASH /\ p[k + 4] # RBR))
  ELSE BrItems(p, k + 1, FALSE, Append(items, [t |-> "c", c |-> p[k]]), dom /\ p[k] # BSLASH)

Bracket(p, i) ==
  LET neg == i < Len(p) /\ p[i + 1] = BANG
      caret == i < Len(p) /\ p[i + 1] = CARET
      r == BrItems(p, IF neg THEN i + 2 ELSE i + 1, TRUE, <<>>, ~caret)
      SameKind(a, b) == (IsLower(a) /\ IsLower(b)) \/ (IsUpper(a) /\ IsUpper(b)) \/ (a \in 48..57 /\ b \in 48..57)
      \* with case folding, ranges over mixed kinds and the classes upper/lower are read differently by
      \* different implementations: not covered
      fdom == \A n \in DOMAIN r.items :
                 /\ (r.items[n].t = "r" => SameKind(r.items[n].lo, r.items[n].hi))
                 /\ (r.items[n].t = "k" => r.items[n].name \notin {"upper", "lower"})
  IN [ok |-> r.ok, next |-> r.next, neg |-> neg, items |-> r.items, dom |-> r.dom, fdom |-> fdom]

ItemHas(it, c, fold) ==
  IF it.t = "c" THEN SameChar(it.c, c, fold)
  ELSE IF it.t = "r" THEN (it.lo <= c /\ c <= it.hi) \/ (fold /\ ((it.lo <= Fold(c) /\ Fold(c) <= it.hi) \/ (IsLower(c) /\ it.lo <= c - 32 /\ c - 32 <= it.hi)))
  ELSE InClass(it.name, c) \/ (fold /\ it.name \in {"upper", "lower"} /\ (IsUpper(c) \/ IsLower(c)))
BracketHas(b, c, fold) == (\E k \in DOMAIN b.items : ItemHas(b.items[k], c, fold)) # b.neg

RECURSIVE GM(_, _, _, _, _)
GM(p, i, s, j, fold) ==
  IF i > Len(p) THEN j > Len(s)
  ELSE LET c == p[i] IN
    IF c = STAR THEN GM(p, i + 1, s, j, fold) \/ (j <= Len(s) /\ GM(p, i, s, j + 1, fold))
    ELSE IF c = QM THEN j <= Len(s) /\ GM(p, i + 1, s, j + 1, fold)
    ELSE IF c = BSLASH THEN
         (IF i = Len(p) THEN FALSE
          ELSE j <= Len(s) /\ SameChar(p[i + 1], s[j], fold) /\ GM(p, i + 2, s, j + 1, fold))
    ELSE IF c = LBR /\ Bracket(p, i).ok THEN
         LET b == Bracket(p, i) IN j <= Len(s) /\ BracketHas(b, s[j], fold) /\ GM(p, b.next, s, j + 1, fold)
    ELSE j <= Len(s) /\ SameChar(c, s[j], fold) /\ GM(p, i + 1, s, j + 1, fold)

GlobMatch(p, s, fold) == GM(p, 1, s, 1, fold)

\* Is the pattern within what the property covers?
RECURSIVE PatDom(_, _, _)
PatDom(p, i, fold) ==
  IF i > Len(p) THEN TRUE
  ELSE IF p[i] = BSLASH THEN (i = Len(p) \/ PatDom(p, i + 2, fold))
  ELSE IF p[i] = LBR /\ Bracket(p, i).ok THEN Bracket(p, i).dom /\ (fold => Bracket(p, i).fdom) /\ PatDom(p, Bracket(p, i).next, fold)
  ELSE IF p[i] = LBR THEN
       \* an unmatched '[': literal - but only judged when nothing after it looks like the start of a class
       ~(\E k \in (i + 1)..Len(p) : p[k] = LBR /\ k < Len(p) /\ p[k + 1] \in {COLON, 46, 61}) /\ PatDom(p, i + 1, fold)
  ELSE PatDom(p, i + 1, fold)
GlobInDomain(p, fold) == PatDom(p, 1, fold) /\ (fold => \A i \in DOMAIN p : p[i] < 128)
=============================================================================
