--------------------------- MODULE XargsSplitImpl ---------------------------
(***************************************************************************)
(* The xargs reader for -0 / -d C (and for the lines of -I) as the code    *)
(* implements it (src/xargs/mod.rs ByteDelimitedArgumentReader::next):     *)
(* BufReader::read_until(delimiter) in a loop - a field that consists of   *)
(* the delimiter alone is skipped, the delimiter is trimmed, the last      *)
(* field may lack it.  read_until itself is the standard library's loop:   *)
(* fill_buf() (one read() of at most BUF bytes when the buffer is empty -  *)
(* the kernel may return any non-empty prefix), copy up to and including   *)
(* the delimiter if it is in the buffer, else copy all and go on.          *)
(* The reference it has to agree with is XargsRead!RefSplit.               *)
(* LIMIT > 0 models a reader that stops a field after LIMIT bytes (a       *)
(* 'hardening' seeded by a sub-agent): it cuts where no delimiter is.      *)
(***************************************************************************)
EXTENDS XargsRead

CONSTANTS BUF, LIMIT

VARIABLES
  sinput,   \* bytes not yet returned by read()
  sbuf,     \* BufReader's buffer (bytes read, not yet consumed)
  field,    \* the Vec read_until appends to
  stoks,    \* arguments returned so far
  sphase,   \* "call" (next() about to call read_until), "fill" (inside read_until), "done"
  sdelim    \* the delimiter byte

svars == <<sinput, sbuf, field, stoks, sphase, sdelim>>

SInit(bytes, d) ==
  /\ sinput = bytes /\ sbuf = <<>> /\ field = <<>> /\ stoks = <<>> /\ sphase = "call" /\ sdelim = d

\* next(): a fresh Vec, read_until
SCall == /\ sphase = "call" /\ field' = <<>> /\ sphase' = "fill" /\ UNCHANGED <<sinput, sbuf, stoks, sdelim>>

\* fill_buf() with an empty buffer: one read()
SRefill ==
  /\ sphase = "fill" /\ sbuf = <<>> /\ sinput # <<>>
  /\ \E k \in 1..MinOf(BUF, Len(sinput)) :
        /\ sbuf' = SubSeq(sinput, 1, k)
        /\ sinput' = SubSeq(sinput, k + 1, Len(sinput))
  /\ UNCHANGED <<field, stoks, sphase, sdelim>>

IndexOfDelim(s) == IF \E k \in DOMAIN s : s[k] = sdelim THEN CHOOSE k \in DOMAIN s : s[k] = sdelim /\ \A m \in 1..(k - 1) : s[m] # sdelim ELSE 0

\* read_until returned: what next() does with the field
Returned(f, rest) ==
  IF f = <<>> THEN sphase' = "done" /\ stoks' = stoks                                        \* bytes_read = 0: None
  ELSE IF f = <<sdelim>> THEN sphase' = "call" /\ stoks' = stoks                            \* only a delimiter: try again
  ELSE /\ stoks' = Append(stoks, Tok(IF f[Len(f)] = sdelim THEN SubSeq(f, 1, Len(f) - 1) ELSE f, TRUE))
       /\ sphase' = "call"

\* one round of read_until's loop on a non-empty buffer
SScan ==
  /\ sphase = "fill" /\ sbuf # <<>>
  /\ LET k == IndexOfDelim(sbuf)
         room == IF LIMIT > 0 THEN LIMIT - Len(field) ELSE Len(sbuf) + 1 IN
     IF LIMIT > 0 /\ room <= (IF k > 0 THEN k - 1 ELSE Len(sbuf)) /\ (k = 0 \/ room < k)
     THEN \* the "hardened" reader: the field is cut after LIMIT bytes, wherever that is
          /\ sbuf' = SubSeq(sbuf, room + 1, Len(sbuf))
          /\ field' = field \o SubSeq(sbuf, 1, room)
          /\ Returned(field', sbuf') /\ UNCHANGED <<sinput, sdelim>>
     ELSE IF k > 0
     THEN /\ sbuf' = SubSeq(sbuf, k + 1, Len(sbuf))
          /\ field' = field \o SubSeq(sbuf, 1, k)
          /\ Returned(field', sbuf') /\ UNCHANGED <<sinput, sdelim>>
     ELSE /\ field' = field \o sbuf /\ sbuf' = <<>>
          /\ UNCHANGED <<sinput, stoks, sphase, sdelim>>

\* end of input inside read_until: whatever was collected is the field
SEof ==
  /\ sphase = "fill" /\ sbuf = <<>> /\ sinput = <<>>
  /\ Returned(field, <<>>) /\ UNCHANGED <<sinput, sbuf, field, sdelim>>

SNext == SCall \/ SRefill \/ SScan \/ SEof
SFinished == sphase = "done"
=============================================================================
