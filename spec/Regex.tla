------------------------------- MODULE Regex -------------------------------
(***************************************************************************)
(* -regex / -iregex (property C17): the whole path must belong to the      *)
(* language of the pattern, in the syntax selected by the nearest          *)
(* preceding -regextype.                                                   *)
(*                                                                         *)
(* Patterns are abstract syntax trees; Ends(e, s, i) is the set of         *)
(* positions j such that s[i..j-1] is in the language of e, so membership  *)
(* is declarative (no notion of "first alternative" or "greedy"), and      *)
(* Concrete(e, syn) writes the tree in one of the supported syntaxes.      *)
(*   [t |-> "c", c]  [t |-> "any"]  [t |-> "set", cs, neg]                 *)
(*   [t |-> "cat", a, b]  [t |-> "alt", a, b]  [t |-> "grp", a]            *)
(*   [t |-> "star", a]  [t |-> "plus", a]  [t |-> "opt", a]                *)
(*   [t |-> "rep", a, lo, hi]                                              *)
(***************************************************************************)
EXTENDS Util, SequencesExt, TLC

Syntaxes == {"emacs", "posix-basic", "posix-extended", "grep", "ed", "sed"}
\* ed and sed are posix-basic
Canon(syn) == IF syn \in {"ed", "sed"} THEN "posix-basic" ELSE syn

FoldC(c) == IF c \in 65..90 THEN c + 32 ELSE c
CharEq(a, b, icase) == IF icase THEN FoldC(a) = FoldC(b) ELSE a = b

RECURSIVE Ends(_, _, _, _), StarClosure(_, _, _, _), RepEnds(_, _, _, _, _, _)
Ends(e, s, i, icase) ==
  IF e.t = "c" THEN (IF i <= Len(s) /\ CharEq(s[i], e.c, icase) THEN {i + 1} ELSE {})
  \* '.' does not match a newline in the emacs syntax; in the others ("anynl": see WithSyntax) it matches every character
  ELSE IF e.t = "any" THEN (IF i <= Len(s) /\ s[i] # 10 THEN {i + 1} ELSE {})
  ELSE IF e.t = "anynl" THEN (IF i <= Len(s) THEN {i + 1} ELSE {})
  ELSE IF e.t = "set" THEN
       (IF i <= Len(s) /\ ((\E c \in e.cs : CharEq(s[i], c, icase)) # e.neg) THEN {i + 1} ELSE {})
  ELSE IF e.t = "cat" THEN UNION {Ends(e.b, s, k, icase) : k \in Ends(e.a, s, i, icase)}
  ELSE IF e.t = "alt" THEN Ends(e.a, s, i, icase) \cup Ends(e.b, s, i, icase)
  ELSE IF e.t = "grp" THEN Ends(e.a, s, i, icase)
  ELSE IF e.t = "star" THEN StarClosure(e.a, s, {i}, icase)
  ELSE IF e.t = "plus" THEN StarClosure(e.a, s, Ends(e.a, s, i, icase), icase)
  ELSE IF e.t = "opt" THEN {i} \cup Ends(e.a, s, i, icase)
  ELSE RepEnds(e.a, s, {i}, e.lo, e.hi - e.lo, icase)        \* "rep": between lo and hi repetitions
StarClosure(a, s, S, icase) ==
  LET S2 == S \cup UNION {Ends(a, s, k, icase) : k \in S} IN
  IF S2 = S THEN S ELSE StarClosure(a, s, S2, icase)
RepEnds(a, s, S, must, may, icase) ==
  IF must > 0 THEN RepEnds(a, s, UNION {Ends(a, s, k, icase) : k \in S}, must - 1, may, icase)
  ELSE IF may > 0 THEN S \cup RepEnds(a, s, UNION {Ends(a, s, k, icase) : k \in S}, 0, may - 1, icase)
  ELSE S

InLang(e, s, icase) == (Len(s) + 1) \in Ends(e, s, 1, icase)

\* the tree as the syntax reads it: outside emacs a '.' also matches a newline (a negated bracket expression does so
\* in every syntax)
RECURSIVE WithSyntax(_, _)
WithSyntax(e, syn) ==
  IF e.t = "any" THEN (IF Canon(syn) = "emacs" THEN e ELSE [t |-> "anynl"])
  ELSE IF e.t \in {"cat", "alt"} THEN [e EXCEPT !.a = WithSyntax(e.a, syn), !.b = WithSyntax(e.b, syn)]
  ELSE IF e.t \in {"grp", "star", "plus", "opt", "rep"} THEN [e EXCEPT !.a = WithSyntax(e.a, syn)]
  ELSE e

(***************************************************************************)
(* Concrete syntax.                                                        *)
(***************************************************************************)
BS == 92
Meta == {46, 91, 93, 92, 42, 43, 63, 40, 41, 124, 123, 125, 94, 36}     \* . [ ] \ * + ? ( ) | { } ^ $

\* which constructs a syntax has (POSIX leaves \| \+ \? in basic expressions undefined)
Has(syn, t) ==
  LET c == Canon(syn) IN
  IF t \in {"alt", "plus", "opt"} THEN c # "posix-basic"
  ELSE IF t = "rep" THEN c # "emacs"
  ELSE TRUE

RECURSIVE Supported(_, _)
Supported(e, syn) ==
  /\ Has(syn, e.t)
  /\ IF e.t \in {"cat", "alt"} THEN Supported(e.a, syn) /\ Supported(e.b, syn)
     ELSE IF e.t \in {"grp", "star", "plus", "opt", "rep"} THEN Supported(e.a, syn)
     ELSE TRUE

Lit(c, syn) ==   \* a literal character
  IF c \in {46, 91, 92, 42, 94, 36} THEN <<BS, c>>                        \* . [ \ * ^ $ are special everywhere
  ELSE IF Canon(syn) = "posix-extended" /\ c \in {43, 63, 40, 41, 124, 123, 125} THEN <<BS, c>>
  ELSE IF Canon(syn) = "emacs" /\ c \in {43, 63} THEN <<BS, c>>
  ELSE <<c>>

Open(syn) == IF Canon(syn) = "posix-extended" THEN <<40>> ELSE <<BS, 40>>
Close(syn) == IF Canon(syn) = "posix-extended" THEN <<41>> ELSE <<BS, 41>>
Bar(syn) == IF Canon(syn) = "posix-extended" THEN <<124>> ELSE <<BS, 124>>
PlusOp(syn) == IF Canon(syn) \in {"posix-extended", "emacs"} THEN <<43>> ELSE <<BS, 43>>
OptOp(syn) == IF Canon(syn) \in {"posix-extended", "emacs"} THEN <<63>> ELSE <<BS, 63>>
LBrace(syn) == IF Canon(syn) = "posix-extended" THEN <<123>> ELSE <<BS, 123>>
RBrace(syn) == IF Canon(syn) = "posix-extended" THEN <<125>> ELSE <<BS, 125>>

\* the members in ascending order, a '-' last (so that it cannot be read as a range operator)
SetChars(cs) == SortSeq(SetToSeq(cs \ {45}), <) \o (IF 45 \in cs THEN <<45>> ELSE <<>>)
\* operands of postfix operators and of concatenation are parenthesised when they are not atoms
IsAtom(e) == e.t \in {"c", "any", "set", "grp"}

RECURSIVE Concrete(_, _)
Concrete(e, syn) ==
  LET Par(x) == IF IsAtom(x) THEN Concrete(x, syn) ELSE Open(syn) \o Concrete(x, syn) \o Close(syn)
      CatArg(x) == IF x.t = "alt" THEN Open(syn) \o Concrete(x, syn) \o Close(syn) ELSE Concrete(x, syn)
  IN
  IF e.t = "c" THEN Lit(e.c, syn)
  ELSE IF e.t = "any" THEN <<46>>
  ELSE IF e.t = "set" THEN <<91>> \o (IF e.neg THEN <<94>> ELSE <<>>) \o SetChars(e.cs) \o <<93>>
  ELSE IF e.t = "cat" THEN CatArg(e.a) \o CatArg(e.b)
  ELSE IF e.t = "alt" THEN Concrete(e.a, syn) \o Bar(syn) \o Concrete(e.b, syn)
  ELSE IF e.t = "grp" THEN Open(syn) \o Concrete(e.a, syn) \o Close(syn)
  ELSE IF e.t = "star" THEN Par(e.a) \o <<42>>
  ELSE IF e.t = "plus" THEN Par(e.a) \o PlusOp(syn)
  ELSE IF e.t = "opt" THEN Par(e.a) \o OptOp(syn)
  ELSE Par(e.a) \o LBrace(syn) \o ToDigits(e.lo) \o <<44>> \o ToDigits(e.hi) \o RBrace(syn)

(***************************************************************************)
(* -regextype is positional: it is in force for every -regex / -iregex     *)
(* that follows it on the command line, parentheses or not, until the next *)
(* -regextype.  Words: [w |-> "lp" | "rp" | "or" | "true" | "RE"] and      *)
(* [w |-> "rt", rt |-> syntax].                                            *)
(***************************************************************************)
RECURSIVE TypeAt(_, _, _)
TypeAt(words, k, cur) ==      \* the syntax in force at words[k]
  IF k = 1 THEN cur
  ELSE TypeAt(Tail(words), k - 1, IF Head(words).w = "rt" THEN Head(words).rt ELSE cur)
EffectiveType(words) ==
  LET k == CHOOSE i \in DOMAIN words : words[i].w = "RE" IN TypeAt(words, k, "emacs")
=============================================================================
