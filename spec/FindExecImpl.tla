---------------------------- MODULE FindExecImpl ----------------------------
(***************************************************************************)
(* The command-line builder behind -exec CMD {} + / -execdir CMD {} + as   *)
(* the code implements it (src/find/matchers/exec.rs MultiExecMatcher,     *)
(* driven by process_dir / do_find in src/find/mod.rs):                    *)
(*   per evaluated entry   if its directory differs from the previous      *)
(*                         entry's, finished_dir(previous directory):      *)
(*                         -execdir dispatches what is pending, from that  *)
(*                         directory;                                      *)
(*                         then, if the action is reached on the entry:    *)
(*                         try_arg - if the pending command line is full   *)
(*                         it is dispatched first (-execdir: from the      *)
(*                         entry's directory) and the path starts a new    *)
(*                         one;                                            *)
(*   end of a starting     finished_dir(last directory), then finished():  *)
(*   point (also after     -execdir dispatches in the former, -exec in the *)
(*   -quit)                latter;                                         *)
(*   -quit                 ends the walk of this starting point and keeps  *)
(*                         do_find from going on to the next one.          *)
(* The input is what the walk hands to the expression:                     *)
(*   roots[r][i] = [arg   - what the action appends for the entry (the     *)
(*                          path; ./basename for -execdir),                *)
(*                  dir   - the entry's directory (what finished_dir and   *)
(*                          the working directory are about),              *)
(*                  reached - the action is evaluated on the entry,        *)
(*                  quit  - -quit is evaluated on it after the action]     *)
(* cap = how many paths one command line holds (in the code: bytes, from   *)
(* the argmax crate; the trace specification leaves it open).              *)
(***************************************************************************)
EXTENDS Naturals, Sequences

VARIABLES
  xin,      \* [roots, execdir, cap]
  r, i,     \* starting point and entry about to be evaluated
  batch,    \* arguments of the pending command line
  curdir,   \* process_dir's current_dir: [some |-> BOOLEAN, d |-> directory]
  runs,     \* command lines dispatched so far: [argv, cwd, why]
  quit,     \* -quit was evaluated
  xst       \* "walk" | "done"

xvars == <<xin, r, i, batch, curdir, runs, quit, xst>>

NoDir == [some |-> FALSE, d |-> <<>>]
Dir(d) == [some |-> TRUE, d |-> d]
Run(b, cwd, why) == [argv |-> b, cwd |-> cwd, why |-> why]

XInit(inp) ==
  /\ xin = inp /\ r = 1 /\ i = 1 /\ batch = <<>> /\ curdir = NoDir /\ runs = <<>> /\ quit = FALSE
  /\ xst = IF inp.roots = <<>> THEN "done" ELSE "walk"

Entry == xin.roots[r][i]
AtEntry == xst = "walk" /\ ~quit /\ i <= Len(xin.roots[r])

\* finished_dir(previous directory) when the directory changes: only -execdir has something to dispatch there
NeedDirFlush(e) == xin.execdir /\ curdir.some /\ curdir.d # e.dir /\ batch # <<>>
AfterDirFlush(e) == IF NeedDirFlush(e) THEN <<>> ELSE batch
RunsAfterDirFlush(e) == IF NeedDirFlush(e) THEN Append(runs, Run(batch, curdir.d, "dir")) ELSE runs

\* One evaluated entry.  full: the pending command line did not take the path (the caller says so: the model
\* checker derives it from cap, the trace specification from the code's own event).
EvalEntry(full) ==
  /\ AtEntry
  /\ LET e == Entry
         b1 == AfterDirFlush(e)
         rs1 == RunsAfterDirFlush(e) IN
     /\ curdir' = Dir(e.dir)
     /\ IF e.reached
        THEN /\ (full => b1 # <<>>)
             /\ batch' = IF full THEN <<e.arg>> ELSE Append(b1, e.arg)
             /\ runs' = IF full THEN Append(rs1, Run(b1, IF xin.execdir THEN e.dir ELSE <<>>, "full")) ELSE rs1
        ELSE /\ ~full /\ batch' = b1 /\ runs' = rs1
     /\ quit' = e.quit
     /\ i' = i + 1
  /\ UNCHANGED <<xin, r, xst>>

\* The end of a starting point: the iterator is exhausted, or -quit was evaluated.
AtEnd == xst = "walk" /\ (quit \/ i > Len(xin.roots[r]))
EndRoot ==
  /\ AtEnd
  /\ runs' = IF batch = <<>> THEN runs
             ELSE IF xin.execdir
                  THEN (IF curdir.some THEN Append(runs, Run(batch, curdir.d, "dir")) ELSE runs)
                  ELSE Append(runs, Run(batch, <<>>, "end"))
  /\ batch' = IF batch # <<>> /\ xin.execdir /\ ~curdir.some THEN batch ELSE <<>>
  /\ curdir' = NoDir
  /\ IF quit \/ r = Len(xin.roots) THEN xst' = "done" /\ UNCHANGED <<r, i>>
     ELSE xst' = "walk" /\ r' = r + 1 /\ i' = 1
  /\ UNCHANGED <<xin, quit>>

\* model checking: the command line is full exactly when it holds cap paths
CapFull == AtEntry /\ Entry.reached /\ Len(AfterDirFlush(Entry)) >= xin.cap
XNext == EvalEntry(CapFull) \/ EndRoot

(***************************************************************************)
(* What C08 says about the result (checked by MC_ExecImpl on every input). *)
(***************************************************************************)
RECURSIVE FlattenArgs(_)
FlattenArgs(rs) == IF rs = <<>> THEN <<>> ELSE rs[1].argv \o FlattenArgs(Tail(rs))

\* the entries evaluated before the run ended: everything up to and including the one that quit
RECURSIVE ReachedUpTo(_, _, _)
ReachedUpTo(roots, rr, ii) ==   \* arguments of the reached entries from roots[rr][ii] on, stopping after a quit
  IF rr > Len(roots) THEN <<>>
  ELSE IF ii > Len(roots[rr]) THEN ReachedUpTo(roots, rr + 1, 1)
  ELSE LET e == roots[rr][ii]
           me == IF e.reached THEN <<e.arg>> ELSE <<>> IN
       IF e.quit THEN me ELSE me \o ReachedUpTo(roots, rr, ii + 1)

DeliveredArgs == FlattenArgs(runs)
\* every path on which the action is reached is passed to exactly one invocation, in visit order, and every pending
\* invocation has run by the time find exits - including after -quit
AllDeliveredInOrder == xst = "done" => DeliveredArgs = ReachedUpTo(xin.roots, 1, 1) /\ batch = <<>>
\* nothing is dispatched empty; with -execdir a command line holds entries of one directory and runs there
NoEmptyRun == \A k \in DOMAIN runs : runs[k].argv # <<>>
\* (stated on the input's own association of arguments with directories)
DirOfArg(a) == LET S == {<<rr, ii>> \in {<<x, y>> \in (DOMAIN xin.roots) \X (1..16) : y <= Len(xin.roots[x])} : xin.roots[rr][ii].arg = a} IN
               {xin.roots[p[1]][p[2]].dir : p \in S}
OneDirPerRun == xin.execdir => \A k \in DOMAIN runs : \A j \in DOMAIN runs[k].argv : runs[k].cwd \in DirOfArg(runs[k].argv[j])
WithinCap == \A k \in DOMAIN runs : Len(runs[k].argv) <= xin.cap
=============================================================================
