------------------------------ MODULE FindExpr ------------------------------
(***************************************************************************)
(* The expression language of find (properties C01 and C11).               *)
(*                                                                         *)
(* Tokens are abstract: the leaves are file-dependent tests ("t1".."t6"),  *)
(* actions ("a1".."a6"), the constants "true"/"false", "prune", "quit" and *)
(* "opt" (an option, which is an always-true primary); the operators are   *)
(* "not" (!), "and" (-a), "or" (-o), "comma" (,), "lp" ( and "rp" ).       *)
(* The conformance harness maps them to real primaries.                    *)
(*                                                                         *)
(* Two descriptions are given and compared by TLC on every token sequence  *)
(* up to a bound (mc/MC_Expr):                                             *)
(*  - Ref*: what the property prescribes - a recursive-descent recogniser  *)
(*    of the grammar  list := or (',' or)* ; or := and ('-o' and)* ;       *)
(*    and := not (['-a'] not)* ; not := '!' not | primary ;                *)
(*    primary := '(' list ')' | leaf, and a big-step evaluation;           *)
(*  - Impl*: the token-by-token builder of build_matcher_tree (a stack of  *)
(*    frames, each a list of or-chains of and-chains, a per-frame invert   *)
(*    flag, the one-token look-ahead, the single-child collapse) and the   *)
(*    three loop evaluators with their quit breaks.                        *)
(***************************************************************************)
EXTENDS Util, TLC

Tests == {"t1", "t2", "t3", "t4", "t5", "t6"}
Acts == {"a1", "a2", "a3", "a4", "a5", "a6"}
Leaves == Tests \cup Acts \cup {"true", "false", "prune", "quit", "opt"}
Operators == {"not", "and", "or", "comma", "lp", "rp"}

Leaf(t) == [op |-> "leaf", t |-> t]

(***************************************************************************)
(* Reference grammar.  Every parser returns [ok, ast, rest].               *)
(***************************************************************************)
PFail == [ok |-> FALSE, ast |-> Leaf("false"), rest |-> <<>>]
POk(a, r) == [ok |-> TRUE, ast |-> a, rest |-> r]
Bin(o, a, b) == [op |-> o, a |-> a, b |-> b]

\* every token that is not an operator is a primary (so that richer vocabularies - FindSem - can reuse the grammar)
StartsOperand(ts) == ts # <<>> /\ (Head(ts) \notin Operators \/ Head(ts) \in {"not", "lp"})

RECURSIVE PList(_), PListTail(_, _), POr(_), POrTail(_, _), PAnd(_), PAndTail(_, _), PNot(_), PPrim(_)
PList(ts) == LET r == POr(ts) IN IF r.ok THEN PListTail(r.ast, r.rest) ELSE PFail
PListTail(acc, ts) ==
  IF ts # <<>> /\ Head(ts) = "comma"
  THEN LET r == POr(Tail(ts)) IN IF r.ok THEN PListTail(Bin("list", acc, r.ast), r.rest) ELSE PFail
  ELSE POk(acc, ts)
POr(ts) == LET r == PAnd(ts) IN IF r.ok THEN POrTail(r.ast, r.rest) ELSE PFail
POrTail(acc, ts) ==
  IF ts # <<>> /\ Head(ts) = "or"
  THEN LET r == PAnd(Tail(ts)) IN IF r.ok THEN POrTail(Bin("or", acc, r.ast), r.rest) ELSE PFail
  ELSE POk(acc, ts)
PAnd(ts) == LET r == PNot(ts) IN IF r.ok THEN PAndTail(r.ast, r.rest) ELSE PFail
PAndTail(acc, ts) ==
  IF ts # <<>> /\ Head(ts) = "and"
  THEN LET r == PNot(Tail(ts)) IN IF r.ok THEN PAndTail(Bin("and", acc, r.ast), r.rest) ELSE PFail
  ELSE IF StartsOperand(ts)
  THEN LET r == PNot(ts) IN IF r.ok THEN PAndTail(Bin("and", acc, r.ast), r.rest) ELSE PFail
  ELSE POk(acc, ts)
PNot(ts) ==
  IF ts = <<>> THEN PFail
  ELSE IF Head(ts) = "not"
  THEN LET r == PNot(Tail(ts)) IN IF r.ok THEN POk([op |-> "not", a |-> r.ast], r.rest) ELSE PFail
  ELSE PPrim(ts)
PPrim(ts) ==
  IF ts = <<>> THEN PFail
  ELSE IF Head(ts) = "lp"
  THEN LET r == PList(Tail(ts)) IN
       IF r.ok /\ r.rest # <<>> /\ Head(r.rest) = "rp" THEN POk(r.ast, Tail(r.rest)) ELSE PFail
  ELSE IF Head(ts) \notin Operators THEN POk(Leaf(Head(ts)), Tail(ts))
  ELSE PFail

\* The empty expression is well-formed (it is "-true", hence -print).
RefParse(ts) ==
  IF ts = <<>> THEN [ok |-> TRUE, ast |-> Leaf("true")]
  ELSE LET r == PList(ts) IN
       IF r.ok /\ r.rest = <<>> THEN [ok |-> TRUE, ast |-> r.ast] ELSE [ok |-> FALSE, ast |-> Leaf("false")]

\* -print is added iff no action occurs anywhere in the expression (nested, negated, unreachable or not)
HasAction(ts) == \E i \in DOMAIN ts : ts[i] \in Acts

(***************************************************************************)
(* Evaluation on one file.  A file is [dir |-> BOOLEAN, sat |-> set of the *)
(* tests that are true of it].  Result: [v, out, quit, prune] - the truth  *)
(* value, the sequence of action labels output, whether -quit was          *)
(* evaluated and whether -prune was evaluated on a directory.              *)
(***************************************************************************)
Res(v, out, q, p) == [v |-> v, out |-> out, quit |-> q, prune |-> p]

LeafEval(t, f) ==
  IF t \in Tests THEN Res(t \in f.sat, <<>>, FALSE, FALSE)
  ELSE IF t \in Acts THEN Res(TRUE, <<t>>, FALSE, FALSE)
  ELSE IF t = "false" THEN Res(FALSE, <<>>, FALSE, FALSE)
  ELSE IF t = "quit" THEN Res(TRUE, <<>>, TRUE, FALSE)
  ELSE IF t = "prune" THEN Res(TRUE, <<>>, FALSE, f.dir)
  ELSE Res(TRUE, <<>>, FALSE, FALSE)            \* "true", "opt"

Seq2(ra, rb, v) == Res(v, ra.out \o rb.out, rb.quit, ra.prune \/ rb.prune)

RECURSIVE REval(_, _)
REval(e, f) ==
  IF e.op = "leaf" THEN LeafEval(e.t, f)
  ELSE IF e.op = "not" THEN LET r == REval(e.a, f) IN [r EXCEPT !.v = ~r.v]
  ELSE LET ra == REval(e.a, f) IN
       IF ra.quit THEN ra                                      \* nothing further is evaluated
       ELSE IF e.op = "and" THEN (IF ~ra.v THEN ra ELSE LET rb == REval(e.b, f) IN Seq2(ra, rb, rb.v))
       ELSE IF e.op = "or" THEN (IF ra.v THEN ra ELSE LET rb == REval(e.b, f) IN Seq2(ra, rb, rb.v))
       ELSE LET rb == REval(e.b, f) IN Seq2(ra, rb, rb.v)       \* list

\* What find does on one file for a well-formed expression: the action outputs, then "P"
\* (the default -print) iff there is no action and the expression is true.
RefFile(ts, f) ==
  LET r == REval(RefParse(ts).ast, f) IN
  [out |-> r.out \o (IF ~HasAction(ts) /\ ~r.quit /\ r.v THEN <<"P">> ELSE <<>>),
   quit |-> r.quit, prune |-> ~r.quit /\ r.prune]

(***************************************************************************)
(* A run over the files of a walk, given in visit order (pre-order, as     *)
(* -sorted or a single-child chain fixes it): files[i].sub = number of     *)
(* entries beneath files[i], skipped when -prune is evaluated on it;       *)
(* -quit ends the run.  Result: sequence of <<file index, label>>.         *)
(***************************************************************************)
RECURSIVE RunFrom(_, _, _, _)
RunFrom(res, files, i, acc) ==      \* res[i] = what find does on files[i] if it gets there
  IF i > Len(files) THEN acc
  ELSE LET r == res[i]
           acc2 == acc \o [k \in DOMAIN r.out |-> <<i, r.out[k]>>]
       IN IF r.quit THEN acc2
          ELSE RunFrom(res, files, (IF r.prune /\ files[i].dir THEN i + 1 + files[i].sub ELSE i + 1), acc2)

RefRun(ts, files) == RunFrom([i \in DOMAIN files |-> RefFile(ts, files[i])], files, 1, <<>>)

(***************************************************************************)
(* Implementation-shaped builder.  A frame is                              *)
(*   [ors |-> Seq(Seq(Seq(matcher))), inv |-> BOOLEAN, need |-> operator]  *)
(* (the ListMatcherBuilder of one recursion level of build_matcher_tree    *)
(* with its locals invert_next_matcher and operand_required_after).        *)
(* more = the look-ahead obligation left by are_more_expressions().        *)
(***************************************************************************)
NewFrame == [ors |-> << << <<>> >> >>, inv |-> FALSE, need |-> ""]

BuildAnd(ms) == IF Len(ms) = 1 THEN ms[1] ELSE [op |-> "And", kids |-> ms]
BuildOr(ands) == IF Len(ands) = 1 THEN BuildAnd(ands[1])
                 ELSE [op |-> "Or", kids |-> [i \in DOMAIN ands |-> BuildAnd(ands[i])]]
BuildList(ors) == IF Len(ors) = 1 THEN BuildOr(ors[1])
                  ELSE [op |-> "List", kids |-> [i \in DOMAIN ors |-> BuildOr(ors[i])]]

LastOr(fr) == fr.ors[Len(fr.ors)]
LastAnd(fr) == LastOr(fr)[Len(LastOr(fr))]

\* new_and_condition(matcher), with the pending inversion applied
AddMatcher(fr, m) ==
  LET mm == IF fr.inv THEN [op |-> "Not", a |-> m] ELSE m
      o == Len(fr.ors)
      a == Len(fr.ors[o])
  IN [fr EXCEPT !.ors[o][a] = Append(@, mm), !.inv = FALSE, !.need = ""]

\* One token.  st = [stack, more, prev, rej]
ImplInit == [stack |-> <<NewFrame>>, more |-> FALSE, prev |-> "", rej |-> FALSE]

ImplStep(st, tok) ==
  IF st.rej THEN st
  ELSE
  LET d == Len(st.stack)
      fr == st.stack[d]
      Rej == [st EXCEPT !.rej = TRUE]
      With(f2, more) == [stack |-> [st.stack EXCEPT ![d] = f2], more |-> more, prev |-> tok, rej |-> FALSE]
  IN
  IF fr.need # "" /\ tok \in {"and", "or", "comma", "rp"} THEN Rej
  ELSE IF st.more /\ tok = "rp" THEN Rej
  ELSE IF tok \in Leaves THEN With(AddMatcher(fr, Leaf(tok)), FALSE)
  ELSE IF tok = "not" THEN With([fr EXCEPT !.inv = ~fr.inv, !.need = "not"], TRUE)
  ELSE IF tok = "and" THEN (IF LastAnd(fr) = <<>> THEN Rej ELSE With([fr EXCEPT !.need = "and"], TRUE))
  ELSE IF tok = "or" THEN
       (IF LastAnd(fr) = <<>> THEN Rej
        ELSE With([fr EXCEPT !.ors[Len(fr.ors)] = Append(@, <<>>)], TRUE))
  ELSE IF tok = "comma" THEN
       (IF LastAnd(fr) = <<>> THEN Rej
        ELSE With([fr EXCEPT !.ors = Append(@, << <<>> >>)], TRUE))
  ELSE IF tok = "lp" THEN [stack |-> Append(st.stack, NewFrame), more |-> FALSE, prev |-> tok, rej |-> FALSE]
  ELSE \* "rp"
       IF d = 1 \/ st.prev = "lp" THEN Rej
       ELSE [stack |-> Append(SubSeq(st.stack, 1, d - 2), AddMatcher(st.stack[d - 1], BuildList(fr.ors))),
             more |-> FALSE, prev |-> tok, rej |-> FALSE]

\* End of the argument vector.
ImplAccepts(st) == ~st.rej /\ ~st.more /\ Len(st.stack) = 1
ImplTree(st) == BuildList(st.stack[1].ors)

RECURSIVE ImplHasSideEffects(_)
ImplHasSideEffects(m) ==
  IF m.op = "leaf" THEN m.t \in Acts
  ELSE IF m.op = "Not" THEN ImplHasSideEffects(m.a)
  ELSE \E k \in DOMAIN m.kids : ImplHasSideEffects(m.kids[k])

PrinterLeaf == Leaf("P")
ImplTop(st) ==
  LET t == ImplTree(st) IN
  IF ImplHasSideEffects(t) THEN t ELSE [op |-> "And", kids |-> <<t, PrinterLeaf>>]

\* The loop evaluators.  io = [out, quit, prune] is the MatcherIO threaded through.
RECURSIVE IEval(_, _, _), IAnd(_, _, _, _), IOr(_, _, _, _), IList(_, _, _, _, _)
IEval(m, f, io) ==
  IF m.op = "leaf" THEN
     (IF m.t = "P" THEN [v |-> TRUE, io |-> [io EXCEPT !.out = Append(@, "P")]]
      ELSE LET r == LeafEval(m.t, f) IN
           [v |-> r.v, io |-> [out |-> io.out \o r.out, quit |-> io.quit \/ r.quit, prune |-> io.prune \/ r.prune]])
  ELSE IF m.op = "Not" THEN LET r == IEval(m.a, f, io) IN [r EXCEPT !.v = ~r.v]
  ELSE IF m.op = "And" THEN IAnd(m.kids, 1, f, io)
  ELSE IF m.op = "Or" THEN IOr(m.kids, 1, f, io)
  ELSE IList(m.kids, 1, f, io, FALSE)
IAnd(kids, i, f, io) ==
  IF i > Len(kids) THEN [v |-> TRUE, io |-> io]
  ELSE LET r == IEval(kids[i], f, io) IN
       IF ~r.v THEN [v |-> FALSE, io |-> r.io]
       ELSE IF r.io.quit THEN [v |-> TRUE, io |-> r.io]
       ELSE IAnd(kids, i + 1, f, r.io)
IOr(kids, i, f, io) ==
  IF i > Len(kids) THEN [v |-> FALSE, io |-> io]
  ELSE LET r == IEval(kids[i], f, io) IN
       IF r.v THEN [v |-> TRUE, io |-> r.io]
       ELSE IF r.io.quit THEN [v |-> FALSE, io |-> r.io]
       ELSE IOr(kids, i + 1, f, r.io)
IList(kids, i, f, io, rc) ==
  IF i > Len(kids) THEN [v |-> rc, io |-> io]
  ELSE LET r == IEval(kids[i], f, io) IN
       IF r.io.quit THEN [v |-> r.v, io |-> r.io]
       ELSE IList(kids, i + 1, f, r.io, r.v)

ImplFile(st, f) ==
  LET r == IEval(ImplTop(st), f, [out |-> <<>>, quit |-> FALSE, prune |-> FALSE]) IN
  [out |-> r.io.out, quit |-> r.io.quit, prune |-> ~r.io.quit /\ r.io.prune]

RECURSIVE ImplFeed(_, _)
ImplFeed(st, ts) == IF ts = <<>> THEN st ELSE ImplFeed(ImplStep(st, Head(ts)), Tail(ts))
ImplOf(ts) == ImplFeed(ImplInit, ts)

=============================================================================
