--------------------------- MODULE XargsReadImpl ---------------------------
(***************************************************************************)
(* The xargs reader as the code implements it (src/xargs/mod.rs,           *)
(* WhitespaceDelimitedArgumentReader::next): a byte state machine over a   *)
(* buffer `pending` that is refilled by read() calls of arbitrary size.    *)
(* One action per loop iteration.  The reference it has to agree with is   *)
(* in XargsRead.                                                           *)
(***************************************************************************)
EXTENDS XargsRead

\* BUF is the size of the read buffer (4096 in the code).
CONSTANT BUF

VARIABLES
  input,    \* bytes not yet returned by read()
  carry,    \* self.pending between calls of next()
  pending,  \* local buffer of the running call
  i,        \* number of bytes of `pending` already consumed
  esc,      \* "n" | "b" (Escape::Slash) | "s" | "d" (Escape::Quote)
  result,   \* bytes of the argument under construction
  started,  \* an argument has begun (a quote or a backslash begins one, even if no byte follows)
  toks,     \* arguments returned so far
  phase     \* "call" (about to call next()), "scan" (inside the loop), "done", "err"

rvars == <<input, carry, pending, i, esc, result, started, toks, phase>>

ImplInit(bytes) ==
  /\ input = bytes /\ carry = <<>> /\ pending = <<>> /\ i = 0 /\ esc = "n"
  /\ result = <<>> /\ started = FALSE /\ toks = <<>> /\ phase = "call"

\* Entry of next(): take over the bytes left from the previous call.
Call ==
  /\ phase = "call"
  /\ pending' = carry /\ carry' = <<>> /\ result' = <<>> /\ started' = FALSE /\ esc' = "n" /\ i' = 0
  /\ phase' = "scan"
  /\ UNCHANGED <<input, toks>>

\* i == pending.len(): one read() call.  The kernel may return any non-empty
\* prefix of what is left (at most BUF bytes) - this is where every chunking of
\* the stream is explored.  EINTR retries are a stutter and not modelled.
Refill ==
  /\ phase = "scan" /\ i = Len(pending) /\ input # <<>>
  /\ \E k \in 1..MinOf(BUF, Len(input)) :
        /\ pending' = SubSeq(input, 1, k)
        /\ input' = SubSeq(input, k + 1, Len(input))
  /\ i' = 0
  /\ UNCHANGED <<carry, esc, result, started, toks, phase>>

\* When does next() report the end of the stream?  When no argument has begun in
\* this call.  (The pinned revision tested `i == 0` instead - no byte looked at in
\* this call - and so returned a phantom empty argument for input that ends in
\* separators; TLC found that with input <<32>>, see DESIGN.md findings.  A later
\* revision tested `result = <<>>` here and at the separator, which loses the empty
\* argument that '' and "" denote: COSTMODEL-like switch STARTED below.)
CONSTANT STARTED     \* TRUE: the repaired code; FALSE: "has an argument begun" is taken to be result # <<>>
Begun == IF STARTED THEN started ELSE result # <<>>
EofMeansNone == ~Begun

\* read() returned 0.
Eof ==
  /\ phase = "scan" /\ i = Len(pending) /\ input = <<>>
  /\ IF esc \in {"s", "d"} THEN phase' = "err" /\ UNCHANGED <<toks, pending>>
     ELSE IF EofMeansNone
          THEN phase' = "done" /\ UNCHANGED <<toks, pending>>
          ELSE /\ toks' = Append(toks, Tok(result, FALSE))
               /\ pending' = <<>> /\ phase' = "call"
  /\ UNCHANGED <<input, carry, i, esc, result, started>>

\* One byte of the buffer.
Byte ==
  /\ phase = "scan" /\ i < Len(pending)
  /\ LET c == pending[i + 1] IN
     CASE esc \in {"s", "d"} ->
            /\ IF (esc = "s" /\ c = SQ) \/ (esc = "d" /\ c = DQ)
               THEN esc' = "n" /\ UNCHANGED result
               ELSE result' = Append(result, c) /\ UNCHANGED esc
            /\ i' = i + 1 /\ UNCHANGED <<carry, toks, phase, started>>
       [] esc = "b" ->
            /\ result' = Append(result, c) /\ esc' = "n"
            /\ i' = i + 1 /\ UNCHANGED <<carry, toks, phase, started>>
       [] OTHER ->
            IF c \in {SQ, DQ}
            THEN /\ esc' = (IF c = SQ THEN "s" ELSE "d") /\ started' = TRUE
                 /\ i' = i + 1 /\ UNCHANGED <<result, carry, toks, phase>>
            ELSE IF c = BS
            THEN /\ esc' = "b" /\ started' = TRUE /\ i' = i + 1 /\ UNCHANGED <<result, carry, toks, phase>>
            ELSE IF IsSep(c)
            THEN IF Begun
                 THEN \* break: return the argument, keep the rest for the next call
                      /\ toks' = Append(toks, Tok(result, c = NL))
                      /\ carry' = SubSeq(pending, i + 2, Len(pending))
                      /\ phase' = "call"
                      /\ UNCHANGED <<i, esc, result, started>>
                 ELSE i' = i + 1 /\ UNCHANGED <<esc, result, carry, toks, phase, started>>
            ELSE /\ result' = Append(result, c) /\ started' = TRUE
                 /\ i' = i + 1 /\ UNCHANGED <<esc, carry, toks, phase>>
  /\ UNCHANGED <<input, pending>>

ImplNext == Call \/ Refill \/ Eof \/ Byte

ImplFinished == phase \in {"done", "err"}

\* What the whole stream produced, in the shape of RefTokenize's answer.
ImplAnswer == [err |-> phase = "err", toks |-> IF phase = "err" THEN <<>> ELSE toks]

=============================================================================
