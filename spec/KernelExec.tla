----------------------------- MODULE KernelExec -----------------------------
(***************************************************************************)
(* When does Linux accept an execve()?  (property C06; fs/exec.c:          *)
(* bprm_stack_limits, copy_strings, MAX_ARG_STRLEN.)                       *)
(*   - every argument and environment string, with its terminator, is at   *)
(*     most STRMAX bytes (32 pages);                                       *)
(*   - the bytes of the file name, of all argument and all environment     *)
(*     strings (each with terminator) plus one pointer per string (at      *)
(*     least one for argv) must fit in                                     *)
(*         KLimit = max(ARGMIN, min(STKCAP, rlim_stack / 4))               *)
(*     with ARGMIN = 128 KiB and STKCAP = 3/4 of 8 MiB.                    *)
(* The C library reports sysconf(_SC_ARG_MAX) = max(ARGMIN, rlim_stack/4)  *)
(* - without the cap.                                                      *)
(* The constants are parameters so that the model-checking instances can   *)
(* scale them down; the trace specification uses the real values.          *)
(***************************************************************************)
EXTENDS Util

CONSTANTS PTR, ARGMIN, STKCAP, STRMAX

KLimit(rlim) == MaxOf(ARGMIN, MinOf(STKCAP, rlim \div 4))
LibcArgMax(rlim) == MaxOf(ARGMIN, rlim \div 4)

\* x = [argc, argbytes (all argv strings incl. argv[0], each + 1), maxarg (longest argv string, without terminator),
\*      envc, envbytes (each + 1), fname (bytes of the path executed, + 1)]
Accepts(x, rlim) ==
  /\ x.maxarg + 1 <= STRMAX
  /\ x.fname + x.argbytes + x.envbytes + (MaxOf(x.argc, 1) + x.envc) * PTR <= KLimit(rlim)
=============================================================================
