------------------------------ MODULE FindWalk ------------------------------
(***************************************************************************)
(* Which entries find evaluates, at which depth, in which order            *)
(* (properties C02, C03, C18; the other find properties build on it).      *)
(*                                                                         *)
(* File tree: a sequence of nodes; node i is                               *)
(*   [parent |-> j < i, or 0 for "directly in the working directory",      *)
(*    name   |-> bytes,  kind |-> "d" | "f" | "l",                         *)
(*    target |-> for kind "l": the node the link resolves to (never a      *)
(*               link), 0 = dangling]                                      *)
(* Starting point: [spell |-> bytes exactly as given on the command line,  *)
(*                  node |-> its node, 0 = does not exist]                 *)
(* Configuration: [mode |-> "P"|"H"|"L", min, max (NoMax = unbounded),     *)
(*                 depth |-> BOOLEAN (-depth/-delete), sorted |-> BOOLEAN, *)
(*                 prune |-> set of paths on which -prune is evaluated]    *)
(* An entry is [path, depth, node, eff, dir]: eff = the node whose status   *)
(* record find uses (the link target where the follow mode resolves it).   *)
(***************************************************************************)
EXTENDS Util, SequencesExt, TLC

NoMax == 1000000
SLASH == 47

\* the name -name looks at: the last component, trailing slashes of a starting point ignored ("d/" is "d"; "/" is "/")
RECURSIVE StripSlashes(_)
StripSlashes(p) == IF Len(p) > 1 /\ p[Len(p)] = SLASH THEN StripSlashes(SubSeq(p, 1, Len(p) - 1)) ELSE p
NameOf(p) == LET q == StripSlashes(p) IN IF q = <<SLASH>> THEN q ELSE SubSeq(q, LastIndexOf(q, SLASH) + 1, Len(q))

ChildPath(p, name) == IF p # <<>> /\ p[Len(p)] = SLASH THEN p \o name ELSE p \o <<SLASH>> \o name

Children(tree, p) == {i \in DOMAIN tree : tree[i].parent = p}

\* byte-wise name order (what -sorted prescribes; also the canonical order of the reference)
SortedChildren(tree, p) ==
  SortSeq(SetToSeq(Children(tree, p)), LAMBDA a, b : LexLess(tree[a].name, tree[b].name))

\* optional node attribute: the directory's permissions do not let find list it
Unreadable(nd) == "noread" \in DOMAIN nd /\ nd.noread

\* optional node attribute: another file system is mounted on this directory; optional configuration field xdev
\* (-xdev / -mount): directories on a file system other than the starting point's are reported but not descended
Mnt(nd) == "mnt" \in DOMAIN nd /\ nd.mnt
Xdev(cfg) == "xdev" \in DOMAIN cfg /\ cfg.xdev
RECURSIVE DevOf(_, _)
DevOf(tree, n) == IF n = 0 THEN 0 ELSE IF Mnt(tree[n]) THEN n ELSE DevOf(tree, tree[n].parent)    \* the file system a node is on
RootDev(cfg) == IF "rootdev" \in DOMAIN cfg THEN cfg.rootdev ELSE 0

Follows(cfg, depth) == cfg.mode = "L" \/ (cfg.mode = "H" /\ depth = 0)

\* The node whose status record an entry for `node` at `depth` carries.
Eff(tree, cfg, node, depth) ==
  IF tree[node].kind = "l" /\ Follows(cfg, depth) /\ tree[node].target # 0
  THEN tree[node].target ELSE node

(***************************************************************************)
(* Reference walk of one starting point.  Result: [ents, errs].            *)
(* anc = the directories (by identity) on the path from the starting point *)
(* to here - a followed link to one of them closes a cycle.                *)
(***************************************************************************)
RECURSIVE Walk(_, _, _, _, _, _)
Walk(tree, cfg0, path, node, depth, anc) ==
  LET eff == Eff(tree, cfg0, node, depth)
      \* the file system of the starting point is remembered for -xdev
      cfg == IF depth = 0 /\ Xdev(cfg0) THEN [rootdev |-> DevOf(tree, eff)] @@ cfg0 ELSE cfg0
      isDir == tree[eff].kind = "d"
      viaLink == eff # node
      cyc == viaLink /\ isDir /\ eff \in anc
  IN
  IF cyc THEN [ents |-> <<>>, errs |-> 1]
  ELSE
    LET inRange == cfg.min <= depth /\ depth <= cfg.max
        self == [path |-> path, depth |-> depth, node |-> node, eff |-> eff, dir |-> isDir]
        prunedHere == inRange /\ isDir /\ ~cfg.depth /\ path \in cfg.prune
        descend == isDir /\ depth < cfg.max /\ ~prunedHere /\ (Xdev(cfg) => DevOf(tree, eff) = RootDev(cfg))
        \* a directory that cannot be read is itself an entry, but listing it fails: a diagnostic (one error),
        \* nothing beneath it, and the walk goes on with its siblings
        blocked == descend /\ Unreadable(tree[eff])
        kids == IF descend /\ ~blocked THEN SortedChildren(tree, eff) ELSE <<>>
        sub == [k \in DOMAIN kids |->
                  Walk(tree, cfg, ChildPath(path, tree[kids[k]].name), kids[k], depth + 1, anc \cup {eff})]
        below == Flatten([k \in DOMAIN kids |-> sub[k].ents])
        errs == SumSeq([k \in DOMAIN kids |-> sub[k].errs]) + (IF blocked THEN 1 ELSE 0)
        me == IF inRange THEN <<self>> ELSE <<>>
    IN [ents |-> IF cfg.depth THEN below \o me ELSE me \o below, errs |-> errs]

\* All starting points, in the order given, each independently.  A starting point that
\* does not exist is an error; an empty name (possible in a -files0-from list only) is
\* diagnosed and skipped.
EmptyNames(roots) == {r \in DOMAIN roots : roots[r].spell = <<>>}
\* a name find cannot represent (not valid UTF-8; the harness says which): as an operand or in the -files0-from list it
\* is reported, and nothing is walked
BadNames(roots) == {r \in DOMAIN roots : "bad" \in DOMAIN roots[r] /\ roots[r].bad}
WalkRoots(tree, cfg, roots) ==
  IF BadNames(roots) # {} THEN [ents |-> <<>>, errs |-> 1] ELSE
  LET per == [r \in DOMAIN roots |->
                IF roots[r].spell = <<>> THEN [ents |-> <<>>, errs |-> 0]
                ELSE IF roots[r].node = 0 THEN [ents |-> <<>>, errs |-> 1]
                ELSE Walk(tree, cfg, roots[r].spell, roots[r].node, 0, {})]
  IN [ents |-> Flatten([r \in DOMAIN roots |-> per[r].ents]),
      errs |-> SumSeq([r \in DOMAIN roots |-> per[r].errs])]

Paths(ents) == [k \in DOMAIN ents |-> ents[k].path]

(***************************************************************************)
(* Order-insensitive comparison for runs without -sorted: the same         *)
(* multiset of paths, and the pre-/post-order relation between every       *)
(* directory and what is beneath it.                                       *)
(***************************************************************************)
IsBelow(p, q) ==   \* q is strictly beneath p
  /\ Len(q) > Len(p) /\ SubSeq(q, 1, Len(p)) = p
  /\ (p[Len(p)] = SLASH \/ q[Len(p) + 1] = SLASH)

SameMultiset(a, b) == SortSeq(a, LexLess) = SortSeq(b, LexLess)

PreOrderOK(ps) == \A i, j \in DOMAIN ps : i < j => ~IsBelow(ps[j], ps[i])
PostOrderOK(ps) == \A i, j \in DOMAIN ps : i < j => ~IsBelow(ps[i], ps[j])

\* Do the observed paths (one starting point after the other) fit the reference?
WalkAccepts(tree, cfg, roots, obsPaths) ==
  LET ref == Paths(WalkRoots(tree, cfg, roots).ents) IN
  IF cfg.sorted THEN obsPaths = ref
  ELSE /\ SameMultiset(obsPaths, ref)
       /\ IF cfg.depth THEN PostOrderOK(obsPaths) ELSE PreOrderOK(obsPaths)

\* Well-formedness of a tree value (used by the model-checking instances).
TreeOK(tree) ==
  \A i \in DOMAIN tree :
     /\ tree[i].parent \in 0..(i - 1)
     /\ (tree[i].parent # 0 => tree[tree[i].parent].kind = "d")
     /\ (tree[i].kind = "l" => tree[i].target = 0 \/ (tree[i].target \in DOMAIN tree /\ tree[tree[i].target].kind # "l"))
     /\ \A j \in DOMAIN tree : (j # i /\ tree[j].parent = tree[i].parent) => tree[j].name # tree[i].name

=============================================================================
