---------------------------- MODULE FindWalkImpl ----------------------------
(***************************************************************************)
(* The walk as the code performs it: the iterator of the walkdir crate     *)
(* (IntoIter::next, handle_entry, push, pop, skip_current_dir,             *)
(* get_deferred_dir - walkdir 2.5, src/lib.rs) driven by process_dir       *)
(* (src/find/mod.rs), on the file-tree model of FindWalk.  One action per  *)
(* iteration of the iterator's loop.  MC_WalkImpl checks that what this    *)
(* machine yields is the reference walk of FindWalk - except for one named  *)
(* deviation, the open finding of C02:                                     *)
(*   (with -H and -depth a starting point that is a link to a directory is *)
(*   not deferred by walkdir - to it the entry is a symbolic link - and    *)
(*   everything deferred below it comes out one level late; since the      *)
(*   repair 1d14b81 process_dir walks its contents from the spelling with  *)
(*   a trailing slash and evaluates the starting point itself last: `held`)*)
(*   DevLostLink   under -L a link to a directory that cannot be opened is *)
(*                 lost: the loop check in follow() opens the target and   *)
(*                 its error replaces the entry.                           *)
(* Siblings are read in name order (-sorted); without it any order.        *)
(***************************************************************************)
EXTENDS FindWalk

VARIABLES
  stack,     \* stack_list: frames [rest: children still to be read, path, eff, depth of the children]
  deferred,  \* deferred_dirs (contents_first): directory entries waiting for their contents
  out,       \* what process_dir evaluated, in order
  errs,      \* walk errors reported by process_dir
  phase,     \* "start" | "loop" | "done"
  skipped,   \* the last step ended with process_dir calling skip_current_dir()
  held       \* process_dir's held_root: <<>> or <<entry>>

wvars == <<stack, deferred, out, errs, phase, skipped, held>>

FollowLinks(cfg) == cfg.mode = "L"
FollowRoot(cfg) == cfg.mode # "P"
\* walkdir lowers min_depth to max_depth when the range is empty; process_dir filters again
WMin(cfg) == IF cfg.min > cfg.max THEN cfg.max ELSE cfg.min
Skippable(cfg, d) == d < WMin(cfg) \/ d > cfg.max

Frame(tree, path, eff, d) == [rest |-> SortedChildren(tree, eff), path |-> path, eff |-> eff, cd |-> d + 1]
AncOf(st) == {st[i].eff : i \in DOMAIN st}

\* the file system of the starting point: walkdir (and process_dir) look at what the starting point resolves to,
\* also where the follow mode does not follow it (a link that is not followed has nothing beneath it anyway)
RootFs(tree, root) == DevOf(tree, IF tree[root].kind = "l" /\ tree[root].target # 0 THEN tree[root].target ELSE root)

\* process_dir on a yielded entry: evaluated if its depth is in range; -prune pops the iterator's top frame
Evaluated(cfg, e) == e.depth >= cfg.min
PruneFires(tree, cfg, e, root) ==
  /\ Evaluated(cfg, e) /\ ~cfg.depth /\ e.dir /\ e.path \in cfg.prune
  \* (the -xdev repair: only for a directory the iterator did descend into)
  /\ (Xdev(cfg) => DevOf(tree, e.eff) = RootFs(tree, root))

(***************************************************************************)
(* handle_entry for the directory entry `node` met at `depth` under `path`. *)
(* Result: [kind: "lost" (an error replaces the entry) | "entry", e, push,  *)
(* defer].                                                                  *)
(***************************************************************************)
Handle(tree, cfg, path, node, depth, anc, root) ==
  LET nd == tree[node]
      followed == nd.kind = "l" /\ (FollowLinks(cfg) \/ (depth = 0 /\ FollowRoot(cfg)))
      tgt == IF followed THEN nd.target ELSE 0
      eff == IF followed /\ tgt # 0 THEN tgt ELSE node
      isDir == tree[eff].kind = "d"
      \* walkdir's own view of the type: the target's only where follow_links itself is on
      wdFollowed == nd.kind = "l" /\ FollowLinks(cfg) /\ tgt # 0
      normalDir == (nd.kind = "d") \/ (wdFollowed /\ isDir)
      loop == wdFollowed /\ isDir /\ eff \in anc
      cannotOpen == wdFollowed /\ isDir /\ Unreadable(tree[eff])
      sameFs == ~Xdev(cfg) \/ depth = 0 \/ DevOf(tree, eff) = RootFs(tree, root)
      push == IF normalDir THEN sameFs
              ELSE depth = 0 /\ nd.kind = "l" /\ FollowRoot(cfg) /\ isDir       \* the root-link special case
      e == [path |-> path, depth |-> depth, node |-> node, eff |-> eff, dir |-> isDir]
  IN IF loop \/ cannotOpen THEN [kind |-> "lost", e |-> e, push |-> FALSE, defer |-> FALSE]
     ELSE [kind |-> "entry", e |-> e, push |-> push, defer |-> normalDir /\ cfg.depth]

\* what one handled entry does to the state (tree, cfg, root: the run's constants)
Apply(tree, cfg, root, h, st) ==
  IF h.kind = "lost" THEN [stack |-> st.stack, deferred |-> st.deferred, out |-> st.out, errs |-> st.errs + 1, skip |-> FALSE, held |-> st.held]
  ELSE
    LET e == h.e
        pushed == IF h.push THEN Append(st.stack, Frame(tree, e.path, e.eff, e.depth)) ELSE st.stack
    IN IF h.defer THEN [stack |-> pushed, deferred |-> Append(st.deferred, e), out |-> st.out, errs |-> st.errs, skip |-> FALSE, held |-> st.held]
       ELSE IF Skippable(cfg, e.depth) \/ ~Evaluated(cfg, e) THEN [stack |-> pushed, deferred |-> st.deferred, out |-> st.out, errs |-> st.errs, skip |-> FALSE, held |-> st.held]
       ELSE [stack |-> IF PruneFires(tree, cfg, e, root) /\ pushed # <<>> THEN SubSeq(pushed, 1, Len(pushed) - 1) ELSE pushed,
             deferred |-> st.deferred, out |-> Append(st.out, e), errs |-> st.errs,
             \* (skip_current_dir() is called whenever -prune fired; with an empty stack it does nothing)
             skip |-> PruneFires(tree, cfg, e, root), held |-> st.held]

St == [stack |-> stack, deferred |-> deferred, out |-> out, errs |-> errs, skip |-> FALSE, held |-> held]
Set(s) == stack' = s.stack /\ deferred' = s.deferred /\ out' = s.out /\ errs' = s.errs /\ skipped' = s.skip /\ held' = s.held

WInit == stack = <<>> /\ deferred = <<>> /\ out = <<>> /\ errs = 0 /\ phase = "start" /\ skipped = FALSE /\ held = <<>>

\* -H -depth and a starting point that is a symbolic link to a directory (not already spelled with a trailing slash,
\* and not cut off by -maxdepth 0): walkdir would not defer it - to walkdir it is a link
RootIsFollowedLink(tree, cfg, root) ==
  /\ cfg.depth /\ cfg.mode = "H" /\ cfg.max > 0 /\ root.spell[Len(root.spell)] # SLASH
  /\ tree[root.node].kind = "l" /\ tree[root.node].target # 0 /\ tree[tree[root.node].target].kind = "d"
IsGhost(e) == "ghost" \in DOMAIN e

\* the starting point
Start(tree, cfg, root) ==
  /\ phase = "start"
  /\ IF root.node = 0
     THEN \* a starting point that does not exist: the iterator's first item is an error, and that is all
          Set([St EXCEPT !.errs = errs + 1])
     ELSE IF RootIsFollowedLink(tree, cfg, root)
     THEN \* process_dir walks the contents from the spelling with a trailing slash - to walkdir a directory like any
          \* other: pushed, deferred, and never yielded because min_depth is at least 1 there - and keeps the starting
          \* point as it was given for the end
          LET tgt == tree[root.node].target
              ghost == [path |-> root.spell \o <<SLASH>>, depth |-> 0, node |-> root.node, eff |-> tgt, dir |-> TRUE, ghost |-> TRUE]
              own == [path |-> root.spell, depth |-> 0, node |-> root.node, eff |-> tgt, dir |-> TRUE]
          IN Set([St EXCEPT !.stack = <<Frame(tree, ghost.path, tgt, 0)>>, !.deferred = <<ghost>>,
                            !.held = IF cfg.min = 0 THEN <<own>> ELSE <<>>])
     ELSE Set(Apply(tree, cfg, root.node, Handle(tree, cfg, root.spell, root.node, 0, {}, root.node), St))
  /\ phase' = "loop"

\* a deferred directory whose contents are done is yielded (contents_first)
YieldDeferred(tree, cfg, root) ==
  /\ phase = "loop" /\ stack # <<>> /\ cfg.depth /\ Len(stack) < Len(deferred)
  /\ LET e == deferred[Len(deferred)] IN
     /\ deferred' = SubSeq(deferred, 1, Len(deferred) - 1)
     /\ out' = IF Skippable(cfg, e.depth) \/ ~Evaluated(cfg, e) \/ IsGhost(e) THEN out ELSE Append(out, e)
  /\ skipped' = FALSE /\ UNCHANGED <<stack, errs, phase, held>>

NoDeferredDue(cfg) == ~(cfg.depth /\ Len(stack) < Len(deferred))

\* beyond -maxdepth: the frame is dropped unread
PopDeep(tree, cfg, root) ==
  /\ phase = "loop" /\ stack # <<>> /\ NoDeferredDue(cfg) /\ Len(stack) > cfg.max
  /\ stack' = SubSeq(stack, 1, Len(stack) - 1) /\ skipped' = FALSE /\ UNCHANGED <<deferred, out, errs, phase, held>>

\* a directory that cannot be listed: its frame yields one error and is dropped
ReadError(tree, cfg, root) ==
  /\ phase = "loop" /\ stack # <<>> /\ NoDeferredDue(cfg) /\ Len(stack) <= cfg.max
  /\ Unreadable(tree[stack[Len(stack)].eff])
  /\ errs' = errs + 1 /\ stack' = SubSeq(stack, 1, Len(stack) - 1) /\ skipped' = FALSE /\ UNCHANGED <<deferred, out, phase, held>>

\* the top frame is exhausted
PopDone(tree, cfg, root) ==
  /\ phase = "loop" /\ stack # <<>> /\ NoDeferredDue(cfg) /\ Len(stack) <= cfg.max
  /\ ~Unreadable(tree[stack[Len(stack)].eff]) /\ stack[Len(stack)].rest = <<>>
  /\ stack' = SubSeq(stack, 1, Len(stack) - 1) /\ skipped' = FALSE /\ UNCHANGED <<deferred, out, errs, phase, held>>

\* the next child of the top frame
NextChild(tree, cfg, root) ==
  /\ phase = "loop" /\ stack # <<>> /\ NoDeferredDue(cfg) /\ Len(stack) <= cfg.max
  /\ ~Unreadable(tree[stack[Len(stack)].eff]) /\ stack[Len(stack)].rest # <<>>
  /\ LET top == stack[Len(stack)]
         child == Head(top.rest)
         st1 == [St EXCEPT !.stack = [stack EXCEPT ![Len(stack)].rest = Tail(top.rest)]]
         h == Handle(tree, cfg, ChildPath(top.path, tree[child].name), child, top.cd, AncOf(stack), root.node)
     IN Set(Apply(tree, cfg, root.node, h, st1))
  /\ UNCHANGED phase

\* the stack is empty: under contents_first what is still deferred comes out, last in first out
Drain(tree, cfg, root) ==
  /\ phase = "loop" /\ stack = <<>>
  /\ IF cfg.depth /\ deferred # <<>>
     THEN LET e == deferred[Len(deferred)] IN
          /\ deferred' = SubSeq(deferred, 1, Len(deferred) - 1)
          /\ out' = IF Skippable(cfg, e.depth) \/ ~Evaluated(cfg, e) \/ IsGhost(e) THEN out ELSE Append(out, e)
          /\ skipped' = FALSE /\ UNCHANGED <<stack, errs, phase, held>>
     ELSE IF held # <<>>
     THEN \* the iterator is exhausted: the starting point that was held back is evaluated now
          /\ out' = Append(out, held[1]) /\ held' = <<>> /\ skipped' = FALSE /\ UNCHANGED <<stack, deferred, errs, phase>>
     ELSE phase' = "done" /\ skipped' = FALSE /\ UNCHANGED <<stack, deferred, out, errs, held>>

WNext(tree, cfg, root) ==
  \/ Start(tree, cfg, root) \/ YieldDeferred(tree, cfg, root) \/ PopDeep(tree, cfg, root)
  \/ ReadError(tree, cfg, root) \/ PopDone(tree, cfg, root) \/ NextChild(tree, cfg, root) \/ Drain(tree, cfg, root)

(***************************************************************************)
(* The named deviations and the refinement statement.                      *)
(***************************************************************************)
\* some followed link (at any depth, -L) points to a directory that cannot be opened
DevLostLink(tree, cfg) ==
  cfg.mode = "L" /\ \E i \in DOMAIN tree : tree[i].kind = "l" /\ tree[i].target # 0 /\ tree[tree[i].target].kind = "d" /\ Unreadable(tree[tree[i].target])

Ref(tree, cfg, root) == Walk(tree, cfg, root.spell, root.node, 0, {})

\* when the machine is done: what it yielded is the reference walk, and as many errors
Refines(tree, cfg, root) ==
  phase = "done" =>
    IF DevLostLink(tree, cfg) THEN TRUE
    ELSE out = Ref(tree, cfg, root).ents /\ errs = Ref(tree, cfg, root).errs
=============================================================================
