----------------------------- MODULE XargsBatch -----------------------------
(***************************************************************************)
(* xargs batching (property C04): how the argument sequence is cut into    *)
(* invocations under -n / -L / -s / -x / -r.                               *)
(*                                                                         *)
(* An input is a record                                                    *)
(*   args : sequence of [len |-> bytes of the argument, hard |-> BOOLEAN]  *)
(*          (hard = the argument ended its input line, see XargsRead)      *)
(*   n, L, s : the option values, 0 = option absent                        *)
(*   cmd  : bytes charged for the command and initial arguments            *)
(*          (each counted with one terminator)                             *)
(*   x, r : -x and -r                                                      *)
(*   argmax : optional - the system's limit on a single argument string    *)
(* A batch is a sequence of argument indices.  The operating system's      *)
(* total budget is not part of this module (see KernelExec / C06): the     *)
(* domain here is inputs whose total size stays below it.                  *)
(***************************************************************************)
EXTENDS Util, SequencesExt

Cost(a) == a.len + 1

\* Size charged for a batch: command + every appended argument with its terminator.
BatchSize(in, b) == in.cmd + SumSeq([k \in DOMAIN b |-> Cost(in.args[b[k]])])

\* Number of input lines a batch draws from: one more than the number of
\* line-ending arguments before its last argument.
BatchLines(in, b) ==
  IF b = <<>> THEN 0
  ELSE 1 + Cardinality({k \in 1..(Len(b) - 1) : in.args[b[k]].hard})

FitsN(in, b) == in.n = 0 \/ Len(b) <= in.n
FitsL(in, b) == in.L = 0 \/ BatchLines(in, b) <= in.L
FitsS(in, b) == in.s = 0 \/ BatchSize(in, b) <= in.s
\* the operating system's limit on one argument string with its terminator (KernelExec's STRMAX), where the
\* input names it: an argument beyond it "does not fit even in an otherwise empty invocation"
FitsA(in, b) == "argmax" \notin DOMAIN in \/ \A k \in DOMAIN b : Cost(in.args[b[k]]) <= in.argmax
Fits(in, b) == FitsN(in, b) /\ FitsL(in, b) /\ FitsS(in, b) /\ FitsA(in, b)

(***************************************************************************)
(* Declarative statement of C04 for a finished run (execs = the batches of  *)
(* the invocations in order, status = xargs' exit status class).            *)
(***************************************************************************)
Contiguous(b) == \A k \in 1..(Len(b) - 1) : b[k + 1] = b[k] + 1

\* order kept, nothing lost/duplicated/merged/split: the batches concatenate to 1..m
LosslessPrefix(execs, m) == Flatten(execs) = [k \in 1..m |-> k]

WithinAllLimits(in, execs) == \A j \in DOMAIN execs : Fits(in, execs[j])

\* the argument following a batch was held back only because it would break a limit
Maximal(in, execs) ==
  \A j \in DOMAIN execs :
     LET b == execs[j] IN
     b # <<>> /\ b[Len(b)] < Len(in.args) => ~Fits(in, Append(b, b[Len(b)] + 1))

(***************************************************************************)
(* Reference run: greedy packing, written as a fold over the arguments.     *)
(* st.status: "run", "xerr" (-x: size overflow while -n/-L in force),       *)
(*            "toolarge" (argument does not fit an otherwise empty batch).  *)
(***************************************************************************)
RefInit == [batches |-> <<>>, cur |-> <<>>, status |-> "run"]

RefStep(in, st, k) ==
  IF st.status # "run" THEN st
  ELSE LET b == Append(st.cur, k) IN
       IF Fits(in, b) THEN [st EXCEPT !.cur = b]
       ELSE IF FitsN(in, b) /\ FitsL(in, b) /\ in.x /\ (in.n > 0 \/ in.L > 0)
            THEN [st EXCEPT !.status = "xerr"]
       ELSE LET flushed == IF st.cur = <<>> THEN st.batches ELSE Append(st.batches, st.cur) IN
            IF Fits(in, <<k>>)
            THEN [batches |-> flushed, cur |-> <<k>>, status |-> "run"]
            ELSE [batches |-> st.batches, cur |-> st.cur, status |-> "toolarge"]

RefFinal(in) == FoldLeft(LAMBDA st, k : RefStep(in, st, k), RefInit, [k \in 1..Len(in.args) |-> k])

\* The base command alone must fit -s, otherwise xargs refuses to start.
BaseFits(in) == in.s = 0 \/ in.cmd <= in.s

\* The set of allowed outcomes [execs, exit].  Where the run ends in an error the
\* property does not say whether the batch that was pending is still run: both are
\* allowed (nothing may be truncated, split or dropped *silently*, and what ran must
\* be a lossless prefix).
RefOutcomes(in) ==
  IF ~BaseFits(in) THEN {[execs |-> <<>>, exit |-> 1]}
  ELSE LET st == RefFinal(in) IN
    IF st.status = "run"
    THEN {[execs |-> IF st.cur # <<>> \/ (in.args = <<>> /\ ~in.r)
                     THEN Append(st.batches, st.cur) ELSE st.batches,
           exit |-> 0]}
    ELSE {[execs |-> st.batches, exit |-> 1]}
         \cup (IF st.cur = <<>> THEN {} ELSE {[execs |-> Append(st.batches, st.cur), exit |-> 1]})

\* Laws tying the greedy reference to the declarative statement (checked in MC_C04).
RefLaws(in) ==
  \A o \in RefOutcomes(in) :
     /\ \E m \in 0..Len(in.args) : LosslessPrefix(o.execs, m)
     /\ \A j \in DOMAIN o.execs : Contiguous(o.execs[j])
     /\ (BaseFits(in) => WithinAllLimits(in, o.execs))
     /\ (o.exit = 0 => /\ LosslessPrefix(o.execs, Len(in.args))
                       /\ Maximal(in, o.execs)
                       /\ (in.args = <<>> => o.execs = IF in.r THEN <<>> ELSE << <<>> >>))
     /\ (o.exit = 1 /\ BaseFits(in) =>
            \* the run stopped at an argument that really cannot be placed
            LET m == Len(Flatten(o.execs)) IN
            \E k \in (m + 1)..Len(in.args) :
               \/ ~Fits(in, <<k>>)
               \/ in.x /\ (in.n > 0 \/ in.L > 0))

=============================================================================
