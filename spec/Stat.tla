-------------------------------- MODULE Stat --------------------------------
(***************************************************************************)
(* Tests that are functions of an entry's status record (property C13).    *)
(* An entry of the reference walk is [path, depth, node, eff, dir]: node   *)
(* is the directory entry itself, eff the node whose status record the     *)
(* follow mode selects (lstat under -P; stat, falling back to lstat for    *)
(* dangling links, under -L; stat for starting points only under -H).      *)
(* Node attributes: kind in d f l p s, mode (12 bits), uid, gid, nlink,    *)
(* ino, size, text (link contents), hl (0, or the node this one is a hard  *)
(* link of).                                                               *)
(***************************************************************************)
EXTENDS FindWalk, Glob, Numeric

Pow2(n) == IF n = 0 THEN 1 ELSE IF n = 1 THEN 2 ELSE IF n = 2 THEN 4 ELSE IF n = 3 THEN 8 ELSE IF n = 4 THEN 16
           ELSE IF n = 5 THEN 32 ELSE IF n = 6 THEN 64 ELSE IF n = 7 THEN 128 ELSE IF n = 8 THEN 256
           ELSE IF n = 9 THEN 512 ELSE IF n = 10 THEN 1024 ELSE 2048
BitsOf(n) == {i \in 0..11 : (n \div Pow2(i)) % 2 = 1}
RECURSIVE SumPow(_)
SumPow(S) == IF S = {} THEN 0 ELSE LET i == CHOOSE x \in S : TRUE IN Pow2(i) + SumPow(S \ {i})
FromBits(S) == SumPow(S)

\* -perm MODE / -MODE / /MODE on the twelve permission bits
PermMatch(kind, m, bits) ==
  IF kind = "exact" THEN bits = m
  ELSE IF kind = "all" THEN BitsOf(m) \subseteq BitsOf(bits)
  ELSE m = 0 \/ BitsOf(m) \cap BitsOf(bits) # {}

(***************************************************************************)
(* Symbolic modes, structured: a mode is a sequence of clauses             *)
(*   [who |-> subset of {"u","g","o"}, acts |-> sequence of                *)
(*      [op |-> "+" | "-" | "=", perms |-> subset of {"r","w","x","X","s","t"}*)
(*       copy |-> "" | "u" | "g" | "o"]]                                   *)
(* evaluated like chmod starting from 0 (explicit who only).               *)
(***************************************************************************)
ClassShift(w) == IF w = "u" THEN 6 ELSE IF w = "g" THEN 3 ELSE 0
ClassBits(w) == {ClassShift(w), ClassShift(w) + 1, ClassShift(w) + 2}
Special(w) == IF w = "u" THEN 11 ELSE IF w = "g" THEN 10 ELSE 9
\* "X": execute/search only if the file is a directory or the mode computed so far has execute permission for someone
PermBitsFor(w, perms, xok) ==
  (IF "r" \in perms THEN {ClassShift(w) + 2} ELSE {}) \cup (IF "w" \in perms THEN {ClassShift(w) + 1} ELSE {})
  \cup (IF "x" \in perms THEN {ClassShift(w)} ELSE {})
  \cup (IF "X" \in perms /\ xok THEN {ClassShift(w)} ELSE {})
  \cup (IF "s" \in perms /\ w \in {"u", "g"} THEN {Special(w)} ELSE {})
  \cup (IF "t" \in perms /\ w = "o" THEN {9} ELSE {})
CopyBitsFor(w, from, cur) == {ClassShift(w) + k : k \in {j \in 0..2 : (ClassShift(from) + j) \in cur}}
\* a clause without a who part is about all three classes (the process's umask plays no part in an operand of -perm)
EffWho(who) == IF who = {} THEN {"u", "g", "o"} ELSE who
ActBits(who, act, cur, isdir) ==
  UNION {IF act.copy = "" THEN PermBitsFor(w, act.perms, isdir \/ cur \cap {0, 3, 6} # {}) ELSE CopyBitsFor(w, act.copy, cur) : w \in EffWho(who)}
Affected(who) == UNION {ClassBits(w) \cup {Special(w)} : w \in EffWho(who)}
\* "=" clears what it does not set - except that a directory keeps its set-user-ID and set-group-ID bits unless the
\* operation itself mentions them (chmod's rule for directories; the operand is computed as chmod would compute a mode)
KeptSpecial(act, bits, isdir) == IF isdir THEN {10, 11} \ (IF act.copy = "" THEN bits ELSE {}) ELSE {}
ApplyAct(who, act, cur, isdir) ==
  LET bits == ActBits(who, act, cur, isdir) IN
  IF act.op = "+" THEN cur \cup bits
  ELSE IF act.op = "-" THEN cur \ bits
  ELSE (cur \ (Affected(who) \ KeptSpecial(act, bits, isdir))) \cup bits
RECURSIVE ApplyActs(_, _, _, _), ApplyClauses(_, _, _)
ApplyActs(who, acts, cur, isdir) == IF acts = <<>> THEN cur ELSE ApplyActs(who, Tail(acts), ApplyAct(who, Head(acts), cur, isdir), isdir)
ApplyClauses(cl, cur, isdir) == IF cl = <<>> THEN cur ELSE ApplyClauses(Tail(cl), ApplyActs(Head(cl).who, Head(cl).acts, cur, isdir), isdir)
\* the operand a file is compared with; a directory is compared with the value computed for a directory
SymbolicValueFor(clauses, isdir) == FromBits(ApplyClauses(clauses, {}, isdir))
SymbolicValue(clauses) == SymbolicValueFor(clauses, FALSE)

\* the text of a structured mode
WhoText(who) == (IF "u" \in who THEN <<117>> ELSE <<>>) \o (IF "g" \in who THEN <<103>> ELSE <<>>) \o (IF "o" \in who THEN <<111>> ELSE <<>>)
PermsText(p) == (IF "r" \in p THEN <<114>> ELSE <<>>) \o (IF "w" \in p THEN <<119>> ELSE <<>>) \o (IF "x" \in p THEN <<120>> ELSE <<>>)
                \o (IF "X" \in p THEN <<88>> ELSE <<>>) \o (IF "s" \in p THEN <<115>> ELSE <<>>) \o (IF "t" \in p THEN <<116>> ELSE <<>>)
OpChar(op) == IF op = "+" THEN 43 ELSE IF op = "-" THEN 45 ELSE 61
ActText(a) == <<OpChar(a.op)>> \o (IF a.copy = "" THEN PermsText(a.perms) ELSE <<IF a.copy = "u" THEN 117 ELSE IF a.copy = "g" THEN 103 ELSE 111>>)
ClauseText(c) == WhoText(c.who) \o Flatten([k \in DOMAIN c.acts |-> ActText(c.acts[k])])
SymbolicText(clauses) == Join([k \in DOMAIN clauses |-> ClauseText(clauses[k])], <<44>>)

(***************************************************************************)
(* The tests.  t = [p |-> primary, ...]                                    *)
(***************************************************************************)
Ident(tree, n) == IF tree[n].hl # 0 THEN tree[n].hl ELSE n
KindView(tree, cfg, e, flip) ==
  \* the type letter: the record the follow mode selects (flip: the opposite choice, for -xtype)
  LET followed == Follows(cfg, e.depth)
      nd == tree[e.node]
      useStat == IF flip THEN ~followed ELSE followed
  IN IF nd.kind = "l" /\ useStat /\ nd.target # 0 THEN tree[nd.target].kind ELSE nd.kind

TestHolds(tree, cfg, e, t) ==
  LET st == tree[e.eff] nd == tree[e.node] IN
  CASE t.p = "type" -> KindView(tree, cfg, e, FALSE) = t.c
    [] t.p = "xtype" -> KindView(tree, cfg, e, TRUE) = t.c
    [] t.p = "perm" -> PermMatch(t.kind, t.m, st.mode)
    [] t.p \in {"uid", "gid", "links", "inum", "size"} -> Cmp(t.form, [v |-> t.n], st[IF t.p = "links" THEN "nlink" ELSE IF t.p = "inum" THEN "ino" ELSE t.p])
    [] t.p = "empty" -> (st.kind = "f" /\ st.size = 0) \/ (st.kind = "d" /\ Children(tree, e.eff) = {})
    [] t.p = "samefile" ->
         LET r == t.ref
             rn == IF tree[r].kind = "l" /\ cfg.mode # "P" /\ tree[r].target # 0 THEN tree[r].target ELSE r
         IN Ident(tree, e.eff) = Ident(tree, rn)
    [] t.p = "lname" -> nd.kind = "l" /\ e.eff = e.node /\ GlobMatch(t.pat, Utf8Decode(nd.text), FALSE)

\* nothing of the above is left open on the trees the harness can build (kept as a hook)
TestDom(tree, cfg, e, t) == TRUE

Selection(tree, cfg, roots, t) ==
  LET w == WalkRoots(tree, cfg, roots).ents IN
  [paths |-> Paths(SelectSeq(w, LAMBDA e : TestHolds(tree, cfg, e, t))),
   dom |-> \A k \in DOMAIN w : TestDom(tree, cfg, w[k], t)]
=============================================================================
