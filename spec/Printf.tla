------------------------------- MODULE Printf -------------------------------
(***************************************************************************)
(* -printf / -fprintf (property C16): the format is parsed into literal    *)
(* bytes and directives, and rendered per entry from the entry's           *)
(* attributes.  Entries come from the reference walk (FindWalk): an entry  *)
(* is [path, depth, node, eff, dir]; attributes are fields of the tree     *)
(* nodes: size, mode (12 bits), uid, gid, nlink, ino, and text (what a     *)
(* symbolic link contains).  The status record a directive uses is that of *)
(* the node the follow mode selects (eff).                                 *)
(*                                                                         *)
(* Out of the property's domain (Dom... = FALSE): flags other than '-',    *)
(* unknown directives and escapes, \c, octal escapes that are not exactly  *)
(* three digits or exceed 0177, time directives, %Y and %l of links the    *)
(* follow mode resolves, %Y of dangling links, %f/%h of a starting point   *)
(* spelled with a trailing slash, width applied to non-ASCII values, %m    *)
(* of a mode below 0100 (zero padding).                                    *)
(***************************************************************************)
EXTENDS FindWalk

PCT == 37  BSL == 92  MINUSC == 45
IsOct(c) == c \in 48..55
IsDig(c) == c \in 48..57
Directives == {112, 102, 104, 72, 80, 100, 115, 110, 105, 85, 71, 109, 121, 89, 108}   \* p f h H P d s n i U G m y Y l

EscapeChar(c) ==
  CASE c = 97 -> 7 [] c = 98 -> 8 [] c = 102 -> 12 [] c = 110 -> 10 [] c = 114 -> 13
    [] c = 116 -> 9 [] c = 118 -> 11 [] c = 92 -> 92 [] OTHER -> 0

RECURSIVE DigitsVal(_)
DigitsVal(s) == IF s = <<>> THEN 0 ELSE IF Len(s) > 6 THEN 999999 ELSE 10 * DigitsVal(SubSeq(s, 1, Len(s) - 1)) + (s[Len(s)] - 48)

RECURSIVE TakeDigits(_)
TakeDigits(s) == IF s # <<>> /\ IsDig(s[1]) THEN <<s[1]>> \o TakeDigits(Tail(s)) ELSE <<>>

\* Parse: [ok, comps]; ok = FALSE: something the property does not describe (or an error)
Lit(b) == [t |-> "lit", b |-> b]
RECURSIVE ParseFmt(_)
ParseFmt(s) ==
  IF s = <<>> THEN [ok |-> TRUE, comps |-> <<>>]
  ELSE IF s[1] = BSL THEN
       IF Len(s) = 1 THEN [ok |-> FALSE, comps |-> <<>>]
       ELSE IF IsOct(s[2]) THEN
            (IF Len(s) >= 4 /\ IsOct(s[3]) /\ IsOct(s[4])
             THEN LET v == 64 * (s[2] - 48) + 8 * (s[3] - 48) + (s[4] - 48)
                      r == ParseFmt(SubSeq(s, 5, Len(s))) IN
                  [ok |-> r.ok /\ v < 128, comps |-> <<Lit(<<v>>)>> \o r.comps]
             ELSE IF s[2] = 48 /\ (Len(s) = 2 \/ ~IsOct(s[3]))
             THEN LET r == ParseFmt(SubSeq(s, 3, Len(s))) IN [ok |-> r.ok, comps |-> <<Lit(<<0>>)>> \o r.comps]
             ELSE [ok |-> FALSE, comps |-> <<>>])
       ELSE IF s[2] \in {97, 98, 102, 110, 114, 116, 118, 92}
            THEN LET r == ParseFmt(SubSeq(s, 3, Len(s))) IN [ok |-> r.ok, comps |-> <<Lit(<<EscapeChar(s[2])>>)>> \o r.comps]
       ELSE [ok |-> FALSE, comps |-> <<>>]
  ELSE IF s[1] = PCT THEN
       IF Len(s) >= 2 /\ s[2] = PCT
       THEN LET r == ParseFmt(SubSeq(s, 3, Len(s))) IN [ok |-> r.ok, comps |-> <<Lit(<<PCT>>)>> \o r.comps]
       ELSE LET left == Len(s) >= 2 /\ s[2] = MINUSC
                afterFlag == IF left THEN SubSeq(s, 3, Len(s)) ELSE Tail(s)
                w == TakeDigits(afterFlag)
                rest == SubSeq(afterFlag, Len(w) + 1, Len(afterFlag))
            IN IF rest = <<>> \/ rest[1] \notin Directives \/ Len(w) > 6 \/ (w # <<>> /\ w[1] = 48)
               THEN [ok |-> FALSE, comps |-> <<>>]
               ELSE LET r == ParseFmt(Tail(rest)) IN
                    [ok |-> r.ok,
                     comps |-> <<[t |-> "dir", c |-> rest[1], left |-> left, width |-> IF w = <<>> THEN 0 ELSE DigitsVal(w)]>> \o r.comps]
  ELSE LET r == ParseFmt(Tail(s)) IN
       [ok |-> r.ok,
        comps |-> IF r.comps # <<>> /\ r.comps[1].t = "lit" THEN <<Lit(<<s[1]>> \o r.comps[1].b)>> \o Tail(r.comps)
                  ELSE <<Lit(<<s[1]>>)>> \o r.comps]

(***************************************************************************)
(* Attribute values.                                                       *)
(***************************************************************************)
LastSlash(p) == LastIndexOf(p, SLASH)
\* the last component and the part before it; the trailing slash of a starting point belongs to neither
\* ("d/": last component d, nothing before it; "d/s/": s and d)
Basename(p) == LET q == StripSlashes(p) IN SubSeq(q, LastSlash(q) + 1, Len(q))
Dirname(p) == LET q == StripSlashes(p) IN
              IF LastSlash(q) = 0 THEN <<46>> ELSE IF LastSlash(q) = 1 THEN <<SLASH>> ELSE SubSeq(q, 1, LastSlash(q) - 1)
BelowStart(start, p) ==
  IF Len(p) = Len(start) THEN <<>>
  ELSE IF start[Len(start)] = SLASH THEN SubSeq(p, Len(start) + 1, Len(p))
  ELSE SubSeq(p, Len(start) + 2, Len(p))

TypeLetter(kind) == CASE kind = "d" -> 100 [] kind = "f" -> 102 [] kind = "l" -> 108 [] kind = "p" -> 112 [] kind = "s" -> 115

\* ctx = [tree, cfg, start]; e = entry of the walk
Value(ctx, e, c) ==
  LET nd == ctx.tree[e.node]
      st == ctx.tree[e.eff]
  IN
  CASE c = 112 -> e.path
    [] c = 102 -> Basename(e.path)
    [] c = 104 -> Dirname(e.path)
    [] c = 72 -> ctx.start
    [] c = 80 -> BelowStart(ctx.start, e.path)
    [] c = 100 -> ToDigits(e.depth)
    [] c = 115 -> ToDigits(st.size)
    [] c = 110 -> ToDigits(st.nlink)
    [] c = 105 -> ToDigits(st.ino)
    [] c = 85 -> ToDigits(st.uid)
    [] c = 71 -> ToDigits(st.gid)
    [] c = 109 -> ToOctal(st.mode)
    [] c = 121 -> <<TypeLetter(st.kind)>>
    [] c = 89 -> IF nd.kind = "l" THEN <<TypeLetter(ctx.tree[nd.target].kind)>> ELSE <<TypeLetter(nd.kind)>>
    [] c = 108 -> IF nd.kind = "l" THEN nd.text ELSE <<>>

\* is the directive's value fixed by the property for this entry?
DirDom(ctx, e, comp) ==
  LET nd == ctx.tree[e.node]
      followed == Follows(ctx.cfg, e.depth)
      c == comp.c
  IN
  /\ (c \in {102, 104} => e.path # <<SLASH>>)
  \* with repeated slashes "the last component" / "the part before it" are not definite strings
  /\ (c \in {102, 104} => ~\E i \in 1..(Len(e.path) - 1) : e.path[i] = SLASH /\ e.path[i + 1] = SLASH)
  /\ (c = 89 => (nd.kind # "l" \/ (~followed /\ nd.target # 0)))
  /\ (c = 108 => (nd.kind # "l" \/ ~followed))
  \* %m: whether a mode below 0100 is padded to three digits is not said ("7" / "007")
  /\ (c = 109 => ctx.tree[e.eff].mode >= 64)
  /\ (comp.width > 0 => \A i \in DOMAIN Value(ctx, e, c) : Value(ctx, e, c)[i] < 128)

Blanks(n) == IF n <= 0 THEN <<>> ELSE [k \in 1..n |-> 32]        \* (not recursive: columns may be hundreds of thousands wide)
Pad(v, width, left) == IF left THEN v \o Blanks(width - Len(v)) ELSE Blanks(width - Len(v)) \o v

RenderComp(ctx, e, comp) ==
  IF comp.t = "lit" THEN comp.b ELSE Pad(Value(ctx, e, comp.c), comp.width, comp.left)
RenderEntry(ctx, e, comps) == Flatten([k \in DOMAIN comps |-> RenderComp(ctx, e, comps[k])])
EntryDom(ctx, e, comps) == \A k \in DOMAIN comps : comps[k].t = "dir" => DirDom(ctx, e, comps[k])

\* a whole run: one starting point after the other, entries in the order of the reference walk
RootRun(tree, cfg, root, comps) ==
  LET ctx == [tree |-> tree, cfg |-> cfg, start |-> root.spell]
      w == IF root.node = 0 THEN <<>> ELSE Walk(tree, cfg, root.spell, root.node, 0, {}).ents
      dom == \A k \in DOMAIN w : EntryDom(ctx, w[k], comps)
  IN [dom |-> dom, out |-> IF dom THEN Flatten([k \in DOMAIN w |-> RenderEntry(ctx, w[k], comps)]) ELSE <<>>]
PrintfRun(tree, cfg, roots, comps) ==
  LET per == [r \in DOMAIN roots |-> RootRun(tree, cfg, roots[r], comps)] IN
  [out |-> Flatten([r \in DOMAIN roots |-> per[r].out]), dom |-> \A r \in DOMAIN roots : per[r].dom]
=============================================================================
