---------------------------- MODULE NumericLaws ----------------------------
(***************************************************************************)
(* The laws of property C14 for ALL operands and ALL sizes (TLAPS), where  *)
(* MC_Num evaluates them on a bounded grid: N / +N / -N are read           *)
(* uniformly (exactly one of the three holds, +N and -N are monotone), and *)
(* -size measures in whole units, rounding up - for each of find's units.  *)
(* The definitions repeat spec/Numeric.tla on plain integers.              *)
(* Checked with: tlapm --threads 6 NumericLaws.tla   (SMT back end)        *)
(***************************************************************************)
EXTENDS Integers, TLAPS

Eq(n, v) == v = n
Gt(n, v) == v > n
Lt(n, v) == v < n

\* the measured value of a file of b bytes in units of u bytes (Numeric!SizeMeasure, [bytes |-> b])
Measure(b, u) == IF b = 0 THEN 0 ELSE ((b - 1) \div u) + 1

THEOREM Trichotomy ==
  \A n \in Nat, v \in Int :
     /\ Eq(n, v) \/ Gt(n, v) \/ Lt(n, v)
     /\ ~(Eq(n, v) /\ Gt(n, v)) /\ ~(Eq(n, v) /\ Lt(n, v)) /\ ~(Gt(n, v) /\ Lt(n, v))
  BY SMT DEF Eq, Gt, Lt

THEOREM Monotone ==
  \A n \in Nat, v \in Int :
     /\ Gt(n + 1, v) => Gt(n, v)
     /\ Lt(n, v) => Lt(n + 1, v)
  BY SMT DEF Gt, Lt

THEOREM Bytes == \A b \in Nat : Measure(b, 1) = b
  BY SMT DEF Measure

\* unit of 2 bytes: k whole units measure k; one byte more measures k + 1; one byte less still measures k
THEOREM RoundUp2 ==
  \A k \in Nat :
     /\ Measure(k * 2, 2) = k
     /\ Measure(k * 2 + 1, 2) = k + 1
     /\ (k >= 1 => Measure(k * 2 - 1, 2) = k)
<1> TAKE k \in Nat
<1>1. Measure(k * 2, 2) = k
  <2>1. CASE k = 0 BY <2>1, SMT DEF Measure
  <2>2. CASE k >= 1
    <3>1. k * 2 - 1 = (k - 1) * 2 + 1 BY <2>2, SMT
    <3>2. ((k - 1) * 2 + 1) \div 2 = k - 1 BY <2>2, SMT
    <3> QED BY <2>2, <3>1, <3>2, SMT DEF Measure
  <2> QED BY <2>1, <2>2, SMT
<1>2. Measure(k * 2 + 1, 2) = k + 1
  <2>1. (k * 2) \div 2 = k BY SMT
  <2> QED BY <2>1, SMT DEF Measure
<1>3. k >= 1 => Measure(k * 2 - 1, 2) = k
  <2> SUFFICES ASSUME k >= 1 PROVE Measure(k * 2 - 1, 2) = k OBVIOUS
  <2>1. k * 2 - 2 = (k - 1) * 2 + 0 BY SMT
  <2>2. ((k - 1) * 2 + 0) \div 2 = k - 1 BY SMT
  <2>3. k * 2 - 1 # 0 BY SMT
  <2> QED BY <2>1, <2>2, <2>3, SMT DEF Measure
<1> QED BY <1>1, <1>2, <1>3

\* unit of 512 bytes: k whole units measure k; one byte more measures k + 1; one byte less still measures k
THEOREM RoundUp512 ==
  \A k \in Nat :
     /\ Measure(k * 512, 512) = k
     /\ Measure(k * 512 + 1, 512) = k + 1
     /\ (k >= 1 => Measure(k * 512 - 1, 512) = k)
<1> TAKE k \in Nat
<1>1. Measure(k * 512, 512) = k
  <2>1. CASE k = 0 BY <2>1, SMT DEF Measure
  <2>2. CASE k >= 1
    <3>1. k * 512 - 1 = (k - 1) * 512 + 511 BY <2>2, SMT
    <3>2. ((k - 1) * 512 + 511) \div 512 = k - 1 BY <2>2, SMT
    <3> QED BY <2>2, <3>1, <3>2, SMT DEF Measure
  <2> QED BY <2>1, <2>2, SMT
<1>2. Measure(k * 512 + 1, 512) = k + 1
  <2>1. (k * 512) \div 512 = k BY SMT
  <2> QED BY <2>1, SMT DEF Measure
<1>3. k >= 1 => Measure(k * 512 - 1, 512) = k
  <2> SUFFICES ASSUME k >= 1 PROVE Measure(k * 512 - 1, 512) = k OBVIOUS
  <2>1. k * 512 - 2 = (k - 1) * 512 + 510 BY SMT
  <2>2. ((k - 1) * 512 + 510) \div 512 = k - 1 BY SMT
  <2>3. k * 512 - 1 # 0 BY SMT
  <2> QED BY <2>1, <2>2, <2>3, SMT DEF Measure
<1> QED BY <1>1, <1>2, <1>3

\* unit of 1024 bytes: k whole units measure k; one byte more measures k + 1; one byte less still measures k
THEOREM RoundUp1024 ==
  \A k \in Nat :
     /\ Measure(k * 1024, 1024) = k
     /\ Measure(k * 1024 + 1, 1024) = k + 1
     /\ (k >= 1 => Measure(k * 1024 - 1, 1024) = k)
<1> TAKE k \in Nat
<1>1. Measure(k * 1024, 1024) = k
  <2>1. CASE k = 0 BY <2>1, SMT DEF Measure
  <2>2. CASE k >= 1
    <3>1. k * 1024 - 1 = (k - 1) * 1024 + 1023 BY <2>2, SMT
    <3>2. ((k - 1) * 1024 + 1023) \div 1024 = k - 1 BY <2>2, SMT
    <3> QED BY <2>2, <3>1, <3>2, SMT DEF Measure
  <2> QED BY <2>1, <2>2, SMT
<1>2. Measure(k * 1024 + 1, 1024) = k + 1
  <2>1. (k * 1024) \div 1024 = k BY SMT
  <2> QED BY <2>1, SMT DEF Measure
<1>3. k >= 1 => Measure(k * 1024 - 1, 1024) = k
  <2> SUFFICES ASSUME k >= 1 PROVE Measure(k * 1024 - 1, 1024) = k OBVIOUS
  <2>1. k * 1024 - 2 = (k - 1) * 1024 + 1022 BY SMT
  <2>2. ((k - 1) * 1024 + 1022) \div 1024 = k - 1 BY SMT
  <2>3. k * 1024 - 1 # 0 BY SMT
  <2> QED BY <2>1, <2>2, <2>3, SMT DEF Measure
<1> QED BY <1>1, <1>2, <1>3

\* unit of 1048576 bytes: k whole units measure k; one byte more measures k + 1; one byte less still measures k
THEOREM RoundUpM ==
  \A k \in Nat :
     /\ Measure(k * 1048576, 1048576) = k
     /\ Measure(k * 1048576 + 1, 1048576) = k + 1
     /\ (k >= 1 => Measure(k * 1048576 - 1, 1048576) = k)
<1> TAKE k \in Nat
<1>1. Measure(k * 1048576, 1048576) = k
  <2>1. CASE k = 0 BY <2>1, SMT DEF Measure
  <2>2. CASE k >= 1
    <3>1. k * 1048576 - 1 = (k - 1) * 1048576 + 1048575 BY <2>2, SMT
    <3>2. ((k - 1) * 1048576 + 1048575) \div 1048576 = k - 1 BY <2>2, SMT
    <3> QED BY <2>2, <3>1, <3>2, SMT DEF Measure
  <2> QED BY <2>1, <2>2, SMT
<1>2. Measure(k * 1048576 + 1, 1048576) = k + 1
  <2>1. (k * 1048576) \div 1048576 = k BY SMT
  <2> QED BY <2>1, SMT DEF Measure
<1>3. k >= 1 => Measure(k * 1048576 - 1, 1048576) = k
  <2> SUFFICES ASSUME k >= 1 PROVE Measure(k * 1048576 - 1, 1048576) = k OBVIOUS
  <2>1. k * 1048576 - 2 = (k - 1) * 1048576 + 1048574 BY SMT
  <2>2. ((k - 1) * 1048576 + 1048574) \div 1048576 = k - 1 BY SMT
  <2>3. k * 1048576 - 1 # 0 BY SMT
  <2> QED BY <2>1, <2>2, <2>3, SMT DEF Measure
<1> QED BY <1>1, <1>2, <1>3

\* unit of 1073741824 bytes: k whole units measure k; one byte more measures k + 1; one byte less still measures k
THEOREM RoundUpG ==
  \A k \in Nat :
     /\ Measure(k * 1073741824, 1073741824) = k
     /\ Measure(k * 1073741824 + 1, 1073741824) = k + 1
     /\ (k >= 1 => Measure(k * 1073741824 - 1, 1073741824) = k)
<1> TAKE k \in Nat
<1>1. Measure(k * 1073741824, 1073741824) = k
  <2>1. CASE k = 0 BY <2>1, SMT DEF Measure
  <2>2. CASE k >= 1
    <3>1. k * 1073741824 - 1 = (k - 1) * 1073741824 + 1073741823 BY <2>2, SMT
    <3>2. ((k - 1) * 1073741824 + 1073741823) \div 1073741824 = k - 1 BY <2>2, SMT
    <3> QED BY <2>2, <3>1, <3>2, SMT DEF Measure
  <2> QED BY <2>1, <2>2, SMT
<1>2. Measure(k * 1073741824 + 1, 1073741824) = k + 1
  <2>1. (k * 1073741824) \div 1073741824 = k BY SMT
  <2> QED BY <2>1, SMT DEF Measure
<1>3. k >= 1 => Measure(k * 1073741824 - 1, 1073741824) = k
  <2> SUFFICES ASSUME k >= 1 PROVE Measure(k * 1073741824 - 1, 1073741824) = k OBVIOUS
  <2>1. k * 1073741824 - 2 = (k - 1) * 1073741824 + 1073741822 BY SMT
  <2>2. ((k - 1) * 1073741824 + 1073741822) \div 1073741824 = k - 1 BY SMT
  <2>3. k * 1073741824 - 1 # 0 BY SMT
  <2> QED BY <2>1, <2>2, <2>3, SMT DEF Measure
<1> QED BY <1>1, <1>2, <1>3

\* "-size -1<unit> matches only empty files" and "-size 1M matches sizes 1 .. 2^20"
THEOREM EmptyOnly ==
  \A b \in Nat : (Lt(1, Measure(b, 1024)) <=> b = 0) /\ (Lt(1, Measure(b, 512)) <=> b = 0) /\ (Lt(1, Measure(b, 1048576)) <=> b = 0)
<1> TAKE b \in Nat
<1>1. CASE b = 0 BY <1>1, SMT DEF Measure, Lt
<1>2. CASE b >= 1
  <2>1. (b - 1) \div 1024 >= 0 /\ (b - 1) \div 512 >= 0 /\ (b - 1) \div 1048576 >= 0 BY <1>2, SMT
  <2> QED BY <1>2, <2>1, SMT DEF Measure, Lt
<1> QED BY <1>1, <1>2, SMT

THEOREM OneMeg == \A b \in Nat : Eq(1, Measure(b, 1048576)) <=> (1 <= b /\ b <= 1048576)
<1> TAKE b \in Nat
<1>1. CASE b = 0 BY <1>1, SMT DEF Measure, Eq
<1>2. CASE b >= 1
  <2>1. ((b - 1) \div 1048576 = 0) <=> (b - 1 < 1048576) BY <1>2, SMT
  <2> QED BY <1>2, <2>1, SMT DEF Measure, Eq
<1> QED BY <1>1, <1>2, SMT
=============================================================================
