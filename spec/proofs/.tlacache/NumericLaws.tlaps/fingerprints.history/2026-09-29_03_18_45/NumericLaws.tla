---------------------------- MODULE NumericLaws ----------------------------
(***************************************************************************)
(* The laws of property C14 for ALL operands and ALL sizes (TLAPS), where  *)
(* MC_Num evaluates them on a bounded grid: N / +N / -N are read           *)
(* uniformly (exactly one of the three holds, +N and -N are monotone), and *)
(* -size measures in whole units, rounding up - for each of find's units.  *)
(* The definitions repeat spec/Numeric.tla on plain integers.              *)
(***************************************************************************)
EXTENDS Integers, TLAPS

Eq(n, v) == v = n
Gt(n, v) == v > n
Lt(n, v) == v < n

\* the measured value of a file of b bytes in units of u bytes (Numeric!SizeMeasure, [bytes |-> b])
Measure(b, u) == IF b = 0 THEN 0 ELSE ((b - 1) \div u) + 1

UnitSizes == {1, 2, 512, 1024, 1048576, 1073741824}

THEOREM Trichotomy ==
  \A n \in Nat, v \in Int :
     /\ Eq(n, v) \/ Gt(n, v) \/ Lt(n, v)
     /\ ~(Eq(n, v) /\ Gt(n, v)) /\ ~(Eq(n, v) /\ Lt(n, v)) /\ ~(Gt(n, v) /\ Lt(n, v))
  BY DEF Eq, Gt, Lt

THEOREM Monotone ==
  \A n \in Nat, v \in Int :
     /\ Gt(n + 1, v) => Gt(n, v)
     /\ Lt(n, v) => Lt(n + 1, v)
  BY DEF Gt, Lt

\* k whole units measure k; one byte more measures k + 1; one byte less still measures k (units above one byte)
THEOREM RoundUp512 ==
  \A k \in Nat :
     /\ Measure(k * 512, 512) = k
     /\ Measure(k * 512 + 1, 512) = k + 1
     /\ (k >= 1 => Measure(k * 512 - 1, 512) = k)
  BY DEF Measure

THEOREM RoundUp2 ==
  \A k \in Nat :
     /\ Measure(k * 2, 2) = k
     /\ Measure(k * 2 + 1, 2) = k + 1
     /\ (k >= 1 => Measure(k * 2 - 1, 2) = k)
  BY DEF Measure

THEOREM RoundUp1024 ==
  \A k \in Nat :
     /\ Measure(k * 1024, 1024) = k
     /\ Measure(k * 1024 + 1, 1024) = k + 1
     /\ (k >= 1 => Measure(k * 1024 - 1, 1024) = k)
  BY DEF Measure

THEOREM RoundUpM ==
  \A k \in Nat :
     /\ Measure(k * 1048576, 1048576) = k
     /\ Measure(k * 1048576 + 1, 1048576) = k + 1
     /\ (k >= 1 => Measure(k * 1048576 - 1, 1048576) = k)
  BY DEF Measure

THEOREM RoundUpG ==
  \A k \in Nat :
     /\ Measure(k * 1073741824, 1073741824) = k
     /\ Measure(k * 1073741824 + 1, 1073741824) = k + 1
     /\ (k >= 1 => Measure(k * 1073741824 - 1, 1073741824) = k)
  BY DEF Measure

THEOREM Bytes == \A b \in Nat : Measure(b, 1) = b
  BY DEF Measure

\* "-size -1<unit> matches only empty files" and "-size 1M matches sizes 1 .. 2^20"
THEOREM EmptyOnly ==
  \A b \in Nat : (Lt(1, Measure(b, 1024)) <=> b = 0) /\ (Lt(1, Measure(b, 512)) <=> b = 0) /\ (Lt(1, Measure(b, 1048576)) <=> b = 0)
  BY DEF Measure, Lt

THEOREM OneMeg == \A b \in Nat : Eq(1, Measure(b, 1048576)) <=> (1 <= b /\ b <= 1048576)
  BY DEF Measure, Eq
=============================================================================
