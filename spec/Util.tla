------------------------------- MODULE Util -------------------------------
(***************************************************************************)
(* Helpers shared by all findutils specification modules.                  *)
(* Byte strings are sequences of naturals 0..255; the conformance harness  *)
(* converts between real byte strings and this representation.             *)
(***************************************************************************)
EXTENDS Naturals, Integers, Sequences, FiniteSets

MaxOf(a, b) == IF a >= b THEN a ELSE b
MinOf(a, b) == IF a <= b THEN a ELSE b

RangeOf(s) == {s[i] : i \in DOMAIN s}

\* Concatenate a sequence of sequences.
RECURSIVE Flatten(_)
Flatten(ss) == IF ss = <<>> THEN <<>> ELSE Head(ss) \o Flatten(Tail(ss))

\* Join a sequence of sequences with separator sequence sep.
RECURSIVE Join(_, _)
Join(ss, sep) ==
  IF ss = <<>> THEN <<>>
  ELSE IF Len(ss) = 1 THEN ss[1]
  ELSE ss[1] \o sep \o Join(Tail(ss), sep)

\* Sum of a sequence of naturals.
RECURSIVE SumSeq(_)
SumSeq(s) == IF s = <<>> THEN 0 ELSE Head(s) + SumSeq(Tail(s))

IsPrefixOf(p, s) == Len(p) <= Len(s) /\ SubSeq(s, 1, Len(p)) = p
IsSuffixOf(p, s) == Len(p) <= Len(s) /\ SubSeq(s, Len(s) - Len(p) + 1, Len(s)) = p

\* Lexicographic byte-wise order on sequences of naturals (strict).
RECURSIVE LexLess(_, _)
LexLess(a, b) ==
  IF a = <<>> THEN b # <<>>
  ELSE IF b = <<>> THEN FALSE
  ELSE IF Head(a) < Head(b) THEN TRUE
  ELSE IF Head(a) > Head(b) THEN FALSE
  ELSE LexLess(Tail(a), Tail(b))

\* Sorting: use SortSeq(s, Less) from the standard TLC module.

\* Decimal digits (as bytes) of a natural number.
RECURSIVE ToDigits(_)
ToDigits(n) == IF n < 10 THEN <<48 + n>> ELSE ToDigits(n \div 10) \o <<48 + (n % 10)>>

\* Octal digits (as bytes) of a natural number.
RECURSIVE ToOctal(_)
ToOctal(n) == IF n < 8 THEN <<48 + n>> ELSE ToOctal(n \div 8) \o <<48 + (n % 8)>>

\* All sequences over S of length exactly n / at most n.
SeqsOfLen(S, n) == [1..n -> S]
SeqsUpTo(S, n) == UNION {[1..k -> S] : k \in 0..n}

\* Filtering: SelectSeq(s, Test) from Sequences.
FilterSeq(s, Test(_)) == SelectSeq(s, Test)
CountIf(s, Test(_)) == Len(SelectSeq(s, Test))

\* Index of the last occurrence of x in s, 0 if none.
RECURSIVE LastIndexOf(_, _)
LastIndexOf(s, x) ==
  IF s = <<>> THEN 0
  ELSE IF s[Len(s)] = x THEN Len(s)
  ELSE LastIndexOf(SubSeq(s, 1, Len(s) - 1), x)

\* Replace every (non-overlapping, leftmost) occurrence of pat in s by rep. pat # <<>>.
RECURSIVE ReplaceSub(_, _, _)
ReplaceSub(s, pat, rep) ==
  IF Len(s) < Len(pat) THEN s
  ELSE IF SubSeq(s, 1, Len(pat)) = pat
       THEN rep \o ReplaceSub(SubSeq(s, Len(pat) + 1, Len(s)), pat, rep)
       ELSE <<Head(s)>> \o ReplaceSub(Tail(s), pat, rep)

\* UTF-8 encoding of a sequence of code points (up to U+FFFF)
Utf8One(c) ==
  IF c < 128 THEN <<c>>
  ELSE IF c < 2048 THEN <<192 + (c \div 64), 128 + (c % 64)>>
  ELSE <<224 + (c \div 4096), 128 + ((c \div 64) % 64), 128 + (c % 64)>>
Utf8(cps) == Flatten([i \in DOMAIN cps |-> Utf8One(cps[i])])

\* Decoding (valid UTF-8 assumed; a stray byte is kept as it is)
RECURSIVE Utf8Decode(_)
Utf8Decode(b) ==
  IF b = <<>> THEN <<>>
  ELSE LET c == b[1] IN
    IF c >= 240 /\ Len(b) >= 4 THEN <<(c - 240) * 262144 + (b[2] - 128) * 4096 + (b[3] - 128) * 64 + (b[4] - 128)>> \o Utf8Decode(SubSeq(b, 5, Len(b)))
    ELSE IF c >= 224 /\ Len(b) >= 3 THEN <<(c - 224) * 4096 + (b[2] - 128) * 64 + (b[3] - 128)>> \o Utf8Decode(SubSeq(b, 4, Len(b)))
    ELSE IF c >= 192 /\ Len(b) >= 2 THEN <<(c - 192) * 64 + (b[2] - 128)>> \o Utf8Decode(SubSeq(b, 3, Len(b)))
    ELSE <<c>> \o Utf8Decode(Tail(b))

=============================================================================
