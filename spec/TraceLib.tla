------------------------------ MODULE TraceLib ------------------------------
(* Reading a recorded trace: one JSON object per line in the file named by  *)
(* the environment variable TRACE.                                          *)
EXTENDS Naturals, Sequences, TLC, Json, IOUtils

Rec == ndJsonDeserialize(IOEnv.TRACE)

VARIABLE l   \* index of the next trace line to be consumed
=============================================================================
