-------------------------------- MODULE Time --------------------------------
(***************************************************************************)
(* find's time tests (property C15).  A timestamp is <<sec, nsec>>.        *)
(* 'now' is fixed when find starts.                                        *)
(*  -mtime/-atime/-ctime N  compare N with the number of complete 24-hour  *)
(*      periods in (now - timestamp), fraction discarded;                  *)
(*  -mmin/-amin/-cmin N     the same with complete minutes;                *)
(*  -newer F                entry.m > F.m, strictly, at full resolution;   *)
(*  -newerXY F              entry.X > F.Y (-anewer = am, -cnewer = cm).    *)
(* Stated for ages >= 0.                                                   *)
(***************************************************************************)
EXTENDS Numeric

Later(t, u) == t[1] > u[1] \/ (t[1] = u[1] /\ t[2] > u[2])      \* t strictly later than u
NotEarlier(t, u) == ~Later(u, t)

\* whole seconds in (now - t), for now >= t
WholeSeconds(now, t) == IF now[2] >= t[2] THEN now[1] - t[1] ELSE now[1] - t[1] - 1
Period(unit) == IF unit = "day" THEN 86400 ELSE 60
Periods(now, t, unit) == WholeSeconds(now, t) \div Period(unit)

\* does the age test select the entry?  ent = [a |-> ts, m |-> ts, c |-> ts]
AgeTest(kind, unit, form, n, now, ent) == Cmp(form, n, Periods(now, ent[kind], unit))
AgeInDomain(kind, now, ent) == NotEarlier(now, ent[kind])

NewerTest(x, y, ent, ref) == Later(ent[x], ref[y])

\* The reference file F of -newer / -newerXY when it is a symbolic link: the file it points to iff -H or -L is in
\* effect and the link is not dangling, the link itself otherwise (mode "Ld": -L with a dangling link).
RefRecord(mode, linkRec, targetRec) == IF mode \in {"H", "L"} THEN targetRec ELSE linkRec
=============================================================================
