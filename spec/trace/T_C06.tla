------------------------------- MODULE T_C06 -------------------------------
(* Trace validation for C06.  "run" records: the real xargs -0 with the     *)
(* recorder in summary mode under a given stack limit and environment;      *)
(* "probe" records: one direct execve of the recorder near the boundary of  *)
(* the kernel model (calibration of the model, not a judgement of xargs).   *)
EXTENDS TraceLib, Util

PTR == 8  ARGMIN == 131072  STKCAP == 6291456  STRMAX == 131072
K == INSTANCE KernelExec

Rlim(in) == IF in.rlim = 0 THEN 2000000000 ELSE in.rlim
\* with -I the argument handed to exec is the initial argument after the substitution: a prefix and the item, `times` times
HasRepl(in) == "repl" \in DOMAIN in
ArgLen(in, len) == IF HasRepl(in) THEN in.repl.pre + in.repl.times * len ELSE len
TooLong(in) == \E g \in DOMAIN in.groups : in.groups[g].count > 0 /\ ArgLen(in, in.groups[g].len) + 1 > STRMAX
EnvCost(in) == in.env.count * (in.env.size + 9 + PTR)
\* the fixed initial arguments are part of every command line
InitCost(in) == IF "init" \in DOMAIN in THEN in.init.count * (in.init.len + 1 + PTR) ELSE 0
CmdPath(in) == IF "cmdpath" \in DOMAIN in THEN 2 * in.cmdpath.len ELSE 0
MaybeUnfit(in) == \E g \in DOMAIN in.groups : in.groups[g].count > 0 /\ ArgLen(in, in.groups[g].len) + CmdPath(in) + 20000 + EnvCost(in) + InitCost(in) > K!KLimit(Rlim(in))
Total(in) == SumSeq([g \in DOMAIN in.groups |-> in.groups[g].count])

\* the harness could not even start xargs with this environment under this stack limit: nothing to judge
\* ... and an argument that the user's own -s excludes is C04's business (exit status 1 by that rule)
SLimit(in) == IF Len(in.opts) = 2 /\ in.opts[1] = "-s" /\ in.opts[2] = "100000" THEN 100000 ELSE 0
InDomain(in, obs) ==
  /\ "nospawn" \notin DOMAIN obs
  /\ (in.mode = "run" /\ SLimit(in) > 0) => \A g \in DOMAIN in.groups : in.groups[g].len + 1000 + InitCost(in) < SLimit(in)

Margin == 8192
Conforms(in, obs) ==
  IF in.mode = "probe"
  THEN \* the kernel accepts what the model accepts with room to spare and refuses what exceeds it clearly
       /\ K!Accepts([obs.x EXCEPT !.argbytes = @ + Margin], Rlim(in)) => obs.ok
       /\ (obs.x.argbytes > Margin /\ ~K!Accepts([obs.x EXCEPT !.argbytes = @ - Margin], Rlim(in))) => ~obs.ok
  ELSE /\ "panic" \notin DOMAIN obs
       /\ ~obs.e2big                                          \* no invocation was refused by the operating system
       /\ \A j \in DOMAIN obs.execs : obs.execs[j].maxarg + 1 <= STRMAX      \* an over-long argument is never handed to exec
       /\ IF TooLong(in)
          THEN obs.exit = 1 /\ obs.order_ok                   \* reported as such; what was run before it is intact
          ELSE IF MaybeUnfit(in)
          THEN \* a single argument about as large as everything the kernel grants under this stack limit and
               \* environment: delivered, or reported as too large - never handed to exec to fail there
               (obs.exit = 0 /\ obs.delivered = Total(in) /\ obs.order_ok) \/ (obs.exit = 1 /\ obs.order_ok)
          ELSE obs.exit = 0 /\ obs.delivered = Total(in) /\ obs.order_ok      \* every argument delivered exactly once, in order

Describe(in) == [toolong |-> IF in.mode = "probe" THEN FALSE ELSE TooLong(in)]
Beyond(in) == FALSE
INSTANCE TraceCheck
=============================================================================
