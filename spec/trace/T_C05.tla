------------------------------- MODULE T_C05 -------------------------------
(* Trace validation for C05: every line of the trace is one run of the real *)
(* readers (through the cfg(findutils_verif) hook) over a caller-chunked     *)
(* stream: {"in": {bytes, delim, chunks}, "obs": {err, toks}}.  The chunking *)
(* is in the record but the specification does not look at it: the answer    *)
(* must be RefRead(bytes, delim) whatever the chunking was.                  *)
EXTENDS XargsRead, TraceLib

Expected(in) == RefRead(in.bytes, in.delim)

InDomain(in, obs) == Expected(in).dom

Conforms(in, obs) ==
  LET e == Expected(in) IN
  /\ "panic" \notin DOMAIN obs
  /\ obs.err = e.err
  /\ (~e.err => obs.toks = e.toks)

Describe(in) == [err |-> Expected(in).err, toks |-> Expected(in).toks]

Beyond(in) == FALSE
INSTANCE TraceCheck
=============================================================================
