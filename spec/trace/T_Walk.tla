------------------------------- MODULE T_Walk -------------------------------
(* Trace validation for C02 / C03 / C18: each line is one in-process run of  *)
(* find on a materialised tree: {"in": {tree, roots, cfg, ...},              *)
(* "obs": {paths, exit, diag}}.                                              *)
EXTENDS FindWalk, TraceLib

CfgOf(in) == [mode |-> in.cfg.mode, min |-> in.cfg.min, max |-> in.cfg.max,
              depth |-> in.cfg.depth, sorted |-> in.cfg.sorted, prune |-> RangeOf(in.cfg.prune),
              xdev |-> "xdev" \in DOMAIN in.cfg /\ in.cfg.xdev]

Ref(in) == WalkRoots(in.tree, CfgOf(in), in.roots)

InDomain(in, obs) == "nomount" \notin DOMAIN obs     \* (the sandbox did not let the harness mount a file system)

Conforms(in, obs) ==
  LET cfg == CfgOf(in)
      ref == Ref(in) IN
  /\ "panic" \notin DOMAIN obs
  /\ IF cfg.sorted \/ Len(in.roots) > 1
     THEN (IF cfg.sorted THEN obs.paths = Paths(ref.ents) ELSE SameMultiset(obs.paths, Paths(ref.ents)))
     ELSE WalkAccepts(in.tree, cfg, in.roots, obs.paths)
  \* an error (missing starting point, cycle) gives a diagnostic and a non-zero status,
  \* and only an error does
  /\ (ref.errs > 0 => obs.exit # 0)
  /\ (ref.errs = 0 /\ EmptyNames(in.roots) = {} => obs.exit = 0)
  /\ (ref.errs > 0 \/ EmptyNames(in.roots) # {} => obs.diag)
  \* an empty operand on the command line is a starting point that cannot be examined (in a -files0-from list it is
  \* diagnosed and skipped; the exit status is not fixed there)
  /\ (EmptyNames(in.roots) # {} /\ ~("files0" \in DOMAIN in /\ in.files0) => obs.exit # 0)
  \* nothing at all when mindepth > maxdepth
  /\ (cfg.min > cfg.max => obs.paths = <<>>)

Describe(in) == [paths |-> Paths(Ref(in).ents), errs |-> Ref(in).errs]

Beyond(in) == FALSE
INSTANCE TraceCheck
=============================================================================
