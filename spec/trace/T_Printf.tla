------------------------------ MODULE T_Printf ------------------------------
(* Trace validation for C16: {"in": {tree, roots, cfg, fmt}, "obs": {out,    *)
(* exit, attrs}} - attrs are the status fields of every node as read back by *)
(* the harness (lstat / readlink) after building the tree.                   *)
EXTENDS Printf, TraceLib

CfgOf(in) == [mode |-> in.cfg.mode, min |-> in.cfg.min, max |-> in.cfg.max,
              depth |-> in.cfg.depth, sorted |-> TRUE, prune |-> {}]
TreeOf(in, obs) ==
  [i \in DOMAIN in.tree |->
     [parent |-> in.tree[i].parent, name |-> in.tree[i].name, kind |-> in.tree[i].kind, target |-> in.tree[i].target,
      size |-> obs.attrs[i].size, mode |-> obs.attrs[i].mode, uid |-> obs.attrs[i].uid, gid |-> obs.attrs[i].gid,
      nlink |-> obs.attrs[i].nlink, ino |-> obs.attrs[i].ino, text |-> obs.attrs[i].text]]

Parsed(in) == ParseFmt(Utf8(in.fmt))
Measured(obs) == "panic" \notin DOMAIN obs /\ \A i \in DOMAIN obs.attrs : "missing" \notin DOMAIN obs.attrs[i]
Run(in, obs) == PrintfRun(TreeOf(in, obs), CfgOf(in), in.roots, Parsed(in).comps)
\* judged: formats the property describes, trees without walk errors (cycles, missing starting points),
\* and directives whose value the property fixes for every entry visited (that needs the measured attributes)
InDomain(in, obs) ==
  /\ Parsed(in).ok
  /\ WalkRoots(in.tree, CfgOf(in), in.roots).errs = 0
  /\ EmptyNames(in.roots) = {}
  /\ (Measured(obs) => Run(in, obs).dom)

Conforms(in, obs) == Measured(obs) /\ obs.exit = 0 /\ obs.out = Run(in, obs).out

Describe(in) == [comps |-> Parsed(in).comps]
Beyond(in) == FALSE
INSTANCE TraceCheck
=============================================================================
