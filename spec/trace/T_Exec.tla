------------------------------- MODULE T_Exec -------------------------------
(* Trace validation for C09 / C08: one run of the find binary with the       *)
(* recorder as its command.  {"in": {mode: "single" | "multi", tree, roots,  *)
(* cfg, pre, template | fixed, execdir, script, quit, nocmd}, "obs": {execs, *)
(* truth, exit}} ("multi": truthn, and truth unless the tree is a bulk one). *)
EXTENDS FindActions, TraceLib

CfgOf(in) == [mode |-> in.cfg.mode, min |-> in.cfg.min, max |-> in.cfg.max,
              depth |-> in.cfg.depth, sorted |-> TRUE, prune |-> {}]

\* "rootdir": find / -maxdepth 0 -exec[dir] CMD {} ; or + - the one entry there is, run once, from the root directory
RootDir(in) == in.mode = "rootdir"
\* "reltool": find d/a d/b d/c -type f ! -name tool -execdir ./tool {} + (or ;) where only d/b has a ./tool: the
\* invocations in d/a and d/c cannot be started, the one(s) in d/b can - with g1 and g2, from d/b
RelTool(in) == in.mode = "reltool"
G1 == <<46, 47, 103, 49>>   G2 == <<46, 47, 103, 50>>   DB == <<100, 47, 98>>
RelToolOK(in, obs) ==
  IF in.plus
  THEN obs.execs = << [argv |-> <<G1, G2>>, cwd |-> DB] >> /\ obs.exit # 0        \* an invocation could not be started
  ELSE obs.execs = << [argv |-> <<G1>>, cwd |-> DB], [argv |-> <<G2>>, cwd |-> DB] >> /\ obs.exit = 0   \* (C09: not find's business)
InDomain(in, obs) ==
  RootDir(in) \/ RelTool(in) \/
  /\ in.cfg.mode = "P"
  /\ WalkRoots(in.tree, CfgOf(in), in.roots).errs = 0
  /\ (in.execdir => ExecdirDom(in.roots))

Conforms(in, obs) ==
  /\ "panic" \notin DOMAIN obs
  /\ IF RelTool(in) THEN RelToolOK(in, obs)
     ELSE IF RootDir(in) THEN
          /\ obs.nexec = 1 /\ obs.exit = 0
          /\ IF "start" \in DOMAIN in /\ in.start # "/"
             THEN \* /usr (also spelled /usr/ or //usr): run from /, as ./usr; without -execdir the path as given
                  IF in.execdir THEN obs.cwd = <<47>> /\ obs.argv = << <<46, 47, 117, 115, 114>> >>
                  ELSE Len(obs.argv) = 1
             ELSE obs.argv = << <<47>> >> /\ (in.execdir => obs.cwd = <<47>>)
     ELSE IF in.mode = "single"
     THEN LET r == SingleExecRun(in.tree, CfgOf(in), in.roots, in.pre, in.template, in.execdir, in.script, in.nocmd) IN
          /\ obs.execs = r.execs /\ obs.truth = r.truth /\ obs.exit = r.exit
          \* "at that point of the evaluation": on the output the command shares with find, its mark (X) stands between
          \* what find printed before the action (B) and after it (T / F), entry by entry
          /\ ("tags" \in DOMAIN obs =>
                obs.tags = Flatten([k \in DOMAIN r.truth |->
                              <<"B">> \o (IF in.nocmd THEN <<>> ELSE <<"X">>) \o <<IF r.truth[k][1] THEN "T" ELSE "F">>]))
     ELSE /\ MultiExecOK(in.tree, CfgOf(in), in.roots, in.pre, in.fixed, in.execdir, in.script, in.quit, in.two, obs.execs, obs.exit)
          /\ MultiTruthOK(in.tree, CfgOf(in), in.roots, in.pre, in.quit, obs.truthn, IF "truth" \in DOMAIN obs THEN obs.truth ELSE <<>>, "truth" \in DOMAIN obs)

Describe(in) == IF RootDir(in) \/ RelTool(in) THEN [nexec |-> 1] ELSE IF in.mode = "single"
                THEN SingleExecRun(in.tree, CfgOf(in), in.roots, in.pre, in.template, in.execdir, in.script, in.nocmd)
                ELSE [reached |-> Paths(Reached(in.tree, CfgOf(in), in.roots, in.pre))]
Beyond(in) == FALSE
INSTANCE TraceCheck
=============================================================================
