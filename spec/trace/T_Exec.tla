------------------------------- MODULE T_Exec -------------------------------
(* Trace validation for C09 / C08: one run of the find binary with the       *)
(* recorder as its command.  {"in": {mode: "single" | "multi", tree, roots,  *)
(* cfg, pre, template | fixed, execdir, script, quit, nocmd}, "obs": {execs, *)
(* truth, exit}}.                                                            *)
EXTENDS FindActions, TraceLib

CfgOf(in) == [mode |-> in.cfg.mode, min |-> in.cfg.min, max |-> in.cfg.max,
              depth |-> in.cfg.depth, sorted |-> TRUE, prune |-> {}]

InDomain(in, obs) ==
  /\ in.cfg.mode = "P"
  /\ WalkRoots(in.tree, CfgOf(in), in.roots).errs = 0
  /\ (in.execdir => ExecdirDom(in.roots))

Conforms(in, obs) ==
  /\ "panic" \notin DOMAIN obs
  /\ IF in.mode = "single"
     THEN LET r == SingleExecRun(in.tree, CfgOf(in), in.roots, in.pre, in.template, in.execdir, in.script, in.nocmd) IN
          obs.execs = r.execs /\ obs.truth = r.truth /\ obs.exit = r.exit
     ELSE MultiExecOK(in.tree, CfgOf(in), in.roots, in.pre, in.fixed, in.execdir, in.script, in.quit, in.two, obs.execs, obs.exit)

Describe(in) == IF in.mode = "single"
                THEN SingleExecRun(in.tree, CfgOf(in), in.roots, in.pre, in.template, in.execdir, in.script, in.nocmd)
                ELSE [reached |-> Paths(Reached(in.tree, CfgOf(in), in.roots, in.pre))]
INSTANCE TraceCheck
=============================================================================
