------------------------------- MODULE T_Regex -------------------------------
(* Trace validation for C17: {"in": {words, ast, syn, pattern, icase, names},  *)
(* "obs": {m}}.  The pattern text was rendered by the harness from the tree;   *)
(* a record is judged only if the specification's own rendering (Concrete)     *)
(* gives the same text and the syntax has every construct of the tree.         *)
EXTENDS Regex, TraceLib

RECURSIVE Norm(_)
Norm(e) ==
  IF e.t = "set" THEN [t |-> "set", cs |-> RangeOf(e.cs), neg |-> e.neg]
  ELSE IF e.t \in {"cat", "alt"} THEN [t |-> e.t, a |-> Norm(e.a), b |-> Norm(e.b)]
  ELSE IF e.t = "rep" THEN [t |-> "rep", a |-> Norm(e.a), lo |-> e.lo, hi |-> e.hi]
  ELSE IF e.t \in {"grp", "star", "plus", "opt"} THEN [t |-> e.t, a |-> Norm(e.a)]
  ELSE e

\* the starting point "r" may be spelled with trailing slashes: the paths are what -print prints
RootSpell(in) == <<114>> \o [i \in 1..(IF "rootslash" \in DOMAIN in THEN in.rootslash ELSE 0) |-> 47]
PathsOf(in) == << RootSpell(in) >> \o [k \in DOMAIN in.names |-> (IF Len(RootSpell(in)) = 1 THEN <<114, 47>> ELSE RootSpell(in)) \o in.names[k]]

InDomain(in, obs) ==
  /\ in.syn = EffectiveType(in.words)
  /\ Supported(Norm(in.ast), in.syn)
  /\ in.pattern = Concrete(Norm(in.ast), in.syn)

Expected(in) == LET e == WithSyntax(Norm(in.ast), in.syn) p == PathsOf(in) IN
                SelectSeq([k \in DOMAIN p |-> k], LAMBDA k : InLang(e, p[k], in.icase))

ExpectedWith(in, ic) == LET e == WithSyntax(Norm(in.ast), in.syn) p == PathsOf(in) IN
                       SelectSeq([k \in DOMAIN p |-> k], LAMBDA k : InLang(e, p[k], ic))
\* -regex P and -iregex P side by side in one expression: each with its own letter-case rule
BothOK(in, obs) == "m1" \in DOMAIN obs => obs.m1 = ExpectedWith(in, in.icase) /\ obs.m2 = ExpectedWith(in, ~in.icase)
Conforms(in, obs) == "panic" \notin DOMAIN obs /\ "exit" \notin DOMAIN obs /\ obs.m = Expected(in) /\ BothOK(in, obs)
Describe(in) == [m |-> Expected(in), m1 |-> ExpectedWith(in, in.icase), m2 |-> ExpectedWith(in, ~in.icase)]

Beyond(in) == FALSE
INSTANCE TraceCheck
=============================================================================
