------------------------------- MODULE T_Pipe -------------------------------
(* Trace validation for C07: find ... -print0 piped into xargs -0 RECORDER.   *)
(* {"in": {tree, roots, cfg, pre}, "obs": {stream, pstream, args, nexec,     *)
(* exit_find, exit_xargs}}.                                                  *)
EXTENDS FindActions, TraceLib

CfgOf(in) == [mode |-> in.cfg.mode, min |-> in.cfg.min, max |-> in.cfg.max,
              depth |-> in.cfg.depth, sorted |-> TRUE, prune |-> {}]
InDomain(in, obs) == WalkRoots(in.tree, CfgOf(in), in.roots).errs = 0

Conforms(in, obs) ==
  LET r == Reached(in.tree, CfgOf(in), in.roots, in.pre) IN
  /\ "panic" \notin DOMAIN obs
  /\ obs.exit_find = 0 /\ obs.exit_xargs = 0
  \* exactly the starting point as given, the '/'-joined names and one NUL per entry - nothing escaped or added
  /\ obs.stream = PrintStream(in.tree, CfgOf(in), in.roots, in.pre, 0)
  /\ obs.pstream = PrintStream(in.tree, CfgOf(in), in.roots, in.pre, 10)
  \* every path reaches the command exactly once, as one unmodified argument, in order
  /\ obs.args = Paths(r)
  /\ (r = <<>> => obs.nexec <= 1)
  \* ... also when each is substituted into a command of its own (xargs -0 -I{} CMD {})
  /\ ("iargs" \in DOMAIN obs => obs.iargs = Paths(r))

Describe(in) == [paths |-> Paths(Reached(in.tree, CfgOf(in), in.roots, in.pre))]
Beyond(in) == FALSE
INSTANCE TraceCheck
=============================================================================
