------------------------------- MODULE T_Stat -------------------------------
(* Trace validation for C13: {"in": {tree, roots, cfg, test}, "obs": {paths, *)
(* exit, attrs, n}} - attrs as read back by the harness, n the operand it     *)
(* derived from a measured value (link count, inode number).                  *)
EXTENDS Stat, TraceLib

CfgOf(in) == [mode |-> in.cfg.mode, min |-> in.cfg.min, max |-> in.cfg.max,
              depth |-> in.cfg.depth, sorted |-> TRUE, prune |-> {}]
TreeOf(in, obs) ==
  [i \in DOMAIN in.tree |->
     [parent |-> in.tree[i].parent, name |-> in.tree[i].name, kind |-> in.tree[i].kind, target |-> in.tree[i].target,
      hl |-> in.tree[i].hl,
      size |-> obs.attrs[i].size, mode |-> obs.attrs[i].mode, uid |-> obs.attrs[i].uid, gid |-> obs.attrs[i].gid,
      nlink |-> obs.attrs[i].nlink, ino |-> obs.attrs[i].ino, text |-> obs.attrs[i].text]]
TestOf(in, obs) ==
  IF "nfrom" \in DOMAIN in.test THEN [p |-> in.test.p, form |-> in.test.form, n |-> obs.n] ELSE in.test

Measured(obs) == "panic" \notin DOMAIN obs /\ \A i \in DOMAIN obs.attrs : "missing" \notin DOMAIN obs.attrs[i]
InDomain(in, obs) ==
  /\ WalkRoots(in.tree, CfgOf(in), in.roots).errs = 0
  /\ EmptyNames(in.roots) = {}
  /\ (Measured(obs) => \A i \in DOMAIN obs.attrs : obs.attrs[i].ino < 2147483647 /\ obs.attrs[i].size < 2147483647)

Exp(in, obs) == Selection(TreeOf(in, obs), CfgOf(in), in.roots, TestOf(in, obs))
Conforms(in, obs) == Measured(obs) /\ obs.exit = 0 /\ obs.paths = Exp(in, obs).paths
Describe(in) == [test |-> in.test]
Beyond(in) == FALSE
INSTANCE TraceCheck
=============================================================================
