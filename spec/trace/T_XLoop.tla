------------------------------- MODULE T_XLoop -------------------------------
(***************************************************************************)
(* Event-level trace validation of the xargs batching loop (properties     *)
(* C04, C06, C19): the real binary, built with the verification hook,      *)
(* logs one event per step of process_input - the limiter counters after   *)
(* every accepted argument, every dispatch, the exit status - and TLC      *)
(* checks that the sequence of events is a behaviour of the                *)
(* implementation-shaped machines XargsBatchImpl (the loop and the limiter *)
(* chain) and XargsExec (the sticky result and the early return), whose    *)
(* refinement of the declarative references is model-checked in MC_C04 /   *)
(* MC_C06 / MC_C19.                                                        *)
(*                                                                         *)
(* A record is one run: {"in": {args: [{len, hard}], n, L, s, cmd, x, r,   *)
(* script}, "obs": {events: [..]}} - in as the harness composed the run    *)
(* (s and cmd in real bytes), events as the code logged them:              *)
(*   Init {counters}      the template builder after the initial arguments *)
(*   Accept {len, hard, counters}   add_arg succeeded                      *)
(*   XFail                the -x rule ended the run                        *)
(*   Exec {n, eof}        the pending command line is dispatched           *)
(*   Retry {len, hard, counters} / TooLarge   the argument that did not    *)
(*                        fit is tried on a fresh builder                  *)
(*   EofSkip              end of input, nothing to run (-r)                *)
(*   Exit {code}                                                           *)
(* Counters: args / lines / chars / sys with max_*; a limiter that is not  *)
(* installed logs nothing.                                                 *)
(***************************************************************************)
EXTENDS XargsBatchImpl, XargsExec, TraceLib

VARIABLES j, phase     \* j: index of the next event of record l; phase: "new" | "run" | "end"
tvars == <<l, j, phase>>

Events == Rec[l].obs.events
Ev == Events[j]
HasEv(e) == l <= Len(Rec) /\ phase = "run" /\ j <= Len(Events) /\ Ev.ev = e
PTRSIZE == 8
K == INSTANCE KernelExec WITH PTR <- 8, ARGMIN <- 131072, STKCAP <- 6291456, STRMAX <- 131072
HEADROOM == 2048
\* what the code may spend on one command line: the C library's ARG_MAX for this stack limit, capped at what the
\* kernel really grants, less the headroom POSIX asks for, the environment (bytes and one pointer per string) and the
\* name of the file executed, which the kernel copies into the same space (the command is given as a path here)
ExpectedMaxSys(real) ==
  LET a == MinOf(K!LibcArgMax(real.rlim), 6291456)  c == HEADROOM + real.envbytes + PTRSIZE * real.envc + real.fname IN
  IF a > c THEN a - c ELSE 0
\* ... and what the command with its initial arguments costs there: bytes, terminators, one pointer per string
ExpectedSysBase(r, real) == real.cmd + PTRSIZE * (r.ninit + 1)

Zeros(n) == [i \in 1..n |-> 0]

\* what the code logged agrees with the machine's counters in the next state
CountersMatch(e) ==
  /\ ("args" \in DOMAIN e => cnt' = e.args /\ e.max_args = in'.n)
  /\ ("lines" \in DOMAIN e => line' = e.lines /\ e.max_lines = in'.L)
  /\ ("chars" \in DOMAIN e => sizeS' = e.chars /\ e.max_chars = in'.s)
  \* (the system limiter is always installed: an event without its counter is not one the machine can follow)
  /\ "sys" \in DOMAIN e /\ "max_sys" \in DOMAIN e
  /\ sizeSys' = e.sys /\ e.max_sys = in'.sys
  /\ (("args" \in DOMAIN e) <=> in'.n > 0) /\ (("lines" \in DOMAIN e) <=> in'.L > 0) /\ (("chars" \in DOMAIN e) <=> in'.s > 0)

\* r: the harness's input (sizes abstract), real: the bytes of the command with its initial arguments, the -s value
\* actually passed, the stack limit and the environment; c: the code's Init event (its counters are checked against
\* the machine's, never taken over)
InputOf(r, real, c) ==
  [args |-> r.args, n |-> r.n, L |-> r.L, s |-> real.s, cmd |-> real.cmd, x |-> r.x, r |-> r.r,
   sys |-> ExpectedMaxSys(real), sysbase |-> ExpectedSysBase(r, real), ptr |-> PTRSIZE, argmax |-> 131072]
  @@ (IF "tmpl" \in DOMAIN r THEN [tmpl |-> r.tmpl, cmd0 |-> real.cmd0] ELSE <<>>)

\* a new run: the harness's input and the code's Init event
StartWithInit(r, real, c) ==
  LET i == InputOf(r, real, c) IN
  /\ in' = i /\ pos' = 1 /\ cur' = <<>> /\ cnt' = 0 /\ line' = 1 /\ sizeS' = i.cmd /\ sizeSys' = SysBase(i)
  /\ pending' = FALSE /\ execs' = <<>> /\ status' = "run"
  /\ CountersMatch(c)
  /\ j' = 2
\* the command and its initial arguments alone do not fit -s: nothing is read, status 1
StartRefused(r, real) ==
  /\ real.s > 0 /\ real.cmd > real.s
  /\ in' = InputOf(r, real, [max_sys |-> 0, sys |-> 0]) /\ pos' = 1 /\ cur' = <<>> /\ cnt' = 0 /\ line' = 1
  /\ sizeS' = real.cmd /\ sizeSys' = 0 /\ pending' = FALSE /\ execs' = <<>> /\ status' = "err"
  /\ j' = 1
Judged(rec) == "unrepresentable" \notin DOMAIN rec.obs
Start ==
  /\ l <= Len(Rec) /\ phase = "new" /\ Judged(Rec[l]) /\ "panic" \notin DOMAIN Rec[l].obs
  /\ (IF Rec[l].obs.events # <<>> /\ Rec[l].obs.events[1].ev = "Init"
      THEN StartWithInit(Rec[l].in, Rec[l].obs.real, Rec[l].obs.events[1])
      ELSE StartRefused(Rec[l].in, Rec[l].obs.real))
  /\ outs' = Rec[l].in.script \o Zeros(Len(Rec[l].in.args) + 2) /\ k' = 1 /\ result' = "Success" /\ fin' = 0
  /\ phase' = "run" /\ UNCHANGED l

Running == status = "run" /\ fin = 0
ArgMatches(e) == e.len = NextArg.len /\ e.hard = NextArg.hard

TAccept ==
  /\ HasEv("Accept") /\ Running /\ Accept /\ ArgMatches(Ev) /\ CountersMatch(Ev)
  /\ j' = j + 1 /\ UNCHANGED <<l, phase, evars>>

TXFail ==
  /\ HasEv("XFail") /\ Running /\ XFail
  /\ j' = j + 1 /\ UNCHANGED <<l, phase, evars>>

\* the pending command line is dispatched and the argument retried on a fresh builder: one step of the machine,
\* two events of the code (only one if nothing was pending, or if the dispatched command ended the run)
\* -I: the line is substituted into the initial arguments and the result measured before anything is run
Repl == "tmpl" \in DOMAIN in
CurLen == in.args[cur[1]].len
SubstMatches(e, len) ==
  LET m == SubstMeasure(len) IN
  /\ e.ev = "Subst" /\ "sys" \in DOMAIN e /\ "max_sys" \in DOMAIN e /\ e.fits = m.ok /\ e.sys = m.sys /\ e.max_sys = in.sys
  /\ (in.s > 0 => "chars" \in DOMAIN e /\ e.chars = m.s /\ e.max_chars = in.s)
  /\ e.args = 0

TFlush ==
  /\ ~Repl
  /\ HasEv("Exec") /\ ~Ev.eof /\ Running /\ pending /\ Ev.n = Len(cur)
  /\ ChildReturns
  /\ IF fin' = 0
     THEN /\ j + 1 <= Len(Events) /\ Events[j + 1].ev \in {"Retry", "TooLarge"}
          /\ FlushRetry
          /\ IF Events[j + 1].ev = "Retry" THEN status' = "run" /\ ArgMatches(Events[j + 1]) /\ CountersMatch(Events[j + 1])
             ELSE status' = "err"
          /\ j' = j + 2
     ELSE \* exit status 255 or a signal: process_input returns at once
          /\ pos <= Len(in.args)
          /\ LET v == Verdict(NextArg, cnt, line, sizeS, sizeSys) IN v # "ok" /\ ~(v = "chars" /\ in.x /\ (in.n > 0 \/ in.L > 0))
          /\ execs' = Append(execs, cur) /\ status' = "fatal"
          /\ UNCHANGED <<in, pos, cur, cnt, line, sizeS, sizeSys, pending>>
          /\ j' = j + 1
  /\ UNCHANGED <<l, phase>>

TRetryNothingPending ==
  /\ HasEv("Retry") \/ HasEv("TooLarge")
  /\ Running /\ ~pending /\ FlushRetry
  /\ IF Ev.ev = "Retry" THEN status' = "run" /\ ArgMatches(Ev) /\ CountersMatch(Ev) ELSE status' = "err"
  /\ j' = j + 1 /\ UNCHANGED <<l, phase, evars>>

TEofExec ==
  /\ ~Repl
  /\ HasEv("Exec") /\ Ev.eof /\ Running /\ Eof /\ (~in.r \/ pending) /\ Ev.n = Len(cur)
  /\ ChildReturns
  /\ j' = j + 1 /\ UNCHANGED <<l, phase>>

\* the same two steps with -I: Exec, then the measurement of the substituted command line; only if it fits is
\* the command run
TFlushRepl ==
  /\ Repl
  /\ HasEv("Exec") /\ ~Ev.eof /\ Running /\ pending /\ Ev.n = Len(cur) /\ Len(cur) = 1
  /\ j + 1 <= Len(Events) /\ SubstMatches(Events[j + 1], CurLen)
  /\ IF SubstMeasure(CurLen).ok
     THEN /\ ChildReturns
          /\ IF fin' = 0
             THEN /\ j + 2 <= Len(Events) /\ Events[j + 2].ev \in {"Retry", "TooLarge"}
                  /\ FlushRetry
                  /\ IF Events[j + 2].ev = "Retry" THEN status' = "run" /\ ArgMatches(Events[j + 2]) /\ CountersMatch(Events[j + 2])
                     ELSE status' = "err"
                  /\ j' = j + 3
             ELSE /\ pos <= Len(in.args)
                  /\ execs' = Append(execs, cur) /\ status' = "fatal"
                  /\ UNCHANGED <<in, pos, cur, cnt, line, sizeS, sizeSys, pending>>
                  /\ j' = j + 2
     ELSE \* "Argument too large": nothing is run, the run is over
          /\ status' = "err" /\ j' = j + 2
          /\ UNCHANGED <<in, pos, cur, cnt, line, sizeS, sizeSys, pending, execs, evars>>
  /\ UNCHANGED <<l, phase>>

TEofExecRepl ==
  /\ Repl
  /\ HasEv("Exec") /\ Ev.eof /\ Running /\ pos > Len(in.args) /\ (~in.r \/ pending) /\ Ev.n = Len(cur)
  /\ IF cur = <<>>
     THEN \* no line to substitute: nothing is run
          Eof /\ j' = j + 1 /\ UNCHANGED evars
     ELSE /\ Len(cur) = 1 /\ j + 1 <= Len(Events) /\ SubstMatches(Events[j + 1], CurLen)
          /\ j' = j + 2
          /\ IF SubstMeasure(CurLen).ok
             THEN Eof /\ ChildReturns
             ELSE /\ status' = "err"
                  /\ UNCHANGED <<in, pos, cur, cnt, line, sizeS, sizeSys, pending, execs, evars>>
  /\ UNCHANGED <<l, phase>>

TEofSkip ==
  /\ HasEv("EofSkip") /\ Running /\ Eof /\ ~(~in.r \/ pending)
  /\ j' = j + 1 /\ UNCHANGED <<l, phase, evars>>

ExitCode == IF fin # 0 THEN fin - 1000
            ELSE IF status = "err" THEN 1
            ELSE IF status = "ok" THEN (IF result = "Success" THEN 0 ELSE 123)
            ELSE -1
\* the run is over: the exit status, nothing logged after it, and on to the next record
TExit ==
  /\ HasEv("Exit") /\ status \in {"ok", "err", "fatal"} /\ Ev.code = ExitCode /\ j = Len(Events)
  /\ l' = l + 1 /\ j' = 1 /\ phase' = "new"
  /\ UNCHANGED <<bvars, evars>>

\* a combination of sizes the harness cannot express with a real -s: not judged
NotJudged ==
  /\ l <= Len(Rec) /\ phase = "new" /\ ~Judged(Rec[l])
  /\ PrintT(<<"SKIP", l>>)
  /\ l' = l + 1 /\ UNCHANGED <<j, phase, bvars, evars>>

Step == Start \/ TAccept \/ TXFail \/ TFlush \/ TFlushRepl \/ TRetryNothingPending \/ TEofExec \/ TEofExecRepl \/ TEofSkip \/ TExit

\* the machines cannot take the step the code logged: report the record, go on with the next one
Reject ==
  /\ l <= Len(Rec) /\ (phase = "new" => Judged(Rec[l])) /\ ~ENABLED Step
  /\ PrintT(<<"MISMATCH", l, ToJson([event |-> j, state |-> [status |-> status, pos |-> pos, cur |-> cur, cnt |-> cnt, line |-> line,
                                                              sizeS |-> sizeS, sizeSys |-> sizeSys, pending |-> pending, result |-> result, fin |-> fin]])>>)
  /\ l' = l + 1 /\ j' = 1 /\ phase' = "new"
  /\ UNCHANGED <<bvars, evars>>

TInit ==
  /\ l = 1 /\ j = 1 /\ phase = "new"
  /\ in = [args |-> <<>>] /\ pos = 1 /\ cur = <<>> /\ cnt = 0 /\ line = 1 /\ sizeS = 0 /\ sizeSys = 0
  /\ pending = FALSE /\ execs = <<>> /\ status = "none"
  /\ outs = <<>> /\ k = 1 /\ result = "Success" /\ fin = 0
  /\ TLCSet(1, 1)

Spec == TInit /\ [][Step \/ NotJudged \/ Reject]_<<bvars, evars, tvars>>

\* the highest record index reached (TLC register 1; needs -workers 1)
Progress == TLCSet(1, IF TLCGet(1) < l THEN l ELSE TLCGet(1))
Accepted ==
  \/ TLCGet(1) = Len(Rec) + 1
  \/ PrintT(<<"TRACE-NOT-CONSUMED", TLCGet(1), Len(Rec)>>) /\ FALSE
=============================================================================
