------------------------------- MODULE T_Glob -------------------------------
(* Trace validation for C12: {"in": {pat, fold, subjects}, "obs": {lname,    *)
(* name, path (indices of the subjects selected), name_ok (which subjects    *)
(* could be created as file names)}}.                                        *)
EXTENDS Glob, TraceLib

\* which non-ASCII characters belong to [:alpha:] etc. depends on the locale: not judged
HasClass(p) == \E i \in 1..(Len(p) - 1) : p[i] = LBR /\ p[i + 1] = COLON
InDomain(in, obs) ==
  /\ GlobInDomain(in.pat, in.fold)
  /\ (HasClass(in.pat) => \A k \in DOMAIN in.subjects : \A i \in DOMAIN in.subjects[k] : in.subjects[k][i] < 128)

Expected(in) == SelectSeq([k \in DOMAIN in.subjects |-> k], LAMBDA k : GlobMatch(in.pat, in.subjects[k], in.fold))

Conforms(in, obs) ==
  /\ "panic" \notin DOMAIN obs
  /\ "exit" \notin DOMAIN obs
  /\ obs.lname = Expected(in)
  /\ LET names == SelectSeq(Expected(in), LAMBDA k : obs.name_ok[k]) IN
     obs.name = names /\ obs.path = names

Describe(in) == [m |-> Expected(in)]

Beyond(in) == FALSE
INSTANCE TraceCheck
=============================================================================
