------------------------------- MODULE T_Glob -------------------------------
(* Trace validation for C12: {"in": {pat, fold, subjects}, "obs": {lname,    *)
(* name, path (indices of the subjects selected), name_ok (which subjects    *)
(* could be created as file names)}}.                                        *)
EXTENDS Glob, TraceLib

\* which non-ASCII characters belong to [:alpha:] etc. depends on the locale: not judged
HasClass(p) == \E i \in 1..(Len(p) - 1) : p[i] = LBR /\ p[i + 1] = COLON
InDomain(in, obs) ==
  /\ GlobInDomain(in.pat, in.fold)
  /\ (HasClass(in.pat) => \A k \in DOMAIN in.subjects : \A i \in DOMAIN in.subjects[k] : in.subjects[k][i] < 128)

Expected(in) == SelectSeq([k \in DOMAIN in.subjects |-> k], LAMBDA k : GlobMatch(in.pat, in.subjects[k], in.fold))

\* -name on a starting point: the subject is the last component of the spelling ("." and ".." are components,
\* trailing slashes are not)
W == INSTANCE FindWalk
RootNamesOK(in, obs) ==
  "spells" \in DOMAIN in =>
     /\ "rootname" \in DOMAIN obs /\ Len(obs.rootname) = Len(in.spells)
     /\ \A k \in DOMAIN in.spells : obs.rootname[k] = GlobMatch(in.pat, W!NameOf(in.spells[k]), in.fold)

\* -name P and -iname P side by side in one expression: each with its own letter-case rule (judged where the pattern
\* is inside the domain under both rules)
ExpectedWith(in, f) == SelectSeq([k \in DOMAIN in.subjects |-> k], LAMBDA k : GlobMatch(in.pat, in.subjects[k], f))
BothOK(in, obs) ==
  ("n1" \in DOMAIN obs /\ GlobInDomain(in.pat, TRUE) /\ GlobInDomain(in.pat, FALSE)) =>
     /\ obs.n1 = SelectSeq(ExpectedWith(in, in.fold), LAMBDA k : obs.name_ok[k])
     /\ obs.n2 = SelectSeq(ExpectedWith(in, ~in.fold), LAMBDA k : obs.name_ok[k])

Conforms(in, obs) ==
  /\ "panic" \notin DOMAIN obs
  /\ BothOK(in, obs)
  /\ RootNamesOK(in, obs)
  /\ "exit" \notin DOMAIN obs
  /\ obs.lname = Expected(in)
  /\ LET names == SelectSeq(Expected(in), LAMBDA k : obs.name_ok[k]) IN
     obs.name = names /\ obs.path = names

Describe(in) == [m |-> Expected(in)]

Beyond(in) == FALSE
INSTANCE TraceCheck
=============================================================================
