------------------------------- MODULE T_XSem -------------------------------
(* Trace validation of whole xargs runs against the composed specification   *)
(* (XargsSem): {"in": {stdin, delim, n, L, s, x, r, init, cmdlen, script},   *)
(* "obs": {argvs, exit, stdout}} - argvs as the recorder command received   *)
(* them, stdout: what xargs itself wrote (only without a command).           *)
EXTENDS XargsSem, TraceLib

InDomain(in, obs) == IF HasRepl(in) THEN ReplDomain(in) ELSE SemDomain(in) /\ (Flag(in, "echo") => EchoDomain(in))
Conforms(in, obs) ==
  /\ "panic" \notin DOMAIN obs
  /\ IF HasRepl(in) THEN ReplOK(in, obs.argvs, obs.exit) /\ obs.stdout = <<>> /\ TraceLinesOK(in, obs.tlines, Len(obs.argvs))
     ELSE IF Flag(in, "echo") THEN obs.argvs = <<>> /\ EchoOK(in, obs.stdout, obs.exit, obs.tlines)
     ELSE SemOK(in, obs.argvs, obs.exit) /\ obs.stdout = <<>> /\ TraceLinesOK(in, obs.tlines, Len(obs.argvs))
Describe(in) == IF HasRepl(in) THEN [lines |-> ReplLines(in)]
                ELSE [toks |-> Toks(in), outcomes |-> IF Toks(in).err THEN <<>> ELSE SetToSeq(B!RefOutcomes(BatchIn(in)))]
\* input from -a FILE, runs without a command, -t and -P are described by XargsSem but fixed by no listed property
Beyond(in) == Flag(in, "afile") \/ Flag(in, "echo") \/ Flag(in, "t") \/ ("P" \in DOMAIN in /\ in.P > 0)
INSTANCE TraceCheck
=============================================================================
