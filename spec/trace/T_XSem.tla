------------------------------- MODULE T_XSem -------------------------------
(* Trace validation of whole xargs runs against the composed specification   *)
(* (XargsSem): {"in": {stdin, delim, n, L, s, x, r, init, cmdlen, script},   *)
(* "obs": {argvs, exit}} - argvs as the recorder command received them.      *)
EXTENDS XargsSem, TraceLib

InDomain(in, obs) == SemDomain(in)
Conforms(in, obs) == "panic" \notin DOMAIN obs /\ SemOK(in, obs.argvs, obs.exit)
Describe(in) == [toks |-> Toks(in), outcomes |-> IF Toks(in).err THEN <<>> ELSE SetToSeq(B!RefOutcomes(BatchIn(in)))]
INSTANCE TraceCheck
=============================================================================
