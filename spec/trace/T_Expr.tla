------------------------------- MODULE T_Expr -------------------------------
(* Trace validation for C01 (and the grammar part of C11): each line is one  *)
(* in-process run of find: {"in": {toks, files, form}, "obs": {run, exit,    *)
(* diag}}; files are in visit order with subtree sizes (spec/FindExpr.tla).  *)
EXTENDS FindExpr, TraceLib

FilesOf(in) == [i \in DOMAIN in.files |->
                  [dir |-> in.files[i].dir, sat |-> RangeOf(in.files[i].sat), sub |-> in.files[i].sub]]

\* A leading ',' or ')' is taken for a starting point by the operand scan (the property
\* does not say where the operands end); such vectors are not judged.
InDomain(in, obs) == in.toks = <<>> \/ in.toks[1] \notin {"comma", "rp"}

Conforms(in, obs) ==
  /\ "panic" \notin DOMAIN obs
  /\ IF RefParse(in.toks).ok
     THEN obs.exit = 0 /\ obs.run = RefRun(in.toks, FilesOf(in))
     ELSE obs.exit # 0 /\ obs.diag /\ obs.run = <<>>

Describe(in) == [ok |-> RefParse(in.toks).ok,
                 run |-> IF RefParse(in.toks).ok THEN RefRun(in.toks, FilesOf(in)) ELSE <<>>]

Beyond(in) == FALSE
INSTANCE TraceCheck
=============================================================================
