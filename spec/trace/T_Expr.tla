------------------------------- MODULE T_Expr -------------------------------
(* Trace validation for C01 (and the grammar part of C11): each line is one  *)
(* in-process run of find: {"in": {toks, files, form}, "obs": {run, exit,    *)
(* diag}}; files are in visit order with subtree sizes (spec/FindExpr.tla).  *)
EXTENDS FindExpr, TraceLib

FilesOf(in) == [i \in DOMAIN in.files |->
                  [dir |-> in.files[i].dir, sat |-> RangeOf(in.files[i].sat), sub |-> in.files[i].sub]]

\* A leading ',' or ')' is taken for a starting point by the operand scan (the property
\* does not say where the operands end); such vectors are not judged.
InDomain(in, obs) == in.toks = <<>> \/ in.toks[1] \notin {"comma", "rp"}

\* "split": the entries directly beneath the top directory are given as the starting points, in order, instead of the
\* directory itself: the same visit sequence without its first element (and -quit ends the run across starting points)
\* "xfail" (-exec false {} +): to the expression a test that is true; the command line it collects fails when it is
\* dispatched at the end of a starting point, so find's exit status is not 0 - and says nothing else
Toks(in) == [i \in DOMAIN in.toks |-> IF in.toks[i] = "xfail" THEN "true" ELSE in.toks[i]]
HasXfail(in) == \E i \in DOMAIN in.toks : in.toks[i] = "xfail"
Split(in) == "split" \in DOMAIN in /\ in.split
Run(in) ==
  IF Split(in)
  THEN LET r == RefRun(Toks(in), Tail(FilesOf(in))) IN [k \in DOMAIN r |-> <<r[k][1] + 1, r[k][2]>>]
  ELSE RefRun(Toks(in), FilesOf(in))

Conforms(in, obs) ==
  /\ "panic" \notin DOMAIN obs
  /\ IF RefParse(Toks(in)).ok
     THEN (HasXfail(in) \/ obs.exit = 0) /\ obs.run = Run(in)
     ELSE obs.exit # 0 /\ obs.diag /\ obs.run = <<>>

Describe(in) == [ok |-> RefParse(Toks(in)).ok,
                 run |-> IF RefParse(Toks(in)).ok THEN Run(in) ELSE <<>>]

Beyond(in) == FALSE
INSTANCE TraceCheck
=============================================================================
