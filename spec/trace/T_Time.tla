------------------------------- MODULE T_Time -------------------------------
(* Trace validation for C15: {"in": {plan, tests}, "obs": {res, now, ent,    *)
(* rf, rfl}}: the raw timestamps of the entry and of the reference file as read   *)
(* back with lstat, the injected 'now', and for every test whether find      *)
(* selected the entry.  Only the raw values are used to judge.               *)
EXTENDS Time, TraceLib

InDomain(in, obs) == TRUE

TestOK(in, t, r, obs) ==
  IF t.t = "age"
  THEN (AgeInDomain(t.kind, obs.now, obs.ent) => r = AgeTest(t.kind, t.unit, t.form, [v |-> t.n], obs.now, obs.ent))
  ELSE r = NewerTest(t.x, t.y, obs.ent, IF "reflink" \in DOMAIN in.plan THEN RefRecord(in.plan.reflink, obs.rfl, obs.rf) ELSE obs.rf)

\* 'now' is fixed when find starts: find was started between t0 (just before it was spawned) and t1 (when the
\* command run by its first -exec started); the -mmin test evaluated after that slow command must answer as
\* for some 'now' in that interval, not for the time at which the test happened to be evaluated.
ClockOK(in, obs) ==
  \E p \in Periods(obs.t0, obs.ent.m, "min")..Periods(obs.t1, obs.ent.m, "min") : obs.sel = (p = in.n)

Conforms(in, obs) ==
  IF "clock" \in DOMAIN obs THEN ClockOK(in, obs) ELSE
  /\ "panic" \notin DOMAIN obs /\ "exit" \notin DOMAIN obs
  /\ Len(obs.res) = Len(in.tests)
  /\ \A i \in DOMAIN in.tests : TestOK(in, in.tests[i], obs.res[i], obs)
  \* the same tests in one evaluation of the entry give the same answers (each on its own timestamp)
  /\ ("together" \in DOMAIN obs => obs.together = obs.res)

Describe(in) == [note |-> "expected values depend on the timestamps in the observation; see the replay"]
Beyond(in) == FALSE
INSTANCE TraceCheck
=============================================================================
