SPECIFICATION Spec
CONSTRAINT Progress
POSTCONDITION Accepted
CHECK_DEADLOCK FALSE
