------------------------------- MODULE T_C19 -------------------------------
(* Trace validation for C19: {"in": {kind, outs, per}, "obs": {started, exit}} *)
EXTENDS XargsExec, TraceLib

IsScript(in) == in.kind = "script"

\* Empty input still runs the command once (C04), with the recorder's default outcome 0.
Eff(in) == IF in.outs = <<>> THEN <<0>> ELSE in.outs

InDomain(in, obs) == IsScript(in) => InDomainOuts(Eff(in))

Expected(in) ==
  IF IsScript(in) THEN RefExit(Eff(in))
  ELSE IF in.kind = "notfound" THEN [started |-> 0, exit |-> 127]
  \* ... which matters only when the command is to be run: -r and no input runs nothing (every invocation - there is
  \* none - exited 0); an input error found before the first dispatch is an input error
  ELSE IF in.kind = "notfound_norun" THEN [started |-> 0, exit |-> 0]
  ELSE IF in.kind = "notfound_quote" THEN [started |-> 0, exit |-> 1]
  \* cannot be executed: no permission, a directory, a path through a regular file, a link to itself
  ELSE IF in.kind \in {"notexec", "notexec_dir", "notexec_notdir", "notexec_loop"} THEN [started |-> 0, exit |-> 126]
  ELSE [exit |-> 1]     \* xargs' own usage and input errors

Conforms(in, obs) ==
  LET e == Expected(in) IN
  /\ "panic" \notin DOMAIN obs
  /\ obs.exit = e.exit
  /\ ("started" \in DOMAIN e => obs.started = e.started)

Describe(in) == Expected(in)

\* the implementation-shaped variables of XargsExec are not used in trace validation
TInit == outs = <<>> /\ k = 0 /\ result = "" /\ fin = 0
Beyond(in) == FALSE
TC == INSTANCE TraceCheck
Spec == TInit /\ TC!Init /\ [][TC!Step /\ UNCHANGED evars]_<<l, evars>>
Accepted == TC!Accepted
=============================================================================
