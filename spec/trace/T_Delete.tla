------------------------------ MODULE T_Delete ------------------------------
(* Trace validation for C10: {"in": {tree, roots, cfg, pre}, "obs": {matched  *)
(* (twin tree, -depth EXPR -print), deleted (-delete then -printf), left (per *)
(* node, after the run), exit, diag, extra}}.                                 *)
EXTENDS FindActions, TraceLib

CfgOf(in) == [mode |-> in.cfg.mode, min |-> in.cfg.min, max |-> in.cfg.max,
              depth |-> FALSE, sorted |-> TRUE, prune |-> {}]
InDomain(in, obs) ==
  /\ DeleteDom(in.tree, CfgOf(in), in.roots) /\ EmptyNames(in.roots) = {}
  /\ (("altquit" \in DOMAIN in /\ in.altquit) => WalkRoots(in.tree, [CfgOf(in) EXCEPT !.depth = TRUE], in.roots).errs = 0)

\* "altquit": PRE ( -delete -printf .. -o -quit ) - the first removal that fails ends the run (and still decides the
\* exit status); judged where the walk itself meets no error
AltQuit(in) == "altquit" \in DOMAIN in /\ in.altquit
RunOf(in) == IF AltQuit(in) THEN DeleteRunQ(in.tree, CfgOf(in), in.roots, in.pre) ELSE DeleteRun(in.tree, CfgOf(in), in.roots, in.pre)

Conforms(in, obs) ==
  LET run == RunOf(in) IN
  /\ "panic" \notin DOMAIN obs
  /\ obs.matched = run.matched                      \* same set, same depth-first order as the twin run reports
  /\ obs.deleted = run.deleted                      \* -delete true exactly where the removal succeeded
  /\ obs.left = [i \in DOMAIN in.tree |-> i \notin run.gone]      \* nothing else changed, inside or outside
  /\ obs.extra = 0
  /\ (obs.exit # 0) <=> (run.failed # <<>> \/ run.errs > 0)
  /\ (run.failed # <<>> => obs.diag)
  \* -delete is false exactly where the removal failed: an alternative action of the same expression sees those entries
  /\ ("notdel" \in DOMAIN obs => obs.notdel = run.failed)

Describe(in) == LET run == RunOf(in) IN
                [matched |-> run.matched, deleted |-> run.deleted, failed |-> run.failed,
                 left |-> [i \in DOMAIN in.tree |-> i \notin run.gone]]
Beyond(in) == FALSE
INSTANCE TraceCheck
=============================================================================
