----------------------------- MODULE T_WalkLoop -----------------------------
(***************************************************************************)
(* Event-level trace validation of find's walk loop (properties C02, C03,  *)
(* C18): the library built with the verification hook logs every entry     *)
(* process_dir hands to the expression (Eval: path, depth, directory or    *)
(* not), every walk error (Err), every skip_current_dir() after -prune     *)
(* (Skip) and the end of the loop (Done); TLC steps the machine            *)
(* FindWalkImpl (walkdir's iterator driven by process_dir, model-checked   *)
(* against the reference walk in MC_WalkImpl) along the events: a step of  *)
(* the machine that evaluates an entry, reports an error or skips must be  *)
(* the next event, a step that does none of these is silent.               *)
(* A record is one run with -sorted and any number of starting points:     *)
(* {"in": {tree, roots, cfg}, "obs": {events: [..], exit}}.                *)
(***************************************************************************)
EXTENDS FindWalkImpl, TraceLib

VARIABLES j, rphase, rt     \* j: the next event of record l; rphase: "new" | "run"; rt: the starting point being walked
tvars == <<l, j, rphase, rt>>

In == Rec[l].in
Events == Rec[l].obs.events
CfgOf(in) == [mode |-> in.cfg.mode, min |-> in.cfg.min, max |-> in.cfg.max, depth |-> in.cfg.depth, sorted |-> TRUE,
              prune |-> RangeOf(in.cfg.prune), xdev |-> "xdev" \in DOMAIN in.cfg /\ in.cfg.xdev]
Root(in) == in.roots[rt]

Judged(rec) == "nomount" \notin DOMAIN rec.obs /\ "panic" \notin DOMAIN rec.obs
               /\ ~DevLostLink(rec.in.tree, CfgOf(rec.in))           \* (the open finding: what follows a lost link is not modelled)

Begin ==
  /\ l <= Len(Rec) /\ rphase = "new" /\ Judged(Rec[l])
  /\ stack' = <<>> /\ deferred' = <<>> /\ out' = <<>> /\ errs' = 0 /\ phase' = "start" /\ skipped' = FALSE /\ held' = <<>>
  /\ j' = 1 /\ rphase' = "run" /\ rt' = 1 /\ UNCHANGED l

NotJudged ==
  /\ l <= Len(Rec) /\ rphase = "new" /\ ~Judged(Rec[l])
  /\ PrintT(<<"SKIP", l>>)
  /\ l' = l + 1 /\ UNCHANGED <<j, rphase, rt, wvars>>

\* one step of the machine and the events it accounts for
Ev(k) == Events[k]
HasEv(k, name) == k <= Len(Events) /\ Ev(k).ev = name
MachineStep ==
  /\ l <= Len(Rec) /\ rphase = "run" /\ phase # "done"
  /\ WNext(In.tree, CfgOf(In), Root(In))
  /\ IF Len(out') = Len(out) + 1
     THEN LET e == out'[Len(out')] IN
          /\ HasEv(j, "Eval") /\ Ev(j).path = e.path /\ Ev(j).depth = e.depth /\ Ev(j).dir = e.dir
          /\ IF skipped' THEN HasEv(j + 1, "Skip") /\ j' = j + 2 ELSE ~HasEv(j + 1, "Skip") /\ j' = j + 1
     ELSE IF errs' = errs + 1 THEN HasEv(j, "Err") /\ j' = j + 1
     ELSE j' = j
  /\ UNCHANGED <<l, rphase, rt>>

\* one starting point is done, the next one begins (the errors add up)
NextRoot ==
  /\ l <= Len(Rec) /\ rphase = "run" /\ phase = "done" /\ rt < Len(In.roots)
  /\ HasEv(j, "Done")
  /\ stack' = <<>> /\ deferred' = <<>> /\ out' = <<>> /\ phase' = "start" /\ skipped' = FALSE /\ held' = <<>> /\ UNCHANGED errs
  /\ j' = j + 1 /\ rt' = rt + 1 /\ UNCHANGED <<l, rphase>>

\* the loop is over: the code says so too, nothing else was logged, and the exit status tells of the errors
Finish ==
  /\ l <= Len(Rec) /\ rphase = "run" /\ phase = "done" /\ rt = Len(In.roots)
  /\ HasEv(j, "Done") /\ j = Len(Events)
  /\ (Rec[l].obs.exit # 0) <=> (errs > 0)
  /\ l' = l + 1 /\ j' = 1 /\ rphase' = "new" /\ UNCHANGED <<rt, wvars>>

Step == Begin \/ MachineStep \/ NextRoot \/ Finish

Reject ==
  /\ l <= Len(Rec) /\ (rphase = "new" => Judged(Rec[l])) /\ ~ENABLED Step
  /\ PrintT(<<"MISMATCH", l, ToJson([event |-> j, phase |-> phase, evaluated |-> Len(out), errs |-> errs, stack |-> Len(stack)])>>)
  /\ l' = l + 1 /\ j' = 1 /\ rphase' = "new" /\ UNCHANGED <<rt, wvars>>

TInit == l = 1 /\ j = 1 /\ rphase = "new" /\ rt = 1 /\ WInit /\ TLCSet(1, 1)
Spec == TInit /\ [][Step \/ NotJudged \/ Reject]_<<wvars, tvars>>

Progress == TLCSet(1, IF TLCGet(1) < l THEN l ELSE TLCGet(1))
Accepted ==
  \/ TLCGet(1) = Len(Rec) + 1
  \/ PrintT(<<"TRACE-NOT-CONSUMED", TLCGet(1), Len(Rec)>>) /\ FALSE
=============================================================================
