----------------------------- MODULE T_ExecLoop -----------------------------
(***************************************************************************)
(* Event-level trace validation of -exec CMD {} + / -execdir CMD {} +      *)
(* (property C08).  The library built with the verification hook logs, in  *)
(* the order of happening: Eval (an entry is handed to the expression),    *)
(* XFlush {why: "dir" | "full" | "end"} (the pending command line is       *)
(* dispatched), XRun {ok} (how the command went), XPush (the path joined   *)
(* the pending command line), Done (the walk of a starting point is over). *)
(* TLC steps the machine FindExecImpl (model-checked against C08's         *)
(* sentences in MC_ExecImpl) along them: which entries come, on which of   *)
(* them the action is reached and where -quit is evaluated is computed     *)
(* from the tree by the reference walk; whether a command line was full is *)
(* the one thing taken from the code's own events.  At the end the         *)
(* machine's dispatched command lines must be the invocations the recorder *)
(* command saw - arguments, order and working directory.                   *)
(* Record: {"in": {tree, roots, cfg, pre, execdir, fixed, script, quit},   *)
(*          "obs": {events, execs: [{argv, cwd}], exit}}.                  *)
(***************************************************************************)
EXTENDS FindActions, FindExecImpl, TraceLib

VARIABLES j, rphase       \* j: the next event of record l; rphase: "new" | "run"
tvars == <<l, j, rphase>>

In == Rec[l].in
Events == Rec[l].obs.events
CfgOf(in) == [mode |-> in.cfg.mode, min |-> in.cfg.min, max |-> in.cfg.max, depth |-> in.cfg.depth, sorted |-> TRUE, prune |-> {}]

\* what the walk hands to the expression, starting point by starting point
EntsOf(in, rr) == WalkRoots(in.tree, CfgOf(in), <<in.roots[rr]>>).ents
EntryOf(in, e) ==
  LET reached == PreHolds(in.tree, e, in.pre) IN
  [path |-> e.path,
   arg |-> IF in.execdir THEN DOTSLASH \o BaseName(e.path) ELSE e.path,
   dir |-> NormDir(DirName(e.path)),
   reached |-> reached,
   quit |-> reached /\ in.quit # <<>> /\ e.path = in.quit]
InputOf(in) == [roots |-> [rr \in DOMAIN in.roots |-> [k \in DOMAIN EntsOf(in, rr) |-> EntryOf(in, EntsOf(in, rr)[k])]],
                execdir |-> in.execdir, cap |-> 0]

Judged(rec) ==
  /\ "panic" \notin DOMAIN rec.obs
  /\ rec.in.cfg.mode = "P"
  /\ WalkRoots(rec.in.tree, CfgOf(rec.in), rec.in.roots).errs = 0
  /\ (rec.in.execdir => ExecdirDom(rec.in.roots))

Begin ==
  /\ l <= Len(Rec) /\ rphase = "new" /\ Judged(Rec[l])
  /\ xin' = InputOf(In) /\ r' = 1 /\ i' = 1 /\ batch' = <<>> /\ curdir' = NoDir /\ runs' = <<>> /\ quit' = FALSE
  /\ xst' = IF In.roots = <<>> THEN "done" ELSE "walk"
  /\ j' = 1 /\ rphase' = "run" /\ UNCHANGED l

NotJudged ==
  /\ l <= Len(Rec) /\ rphase = "new" /\ ~Judged(Rec[l])
  /\ PrintT(<<"SKIP", l>>)
  /\ l' = l + 1 /\ UNCHANGED <<j, rphase, xvars>>

Ev(k) == Events[k]
HasEv(k, name) == k <= Len(Events) /\ Ev(k).ev = name
IsFlush(k, why) == HasEv(k, "XFlush") /\ Ev(k).why = why /\ HasEv(k + 1, "XRun")

\* one evaluated entry and everything the code logs for it
TEntry ==
  /\ l <= Len(Rec) /\ rphase = "run" /\ AtEntry
  /\ HasEv(j, "Eval") /\ Ev(j).path = Entry.path
  /\ LET d == NeedDirFlush(Entry)
         k1 == IF d THEN j + 3 ELSE j + 1
         full == Entry.reached /\ IsFlush(k1, "full")
         k2 == IF full THEN k1 + 2 ELSE k1 IN
     /\ (d => IsFlush(j + 1, "dir"))
     /\ (~d => ~IsFlush(j + 1, "dir"))
     /\ EvalEntry(full)
     /\ IF Entry.reached THEN HasEv(k2, "XPush") /\ j' = k2 + 1
        ELSE ~HasEv(k1, "XPush") /\ ~HasEv(k1, "XFlush") /\ j' = k1
  /\ UNCHANGED <<l, rphase>>

\* the end of a starting point: what is pending is dispatched
TEndRoot ==
  /\ l <= Len(Rec) /\ rphase = "run" /\ AtEnd
  /\ HasEv(j, "Done")
  /\ EndRoot
  /\ IF Len(runs') = Len(runs) + 1
     THEN IsFlush(j + 1, runs'[Len(runs')].why) /\ j' = j + 3
     ELSE ~HasEv(j + 1, "XFlush") /\ j' = j + 1
  /\ UNCHANGED <<l, rphase>>

\* the run is over: nothing else was logged; the command lines the machine dispatched are the invocations the recorder
\* saw (after the fixed arguments), in order, from the right directories; every XRun tells how its invocation went;
\* find's exit status is non-zero iff one of them failed
XRuns == SelectSeq(Events, LAMBDA e : e.ev = "XRun")
TFinish ==
  /\ l <= Len(Rec) /\ rphase = "run" /\ xst = "done" /\ j = Len(Events) + 1
  /\ LET obs == Rec[l].obs IN
     /\ Len(obs.execs) = Len(runs) /\ Len(XRuns) = Len(runs)
     /\ \A k \in DOMAIN runs :
          /\ obs.execs[k].argv = In.fixed \o runs[k].argv
          /\ obs.execs[k].cwd = (IF In.execdir THEN runs[k].cwd ELSE <<>>)
          /\ XRuns[k].ok = (StatusAt(In.script, k) = 0)
     /\ (obs.exit # 0) <=> (\E k \in DOMAIN runs : StatusAt(In.script, k) # 0)
  /\ l' = l + 1 /\ j' = 1 /\ rphase' = "new" /\ UNCHANGED xvars

Step == Begin \/ TEntry \/ TEndRoot \/ TFinish

Reject ==
  /\ l <= Len(Rec) /\ (rphase = "new" => Judged(Rec[l])) /\ ~ENABLED Step
  /\ PrintT(<<"MISMATCH", l, ToJson([event |-> j, root |-> r, entry |-> i, pending |-> Len(batch), dispatched |-> Len(runs), quit |-> quit, state |-> xst])>>)
  /\ l' = l + 1 /\ j' = 1 /\ rphase' = "new" /\ UNCHANGED xvars

TInit == l = 1 /\ j = 1 /\ rphase = "new" /\ XInit([roots |-> <<>>, execdir |-> FALSE, cap |-> 0]) /\ TLCSet(1, 1)
Spec == TInit /\ [][Step \/ NotJudged \/ Reject]_<<xvars, tvars>>

Progress == TLCSet(1, IF TLCGet(1) < l THEN l ELSE TLCGet(1))
Accepted ==
  \/ TLCGet(1) = Len(Rec) + 1
  \/ PrintT(<<"TRACE-NOT-CONSUMED", TLCGet(1), Len(Rec)>>) /\ FALSE
=============================================================================
