------------------------------- MODULE T_Find -------------------------------
(* Trace validation of whole find runs against the composed specification    *)
(* (FindSem): {"in": {tree, roots, cfg, words}, "obs": {out, exit, attrs,    *)
(* files, now, users, groups}}.  attrs (status records incl. timestamps),    *)
(* now (the injected clock) and users/groups (the ids the system knows) are  *)
(* measurements of the environment; out, files and exit are judged.          *)
EXTENDS FindSem, TraceLib

CfgOf(in, obs) == [mode |-> in.cfg.mode, min |-> in.cfg.min, max |-> in.cfg.max,
                   depth |-> in.cfg.depth, sorted |-> TRUE, prune |-> {},
                   syn |-> in.cfg.syn, now |-> obs.now, users |-> RangeOf(obs.users), groups |-> RangeOf(obs.groups)]
WalkCfg(in) == [mode |-> in.cfg.mode, min |-> in.cfg.min, max |-> in.cfg.max, depth |-> in.cfg.depth, sorted |-> TRUE, prune |-> {}]
TreeOf(in, obs) ==
  [i \in DOMAIN in.tree |->
     [parent |-> in.tree[i].parent, name |-> in.tree[i].name, kind |-> in.tree[i].kind, target |-> in.tree[i].target,
      hl |-> in.tree[i].hl,
      size |-> obs.attrs[i].size, mode |-> obs.attrs[i].mode, uid |-> obs.attrs[i].uid, gid |-> obs.attrs[i].gid,
      nlink |-> obs.attrs[i].nlink, ino |-> obs.attrs[i].ino, text |-> obs.attrs[i].text,
      tm |-> [m |-> obs.attrs[i].mt, c |-> obs.attrs[i].ct],
      mnt |-> "mnt" \in DOMAIN in.tree[i] /\ in.tree[i].mnt]]

RECURSIVE Norm(_)
Norm(e) ==
  IF e.t = "set" THEN [t |-> "set", cs |-> RangeOf(e.cs), neg |-> e.neg]
  ELSE IF e.t \in {"cat", "alt"} THEN [t |-> e.t, a |-> Norm(e.a), b |-> Norm(e.b)]
  ELSE IF e.t = "rep" THEN [t |-> "rep", a |-> Norm(e.a), lo |-> e.lo, hi |-> e.hi]
  ELSE IF e.t \in {"grp", "star", "plus", "opt"} THEN [t |-> e.t, a |-> Norm(e.a)]
  ELSE e
WordsOf(in) == [i \in DOMAIN in.words |->
                  IF in.words[i].k = "regex" THEN [k |-> "regex", ast |-> Norm(in.words[i].ast), fold |-> in.words[i].fold]
                  ELSE in.words[i]]
\* the pattern texts the harness put on the command line are the specification's rendering of the trees
RegexTextsOK(in) ==
  \A i \in DOMAIN in.words : in.words[i].k = "regex" => in.words[i].text = RX!Concrete(Norm(in.words[i].ast), in.cfg.syn)

Measured(obs) == "panic" \notin DOMAIN obs /\ "nomount" \notin DOMAIN obs /\ \A i \in DOMAIN obs.attrs : "missing" \notin DOMAIN obs.attrs[i]
InDomain(in, obs) ==
  /\ EmptyNames(in.roots) = {}
  /\ (Measured(obs) =>
        /\ \A i \in DOMAIN obs.attrs : obs.attrs[i].ino < 2147483647 /\ obs.attrs[i].size < 2147483647
        /\ SemDom(WordsOf(in), TreeOf(in, obs), CfgOf(in, obs), in.roots)
        /\ RegexTextsOK(in))

FileOK(r, named, c, f) ==
  IF c \in named THEN f.there /\ f.b = r.outs[c] ELSE ~f.there
Conforms(in, obs) ==
  /\ Measured(obs)
  /\ LET w == WordsOf(in)
         r == FindResult(w, TreeOf(in, obs), CfgOf(in, obs), in.roots) IN
     /\ obs.out = r.outs[0]
     /\ \A c \in 1..2 : FileOK(r, FilesNamed(w), c, obs.files[c])
     /\ r.sure => ((obs.exit # 0) <=> (r.errs > 0))
     /\ (r.errs > 0 /\ r.sure) => obs.diag

Describe(in) == [words |-> Toks(in.words)]
\* -nouser / -nogroup, -fls and -xdev are described by FindSem but fixed by no listed property
Beyond(in) == \E i \in DOMAIN in.words : \/ in.words[i].k = "fls"
                                         \/ (in.words[i].k = "gopt" /\ in.words[i].o = "xdev")
                                         \/ (in.words[i].k = "test" /\ in.words[i].q.p \in {"nouser", "nogroup"})
INSTANCE TraceCheck
=============================================================================
