------------------------------- MODULE T_Find -------------------------------
(* Trace validation of whole find runs against the composed specification    *)
(* (FindSem): {"in": {tree, roots, cfg, words}, "obs": {out, exit, attrs}}.  *)
EXTENDS FindSem, TraceLib

CfgOf(in) == [mode |-> in.cfg.mode, min |-> in.cfg.min, max |-> in.cfg.max,
              depth |-> in.cfg.depth, sorted |-> TRUE, prune |-> {}]
TreeOf(in, obs) ==
  [i \in DOMAIN in.tree |->
     [parent |-> in.tree[i].parent, name |-> in.tree[i].name, kind |-> in.tree[i].kind, target |-> in.tree[i].target,
      hl |-> in.tree[i].hl,
      size |-> obs.attrs[i].size, mode |-> obs.attrs[i].mode, uid |-> obs.attrs[i].uid, gid |-> obs.attrs[i].gid,
      nlink |-> obs.attrs[i].nlink, ino |-> obs.attrs[i].ino, text |-> obs.attrs[i].text]]

Measured(obs) == "panic" \notin DOMAIN obs /\ \A i \in DOMAIN obs.attrs : "missing" \notin DOMAIN obs.attrs[i]
InDomain(in, obs) ==
  /\ WalkRoots(in.tree, CfgOf(in), in.roots).errs = 0
  /\ EmptyNames(in.roots) = {}
  /\ (Measured(obs) =>
        /\ \A i \in DOMAIN obs.attrs : obs.attrs[i].ino < 2147483647 /\ obs.attrs[i].size < 2147483647
        /\ SemDom(in.words, TreeOf(in, obs), CfgOf(in), in.roots))

Conforms(in, obs) ==
  /\ Measured(obs) /\ obs.exit = 0
  /\ obs.out = FindOutput(in.words, TreeOf(in, obs), CfgOf(in), in.roots)

Describe(in) == [words |-> Toks(in.words)]
INSTANCE TraceCheck
=============================================================================
