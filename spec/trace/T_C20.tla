------------------------------- MODULE T_C20 -------------------------------
(* Trace validation for C20: {"in": {opts, init, lines, final_nl}, "obs": {argvs, exit}} *)
EXTENDS XargsReplace, TraceLib

InDomain(in, obs) == InDomainReplace(in)

Expected(in) == RefReplace(in)

Conforms(in, obs) ==
  LET e == Expected(in) IN
  /\ "panic" \notin DOMAIN obs
  /\ obs.exit = e.exit
  /\ obs.argvs = e.argvs

Describe(in) == Expected(in)

Beyond(in) == FALSE
INSTANCE TraceCheck
=============================================================================
