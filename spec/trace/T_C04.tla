------------------------------- MODULE T_C04 -------------------------------
(* Trace validation for C04: each line is one run of the real xargs binary   *)
(* with the recorder as command: {"in": XargsBatch input, "obs": {execs,     *)
(* exit, initial_ok}} where execs lists, per invocation, the indices of the  *)
(* appended arguments (negative = an argument that is not the expected next  *)
(* input argument).                                                          *)
EXTENDS XargsBatch, TraceLib

InDomain(in, obs) == TRUE

Conforms(in, obs) ==
  /\ "panic" \notin DOMAIN obs
  /\ obs.initial_ok
  /\ [execs |-> obs.execs, exit |-> obs.exit] \in RefOutcomes(in)

Describe(in) == [outcomes |-> SetToSeq(RefOutcomes(in))]

Beyond(in) == FALSE
INSTANCE TraceCheck
=============================================================================
