------------------------------- MODULE T_Cli -------------------------------
(* Trace validation for C11: each line is one run of the find binary on a   *)
(* whole command line, {"in": {words, hazard, form}, "obs": {exit, diag,    *)
(* outlen, execs, intact, rejected, [panic], [hang]}}.  The classification   *)
(* of every operand is computed here, from the recorded operand bytes.      *)
EXTENDS FindCli, TraceLib

WordClass(w) ==
  IF w.k = "op" THEN "valid"
  ELSE LET ok == w.okind IN
    IF ok \in {"none", "any", "fprint"} THEN "valid"
    ELSE IF ok \in {"unknown", "unknown1", "missing", "missing1"} THEN "invalid"
    ELSE IF ok = "num" THEN NumClass(w.arg, FALSE)
    ELSE IF ok = "timenum" THEN NumClass(w.arg, TRUE)
    ELSE IF ok = "size" THEN (IF \E i \in DOMAIN w.arg : w.arg[i] = SPC THEN "unspec" ELSE SizeClass(w.arg))
    ELSE IF ok = "type" THEN TypeClass(w.arg)
    ELSE IF ok = "perm" THEN PermClass(w.arg)
    ELSE IF ok = "printf" THEN PrintfClass(w.arg)
    ELSE IF ok = "regextype" THEN RegextypeClass(w.name)
    ELSE IF ok = "exec" THEN (IF ExecTerminator(w.args) \in {0, Len(w.args)} THEN ExecClass(w.args) ELSE "unspec")
    ELSE IF ok = "fileref" THEN (IF w.exists THEN "valid" ELSE "invalid")
    ELSE IF ok = "user" THEN (IF w.arg = <<>> THEN "invalid" ELSE IF w.known THEN "valid" ELSE IF AllDigits(w.arg) THEN "unspec" ELSE "invalid")
    ELSE IF ok = "depthnum" THEN (IF AllDigits(w.arg) /\ Len(w.arg) <= 9 THEN "valid" ELSE IF AllDigits(DropSign(w.arg)) /\ w.arg[1] = PLUS THEN "unspec" ELSE "invalid")
    ELSE IF ok = "date" THEN (IF w.arg = <<103, 97, 114, 98, 97, 103, 101>> THEN "invalid" ELSE "unspec")
    ELSE IF ok = "regex" THEN (IF w.arg = <<91>> THEN "invalid" ELSE "unspec")
    ELSE "unspec"

\* an argument that is not valid UTF-8 (a byte >= 128 standing alone) makes everything open except "no panic"
Bytes8(w) == w.k = "prim" /\ "arg" \in DOMAIN w /\ \E i \in DOMAIN w.arg : w.arg[i] >= 245

Classified(in) ==
  [i \in DOMAIN in.words |->
     IF in.words[i].k = "op" THEN in.words[i]
     ELSE [k |-> "prim", kind |-> in.words[i].kind, cls |-> WordClass(in.words[i])]]

\* a missing operand swallows nothing only when it is the last word (the generator guarantees it)
Verdict(in) ==
  IF \E i \in DOMAIN in.words : Bytes8(in.words[i]) THEN "unspec"
  ELSE IF in.words # <<>> /\ in.words[1].k = "op" /\ in.words[1].t \in {"comma", "rp"} THEN "unspec"
  \* an -exec without terminator swallows the words after it: only judged when it is the last word
  ELSE IF \E i \in 1..(Len(in.words) - 1) : in.words[i].k = "prim" /\ in.words[i].okind = "exec" /\ ExecTerminator(in.words[i].args) = 0 THEN "unspec"
  ELSE CliClass(Classified(in))

InDomain(in, obs) == TRUE

Conforms(in, obs) ==
  /\ "panic" \notin DOMAIN obs
  /\ "hang" \notin DOMAIN obs
  /\ (Verdict(in) = "reject" => obs.rejected)

Describe(in) == [verdict |-> Verdict(in), classes |-> [i \in DOMAIN in.words |-> WordClass(in.words[i])]]

Beyond(in) == FALSE
INSTANCE TraceCheck
=============================================================================
