------------------------------- MODULE T_Num -------------------------------
(* Trace validation for C14: {"in": {prim, unit, n, files}, "obs": {eq, gt, *)
(* lt}} - which files each of the three forms selected.                     *)
EXTENDS Numeric, TraceLib

\* values that do not fit TLC's integers are not judged
Fits(x) == x < 2147483647
InDomain(in, obs) ==
  /\ ("v" \in DOMAIN in.n => Fits(in.n.v))
  /\ \A i \in DOMAIN in.files :
        LET f == in.files[i] IN
        IF "bytes" \in DOMAIN f THEN Fits(f.bytes)
        ELSE IF "v" \in DOMAIN f THEN Fits(f.v)
        ELSE Fits(f.k + 1) /\ (f.d < 0 => f.k >= 1)

Exp(in, form) == Selected(in.prim, in.unit, form, in.n, in.files)
Conforms(in, obs) ==
  /\ "panic" \notin DOMAIN obs /\ "exit" \notin DOMAIN obs
  \* the measured value is a function of the entry: named twice, an entry is judged the same way twice
  /\ "twice_differs" \notin DOMAIN obs
  /\ obs.eq = Exp(in, "eq") /\ obs.gt = Exp(in, "gt") /\ obs.lt = Exp(in, "lt")
Describe(in) == [eq |-> Exp(in, "eq"), gt |-> Exp(in, "gt"), lt |-> Exp(in, "lt")]
Beyond(in) == FALSE
INSTANCE TraceCheck
=============================================================================
