------------------------------- MODULE FindSem -------------------------------
(***************************************************************************)
(* A whole run of find, composed from the per-property modules: the        *)
(* expression grammar and evaluation order (FindExpr), the reference walk  *)
(* with -prune / -quit / -depth / depth range / follow modes (FindWalk),   *)
(* the tests (Stat, Glob, Numeric) and the output actions (Printf).        *)
(*                                                                         *)
(* A command line is a sequence of words                                   *)
(*   [k |-> "op", t |-> "not" | "and" | "or" | "comma" | "lp" | "rp"]      *)
(*   [k |-> "test", q |-> a test record of Stat.TestHolds]                 *)
(*   [k |-> "glob", on |-> "name" | "path", pat |-> characters, fold]      *)
(*   [k |-> "const", v |-> BOOLEAN]   [k |-> "prune"]   [k |-> "quit"]     *)
(*   [k |-> "print", delim |-> 10 | 0]   [k |-> "printf", fmt |-> chars]   *)
(*   [k |-> "regex", ast |-> Regex tree, fold]  (syntax: cfg.syn)          *)
(*   [k |-> "gopt", o |-> "depth" | "xdev"] | [k |-> "gopt", o |-> "maxdepth" |  *)
(*    "mindepth", n]: global options - true where they stand, in force for *)
(*    the whole run wherever they stand (the last -maxdepth/-mindepth wins)*)
(*   [k |-> "exec", c |-> "true" | "false" | "exists"]   [k |-> "fls"]      *)
(* print / printf words with file |-> 1 | 2 write to that file instead.    *)
(* Result: the bytes on standard output and in the files, and the number   *)
(* of diagnosed failures (exit status).                                    *)
(***************************************************************************)
EXTENDS FindExpr, Stat, Printf
RX == INSTANCE Regex
TM == INSTANCE Time

TokOf(words, i) == IF words[i].k = "op" THEN words[i].t ELSE "L" \o ToString(i)
Toks(words) == [i \in DOMAIN words |-> TokOf(words, i)]
WordOf(words, tok) == words[CHOOSE i \in DOMAIN words : words[i].k # "op" /\ TokOf(words, i) = tok]

\* actions (they suppress the default -print wherever they stand); the output actions among them write to a channel
IsOutput(w) == w.k \in {"print", "printf"}
IsAction(w) == IsOutput(w) \/ w.k \in {"exec", "fls"}
SemHasAction(words) == \E i \in DOMAIN words : IsAction(words[i])
SemParse(words) == RefParse(Toks(words))

(***************************************************************************)
(* Output channels: 0 is standard output; 1 and 2 are the files named by   *)
(* -fprint / -fprint0 / -fprintf (a "print" / "printf" word with a field   *)
(* file |-> 1 | 2).  A file named on the command line exists after the run *)
(* even if nothing was written to it.                                      *)
(***************************************************************************)
Chans == 0..2
NoOut == [c \in Chans |-> <<>>]
OnChan(c, b) == [x \in Chans |-> IF x = c THEN b ELSE <<>>]
OutCat(a, b) == [c \in Chans |-> a[c] \o b[c]]
ChanOf(w) == IF "file" \in DOMAIN w THEN w.file ELSE 0
FilesNamed(words) == {ChanOf(words[i]) : i \in {j \in DOMAIN words : IsOutput(words[j])}} \ {0}

(***************************************************************************)
(* Tests beyond Stat.TestHolds: -size in units (Numeric), the time tests   *)
(* (Time; node attribute tm = [m |-> <<s, ns>>, c |-> <<s, ns>>], cfg.now),*)
(* -nouser / -nogroup (cfg.users / cfg.groups: the ids the system knows).  *)
(***************************************************************************)
RefNode(tree, cfg, r) == IF tree[r].kind = "l" /\ cfg.mode # "P" /\ tree[r].target # 0 THEN tree[r].target ELSE r
TestValue(tree, cfg, e, t) ==
  LET st == tree[e.eff] IN
  IF t.p = "size" /\ "unit" \in DOMAIN t THEN Cmp(t.form, [v |-> t.n], SizeMeasure([bytes |-> st.size], t.unit))
  ELSE IF t.p = "age" THEN TM!AgeTest(t.kind, t.unit, t.form, [v |-> t.n], cfg.now, st.tm)
  ELSE IF t.p = "newer" THEN TM!NewerTest(t.x, t.y, st.tm, tree[RefNode(tree, cfg, t.ref)].tm)
  ELSE IF t.p = "nouser" THEN st.uid \notin cfg.users
  ELSE IF t.p = "nogroup" THEN st.gid \notin cfg.groups
  ELSE TestHolds(tree, cfg, e, t)

\* one primary on one entry: [v, out (per channel), quit, prune]
SRes(v, out, q, p) == [v |-> v, out |-> out, quit |-> q, prune |-> p]
WordEval(tree, cfg, start, e, w) ==
  IF w.k = "test" THEN SRes(TestValue(tree, cfg, e, w.q), NoOut, FALSE, FALSE)
  ELSE IF w.k = "glob" THEN
       SRes(GlobMatch(w.pat, Utf8Decode(IF w.on = "name" THEN NameOf(e.path) ELSE e.path), w.fold), NoOut, FALSE, FALSE)
  ELSE IF w.k = "regex" THEN SRes(RX!InLang(w.ast, Utf8Decode(e.path), w.fold), NoOut, FALSE, FALSE)
  ELSE IF w.k = "const" THEN SRes(w.v, NoOut, FALSE, FALSE)
  ELSE IF w.k = "gopt" THEN SRes(TRUE, NoOut, FALSE, FALSE)
  \* -exec true ; / -exec false ; / -exec test -e {} ; - true iff the command exits 0 (test -e: the entry, through
  \* links, exists); -fls FILE lists into a file that is not judged here
  ELSE IF w.k = "exec" THEN
       SRes(IF w.c = "true" THEN TRUE ELSE IF w.c = "false" THEN FALSE ELSE ~(tree[e.node].kind = "l" /\ tree[e.node].target = 0),
            NoOut, FALSE, FALSE)
  ELSE IF w.k = "fls" THEN SRes(TRUE, NoOut, FALSE, FALSE)
  ELSE IF w.k = "prune" THEN SRes(TRUE, NoOut, FALSE, tree[e.eff].kind = "d")
  ELSE IF w.k = "quit" THEN SRes(TRUE, NoOut, TRUE, FALSE)
  ELSE IF w.k = "print" THEN SRes(TRUE, OnChan(ChanOf(w), e.path \o <<w.delim>>), FALSE, FALSE)
  ELSE \* printf
       SRes(TRUE, OnChan(ChanOf(w), RenderEntry([tree |-> tree, cfg |-> cfg, start |-> start], e, ParseFmt(Utf8(w.fmt)).comps)), FALSE, FALSE)

SSeq(ra, rb) == SRes(rb.v, OutCat(ra.out, rb.out), rb.quit, ra.prune \/ rb.prune)
RECURSIVE SEval(_, _, _, _, _, _)
SEval(ast, words, tree, cfg, start, e) ==
  IF ast.op = "leaf" THEN WordEval(tree, cfg, start, e, WordOf(words, ast.t))
  ELSE IF ast.op = "not" THEN LET r == SEval(ast.a, words, tree, cfg, start, e) IN [r EXCEPT !.v = ~r.v]
  ELSE LET ra == SEval(ast.a, words, tree, cfg, start, e) IN
       IF ra.quit THEN ra
       ELSE IF ast.op = "and" /\ ~ra.v THEN ra
       ELSE IF ast.op = "or" /\ ra.v THEN ra
       ELSE SSeq(ra, SEval(ast.b, words, tree, cfg, start, e))

\* what find does on one entry: the expression, then -print iff there is no action and it is true
EntryEval(words, tree, cfg, start, e) ==
  LET r == IF words = <<>> THEN SRes(TRUE, NoOut, FALSE, FALSE) ELSE SEval(SemParse(words).ast, words, tree, cfg, start, e)
      outs == OutCat(r.out, OnChan(0, IF ~SemHasAction(words) /\ ~r.quit /\ r.v THEN e.path \o <<10>> ELSE <<>>))
  IN [out |-> outs[0], outs |-> outs, quit |-> r.quit, prune |-> ~r.quit /\ r.prune /\ ~cfg.depth]

\* one starting point: the entries on which -prune is evaluated are found on the unpruned walk (an entry's
\* evaluation does not depend on other entries), then the walk is cut there; output stops after -quit
RECURSIVE OutUntilQuit(_, _, _)
OutUntilQuit(evals, k, acc) ==
  IF k > Len(evals) THEN [outs |-> acc, quit |-> FALSE]
  ELSE IF evals[k].quit THEN [outs |-> OutCat(acc, evals[k].outs), quit |-> TRUE]
  ELSE OutUntilQuit(evals, k + 1, OutCat(acc, evals[k].outs))

\* errs: the diagnosed failures of the walk (a missing starting point, a loop closed by a followed link, a directory
\* that cannot be listed); after -quit what the rest of the walk would have met is not known (sure = FALSE)
RootSem(words, tree, cfg, root) ==
  IF root.node = 0 THEN [outs |-> NoOut, quit |-> FALSE, errs |-> 1, sure |-> TRUE]
  ELSE LET plain == [cfg EXCEPT !.prune = {}]
           u == Walk(tree, plain, root.spell, root.node, 0, {}).ents
           pruned == {u[k].path : k \in {j \in DOMAIN u : EntryEval(words, tree, plain, root.spell, u[j]).prune}}
           wk == Walk(tree, [plain EXCEPT !.prune = pruned], root.spell, root.node, 0, {})
           w == wk.ents
           ev == [k \in DOMAIN w |-> EntryEval(words, tree, plain, root.spell, w[k])]
           o == OutUntilQuit(ev, 1, NoOut)
       IN [outs |-> o.outs, quit |-> o.quit, errs |-> wk.errs, sure |-> ~o.quit \/ wk.errs = 0]

RECURSIVE RootsSem(_, _, _, _, _, _)
RootsSem(words, tree, cfg, roots, r, acc) ==
  IF r > Len(roots) THEN acc
  ELSE LET x == RootSem(words, tree, cfg, roots[r])
           acc2 == [outs |-> OutCat(acc.outs, x.outs), errs |-> acc.errs + x.errs, sure |-> acc.sure /\ x.sure]
       IN IF x.quit THEN acc2 ELSE RootsSem(words, tree, cfg, roots, r + 1, acc2)

\* the configuration in force: what stands in front of the expression, overridden by global options inside it
Gopts(words, o) == SelectSeq(words, LAMBDA w : w.k = "gopt" /\ w.o = o)
EffCfg(words, cfg) ==
  LET mx == Gopts(words, "maxdepth")  mn == Gopts(words, "mindepth") IN
  (IF Gopts(words, "xdev") # <<>> THEN [xdev |-> TRUE] ELSE <<>>) @@
  [cfg EXCEPT !.depth = cfg.depth \/ Gopts(words, "depth") # <<>>,
              !.max = IF mx = <<>> THEN cfg.max ELSE mx[Len(mx)].n,
              !.min = IF mn = <<>> THEN cfg.min ELSE mn[Len(mn)].n]

FindResult(words, tree, cfg, roots) == RootsSem(words, tree, EffCfg(words, cfg), roots, 1, [outs |-> NoOut, errs |-> 0, sure |-> TRUE])
FindOutput(words, tree, cfg, roots) == FindResult(words, tree, cfg, roots).outs[0]
\* the exit status is 0 iff nothing was diagnosed
ExitOK(words, tree, cfg, roots, exit) ==
  LET r == FindResult(words, tree, cfg, roots) IN r.sure => ((exit # 0) <=> (r.errs > 0))

\* is the behaviour fixed by the properties?  (formats within Printf's domain; patterns within Glob's and Regex's;
\* ages not negative; every output file named once - two actions naming one file is left open here)
RECURSIVE QuantCount(_), HasAlt(_)
QuantCount(e) == (IF e.t \in {"star", "plus", "opt", "rep"} THEN 1 ELSE 0)
                 + (IF e.t \in {"cat", "alt"} THEN QuantCount(e.a) + QuantCount(e.b)
                    ELSE IF e.t \in {"grp", "star", "plus", "opt", "rep"} THEN QuantCount(e.a) ELSE 0)
HasAlt(e) == e.t = "alt" \/ (IF e.t = "cat" THEN HasAlt(e.a) \/ HasAlt(e.b)
                             ELSE IF e.t \in {"grp", "star", "plus", "opt", "rep"} THEN HasAlt(e.a) ELSE FALSE)
AllEntries(tree, cfg, roots) ==
  Flatten([r \in DOMAIN roots |-> IF roots[r].node = 0 THEN <<>>
                                   ELSE Walk(tree, [cfg EXCEPT !.prune = {}], roots[r].spell, roots[r].node, 0, {}).ents])
SemDom(words, tree, cfg0, roots) ==
  LET cfg == EffCfg(words, cfg0) IN
  /\ SemParse(words).ok
  /\ \A i, j \in DOMAIN words : (i # j /\ IsOutput(words[i]) /\ IsOutput(words[j]) /\ ChanOf(words[i]) # 0) => ChanOf(words[i]) # ChanOf(words[j])
  /\ \A i \in DOMAIN words :
        /\ (words[i].k = "printf" =>
              /\ ParseFmt(Utf8(words[i].fmt)).ok
              /\ \A r \in DOMAIN roots : roots[r].node # 0 =>
                   LET u == Walk(tree, [cfg EXCEPT !.prune = {}], roots[r].spell, roots[r].node, 0, {}).ents IN
                   \A k \in DOMAIN u : EntryDom([tree |-> tree, cfg |-> cfg, start |-> roots[r].spell], u[k], ParseFmt(Utf8(words[i].fmt)).comps))
        /\ (words[i].k = "glob" => GlobInDomain(words[i].pat, words[i].fold))
        \* the shapes on which the engine's first match is the longest one (see the C17 finding)
        /\ (words[i].k = "regex" => RX!Supported(words[i].ast, cfg.syn) /\ ~HasAlt(words[i].ast) /\ QuantCount(words[i].ast) <= 1)
        /\ ((words[i].k = "test" /\ words[i].q.p = "age") =>
              LET u == AllEntries(tree, cfg, roots) IN \A k \in DOMAIN u : TM!AgeInDomain(words[i].q.kind, cfg.now, tree[u[k].eff].tm))
=============================================================================
