------------------------------- MODULE FindSem -------------------------------
(***************************************************************************)
(* A whole run of find, composed from the per-property modules: the        *)
(* expression grammar and evaluation order (FindExpr), the reference walk  *)
(* with -prune / -quit / -depth / depth range / follow modes (FindWalk),   *)
(* the tests (Stat, Glob, Numeric) and the output actions (Printf).        *)
(*                                                                         *)
(* A command line is a sequence of words                                   *)
(*   [k |-> "op", t |-> "not" | "and" | "or" | "comma" | "lp" | "rp"]      *)
(*   [k |-> "test", q |-> a test record of Stat.TestHolds]                 *)
(*   [k |-> "glob", on |-> "name" | "path", pat |-> characters, fold]      *)
(*   [k |-> "const", v |-> BOOLEAN]   [k |-> "prune"]   [k |-> "quit"]     *)
(*   [k |-> "print", delim |-> 10 | 0]   [k |-> "printf", fmt |-> chars]   *)
(* Result: the bytes on standard output.                                   *)
(***************************************************************************)
EXTENDS FindExpr, Stat, Printf

TokOf(words, i) == IF words[i].k = "op" THEN words[i].t ELSE "L" \o ToString(i)
Toks(words) == [i \in DOMAIN words |-> TokOf(words, i)]
WordOf(words, tok) == words[CHOOSE i \in DOMAIN words : words[i].k # "op" /\ TokOf(words, i) = tok]

IsAction(w) == w.k \in {"print", "printf"}
SemHasAction(words) == \E i \in DOMAIN words : IsAction(words[i])
SemParse(words) == RefParse(Toks(words))

\* one primary on one entry: [v, out (bytes), quit, prune]
SRes(v, out, q, p) == [v |-> v, out |-> out, quit |-> q, prune |-> p]
WordEval(tree, cfg, start, e, w) ==
  IF w.k = "test" THEN SRes(TestHolds(tree, cfg, e, w.q), <<>>, FALSE, FALSE)
  ELSE IF w.k = "glob" THEN
       SRes(GlobMatch(w.pat, Utf8Decode(IF w.on = "name" THEN NameOf(e.path) ELSE e.path), w.fold), <<>>, FALSE, FALSE)
  ELSE IF w.k = "const" THEN SRes(w.v, <<>>, FALSE, FALSE)
  ELSE IF w.k = "prune" THEN SRes(TRUE, <<>>, FALSE, tree[e.eff].kind = "d")
  ELSE IF w.k = "quit" THEN SRes(TRUE, <<>>, TRUE, FALSE)
  ELSE IF w.k = "print" THEN SRes(TRUE, e.path \o <<w.delim>>, FALSE, FALSE)
  ELSE \* printf
       SRes(TRUE, RenderEntry([tree |-> tree, cfg |-> cfg, start |-> start], e, ParseFmt(Utf8(w.fmt)).comps), FALSE, FALSE)

SSeq(ra, rb) == SRes(rb.v, ra.out \o rb.out, rb.quit, ra.prune \/ rb.prune)
RECURSIVE SEval(_, _, _, _, _, _)
SEval(ast, words, tree, cfg, start, e) ==
  IF ast.op = "leaf" THEN WordEval(tree, cfg, start, e, WordOf(words, ast.t))
  ELSE IF ast.op = "not" THEN LET r == SEval(ast.a, words, tree, cfg, start, e) IN [r EXCEPT !.v = ~r.v]
  ELSE LET ra == SEval(ast.a, words, tree, cfg, start, e) IN
       IF ra.quit THEN ra
       ELSE IF ast.op = "and" /\ ~ra.v THEN ra
       ELSE IF ast.op = "or" /\ ra.v THEN ra
       ELSE SSeq(ra, SEval(ast.b, words, tree, cfg, start, e))

\* what find does on one entry: the expression, then -print iff there is no action and it is true
EntryEval(words, tree, cfg, start, e) ==
  LET r == IF words = <<>> THEN SRes(TRUE, <<>>, FALSE, FALSE) ELSE SEval(SemParse(words).ast, words, tree, cfg, start, e) IN
  [out |-> r.out \o (IF ~SemHasAction(words) /\ ~r.quit /\ r.v THEN e.path \o <<10>> ELSE <<>>),
   quit |-> r.quit, prune |-> ~r.quit /\ r.prune /\ ~cfg.depth]

\* one starting point: the entries on which -prune is evaluated are found on the unpruned walk (an entry's
\* evaluation does not depend on other entries), then the walk is cut there; output stops after -quit
RECURSIVE OutUntilQuit(_, _, _)
OutUntilQuit(evals, k, acc) ==
  IF k > Len(evals) THEN [out |-> acc, quit |-> FALSE]
  ELSE IF evals[k].quit THEN [out |-> acc \o evals[k].out, quit |-> TRUE]
  ELSE OutUntilQuit(evals, k + 1, acc \o evals[k].out)

RootSem(words, tree, cfg, root) ==
  IF root.node = 0 THEN [out |-> <<>>, quit |-> FALSE]
  ELSE LET plain == [cfg EXCEPT !.prune = {}]
           u == Walk(tree, plain, root.spell, root.node, 0, {}).ents
           pruned == {u[k].path : k \in {j \in DOMAIN u : EntryEval(words, tree, plain, root.spell, u[j]).prune}}
           w == Walk(tree, [plain EXCEPT !.prune = pruned], root.spell, root.node, 0, {}).ents
           ev == [k \in DOMAIN w |-> EntryEval(words, tree, plain, root.spell, w[k])]
       IN OutUntilQuit(ev, 1, <<>>)

RECURSIVE RootsSem(_, _, _, _, _, _)
RootsSem(words, tree, cfg, roots, r, acc) ==
  IF r > Len(roots) THEN acc
  ELSE LET x == RootSem(words, tree, cfg, roots[r]) IN
       IF x.quit THEN acc \o x.out ELSE RootsSem(words, tree, cfg, roots, r + 1, acc \o x.out)

FindOutput(words, tree, cfg, roots) == RootsSem(words, tree, cfg, roots, 1, <<>>)

\* is the behaviour fixed by the properties?  (formats within Printf's domain; no dangling -xtype subtleties; tests defined)
SemDom(words, tree, cfg, roots) ==
  /\ SemParse(words).ok
  /\ \A i \in DOMAIN words :
        /\ (words[i].k = "printf" =>
              /\ ParseFmt(Utf8(words[i].fmt)).ok
              /\ \A r \in DOMAIN roots : roots[r].node # 0 =>
                   LET u == Walk(tree, [cfg EXCEPT !.prune = {}], roots[r].spell, roots[r].node, 0, {}).ents IN
                   \A k \in DOMAIN u : EntryDom([tree |-> tree, cfg |-> cfg, start |-> roots[r].spell], u[k], ParseFmt(Utf8(words[i].fmt)).comps))
        /\ (words[i].k = "glob" => GlobInDomain(words[i].pat, words[i].fold))
=============================================================================
