------------------------------ MODULE XargsSem ------------------------------
(***************************************************************************)
(* A whole run of xargs, composed from the per-property modules: the input *)
(* bytes are split into arguments (XargsRead: default quoting rules, or -0 *)
(* / -d C), the arguments are cut into invocations (XargsBatch: -n -L -s   *)
(* -x -r), each invocation is the command with its initial arguments       *)
(* followed by the arguments of its batch, the invocations run until one   *)
(* ends fatally and the exit status is the documented function of their    *)
(* outcomes (XargsExec).                                                   *)
(* in = [stdin, delim (-1 = default mode), n, L, s, x, r, init (initial    *)
(*       arguments, byte strings), cmdlen (bytes of the command word),     *)
(*       script (outcome of the k-th invocation; 0 beyond its end),        *)
(*       afile (the input comes from -a FILE instead of standard input -   *)
(*       the same bytes, the same run), echo (no command at all: xargs     *)
(*       itself writes each invocation's arguments, blank-separated, as    *)
(*       one line on standard output), t (-t), P (-P N; 0 = absent)]       *)
(***************************************************************************)
EXTENDS Util, SequencesExt

R == INSTANCE XargsRead
B == INSTANCE XargsBatch
X == INSTANCE XargsExec WITH outs <- <<>>, k <- 0, result <- "", fin <- 0

Toks(in) == R!RefRead(in.stdin, in.delim)
BatchIn(in) ==
  LET t == Toks(in).toks IN
  [args |-> [i \in DOMAIN t |-> [len |-> Len(t[i].b), hard |-> t[i].hard]],
   n |-> in.n, L |-> in.L, s |-> in.s, x |-> in.x, r |-> in.r,
   cmd |-> in.cmdlen + 1 + SumSeq([a \in DOMAIN in.init |-> Len(in.init[a]) + 1])]
Argv(in, b) == in.init \o [j \in DOMAIN b |-> Toks(in).toks[b[j]].b]
OutcomeAt(script, j) == IF j <= Len(script) THEN script[j] ELSE 0

\* Is <<argvs, exit>> a behaviour the composition allows?
SemOK(in, argvs, exit) ==
  IF Toks(in).err THEN exit = 1 /\ \A j \in DOMAIN argvs : IsPrefixOf(in.init, argvs[j])      \* unterminated quote
  ELSE \E o \in B!RefOutcomes(BatchIn(in)) :
         LET outs == [j \in DOMAIN o.execs |-> OutcomeAt(in.script, j)]
             ex == X!RefExit(outs) IN
         IF o.exit = 0
         THEN /\ argvs = [j \in 1..ex.started |-> Argv(in, o.execs[j])]
              /\ exit = ex.exit
         ELSE /\ argvs = [j \in DOMAIN o.execs |-> Argv(in, o.execs[j])]
              /\ exit = 1

(***************************************************************************)
(* -I R (in.repl = R, a non-empty byte string).  The input is split at     *)
(* newlines only (or at the -0 / -d byte), every non-empty line is one     *)
(* invocation: the initial arguments with every occurrence of R replaced   *)
(* by the whole line, nothing appended.  The invocations run until one     *)
(* ends fatally; the exit status is the same function of their outcomes.   *)
(* Empty input runs nothing, with or without -r.                           *)
(***************************************************************************)
HasRepl(in) == "repl" \in DOMAIN in /\ in.repl # <<>>
ReplLines(in) == R!RefSplit(in.stdin, IF in.delim < 0 THEN 10 ELSE in.delim).toks
ReplArgv(in, line) == [a \in DOMAIN in.init |-> ReplaceSub(in.init[a], in.repl, line)]
ReplOK(in, argvs, exit) ==
  LET ls == ReplLines(in)
      outs == [j \in DOMAIN ls |-> OutcomeAt(in.script, j)]
      ex == X!RefExit(outs) IN
  /\ argvs = [j \in 1..ex.started |-> ReplArgv(in, ls[j].b)]
  /\ exit = ex.exit
\* stated for lines free of quotes, backslashes and leading blanks (C20), and within C19's outcomes
ReplDomain(in) ==
  /\ \A i \in DOMAIN in.stdin : in.stdin[i] \notin {39, 34, 92} /\ (in.delim # 0 => in.stdin[i] # 0)
  /\ \A j \in DOMAIN ReplLines(in) : ReplLines(in)[j].b[1] \notin {32, 9, 11, 12, 13}
  /\ X!InDomainOuts([j \in DOMAIN ReplLines(in) |-> OutcomeAt(in.script, j)])
  /\ in.n = 0 /\ in.L = 0 /\ in.s = 0

\* no command: what would have been the appended arguments of each invocation is one output line
Flag(in, f) == f \in DOMAIN in /\ in[f]
EchoLine(in, b) == Join([j \in DOMAIN b |-> Toks(in).toks[b[j]].b], <<32>>) \o <<10>>
EchoOK(in, stdout, exit, nlines) ==
  IF Toks(in).err THEN exit = 1
  ELSE \E o \in B!RefOutcomes(BatchIn(in)) :
         /\ stdout = Flatten([j \in DOMAIN o.execs |-> EchoLine(in, o.execs[j])])
         /\ exit = o.exit
         /\ nlines = IF "t" \in DOMAIN in /\ in.t THEN Len(o.execs) ELSE 0      \* -t announces each of them
\* stated for plain ASCII arguments (how other bytes are shown is the business of echo), no -s (the size of the
\* command that is not there) and of course no child outcomes
EchoDomain(in) ==
  /\ in.s = 0 /\ in.init = <<>> /\ in.script = <<>>
  /\ \A i \in DOMAIN in.stdin : in.stdin[i] < 128

\* -t: every command line is written to standard error before it is run, one line each; nothing of the kind without -t.
\* -P N: the invocations may overlap in time; what is run and the exit status are the same.
TraceLinesOK(in, nlines, started) == nlines = IF Flag(in, "t") THEN started ELSE 0

\* where the properties fix the outcome: input within C05's domain, outcomes within C19's, and no mixture of a
\* batching error with failing children (which status wins is not said)
SemDomain(in) ==
  /\ Toks(in).dom
  \* a NUL byte inside an argument cannot be handed to exec at all
  /\ (in.delim # 0 => \A i \in DOMAIN in.stdin : in.stdin[i] # 0)
  \* an input error together with failing children: which status wins is not said
  /\ (Toks(in).err => \A j \in DOMAIN in.script : in.script[j] = 0)
  /\ ~Toks(in).err =>
       \A o \in B!RefOutcomes(BatchIn(in)) :
          LET outs == [j \in DOMAIN o.execs |-> OutcomeAt(in.script, j)] IN
          /\ X!InDomainOuts(outs)
          /\ (o.exit = 1 => \A j \in DOMAIN outs : outs[j] = 0)
=============================================================================
