#!/usr/bin/env python3
import json,sys
L=open(sys.argv[1]).read().splitlines()
def s(b): return bytes(b).decode('utf-8','replace')
for k in sys.argv[2:]:
    r=json.loads(L[int(k)-1]); i=r['in']; t=i['tree']
    def path(n):
        c=[]
        while n: c.append(s(t[n-1]['name'])); n=t[n-1]['parent']
        return '/'.join(reversed(c))
    print('== rec',k)
    for n,x in enumerate(t,1): print('   ',n,x['kind'],path(n),('-> '+(path(x['target']) if x['target'] else 'DANGLING')) if x['kind']=='l' else '')
    print('  roots',[(s(x['spell']),x['node']) for x in i['roots']],'cfg',{k:(v if k!='prune' else [s(p) for p in v]) for k,v in i['cfg'].items()},'form',i.get('form'),'files0',i.get('files0'))
    o=r['obs']
    print('  OBS',[s(p) for p in o.get('paths',[])],o.get('exit'),o.get('diag'),o.get('panic'))
