#!/bin/sh
# drivers/fix_reverts.sh [FINDING-ID...]: every repaired defect ("fixed" entries of known_findings.json) must come
# back as a VIOLATION of its property when the repair is taken out again: the reverse of the fix commit is applied
# to /repo's working tree, the property's quick check is run, the tree is restored.  One line per entry on stdout:
#   <finding-id> <property> <commit> caught|MISSED|not-applicable(<why>)
# (a fix whose reverse no longer applies because a later fix rewrote the same lines uses the hand-written reverse
# seeded/REV/<finding-id>.diff if there is one, and is reported as not-applicable otherwise).
cd "$(dirname "$0")/.." || exit 2
V=$(pwd)
sel="$*"
python3 - "$sel" <<'EOF' > /tmp/fix_reverts.$$.list
import json, sys
sel = sys.argv[1].split()
seen = set()
for e in json.load(open("known_findings.json"))["findings"]:
    if e.get("status") == "fixed" and e.get("commit") and (not sel or e["id"] in sel):
        print(e["id"], e["property"], e["commit"])
EOF
while read id prop commit; do
  cd /repo || exit 2
  git checkout -q HEAD -- . && git reset -q
  how=""
  if [ -f "$V/seeded/REV/$id.diff" ]; then
    # a later repair rewrote the same lines: the reverse was written by hand against the current tree
    cp "$V/seeded/REV/$id.diff" /tmp/fix_reverts.$$.diff; how=" (reverse written by hand, seeded/REV/$id.diff)"
  else
    git diff "$commit" "$commit~1" -- src > /tmp/fix_reverts.$$.diff
  fi
  if ! git apply /tmp/fix_reverts.$$.diff 2>/dev/null; then
    if ! git apply --3way /tmp/fix_reverts.$$.diff >/dev/null 2>&1; then
      git checkout -q HEAD -- . ; git reset -q
      echo "$id $prop $commit not-applicable(reverse patch conflicts with later fixes)"; continue
    fi
    git reset -q
  fi
  if ! cargo build --offline --bins --manifest-path /repo/Cargo.toml --target-dir "$V/build/repo-target" >/dev/null 2>&1; then
    git checkout -q HEAD -- . ; git reset -q
    echo "$id $prop $commit not-applicable(tree does not build without the fix)"; continue
  fi
  cd "$V"
  out=$(./check "$prop" ${TIER:-quick} 2>&1); r=$?
  nv=$(echo "$out" | grep -c '^VIOLATION')
  if [ $r -eq 1 ] && [ "$nv" -gt 0 ]; then echo "$id $prop $commit caught ($nv VIOLATION lines)$how"
  elif [ $r -eq 2 ]; then echo "$id $prop $commit TOOL-ERROR $(echo "$out" | grep -E 'TOOL ERROR' | head -1 | cut -c1-200)"
  else echo "$id $prop $commit MISSED$how"; fi
  cd /repo && git checkout -q HEAD -- . && git reset -q
done < /tmp/fix_reverts.$$.list
rm -f /tmp/fix_reverts.$$.list /tmp/fix_reverts.$$.diff
