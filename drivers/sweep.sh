#!/bin/sh
# drivers/sweep.sh <tier> <seed>... : every claimed check with each seed; prints one line per run
tier=$1; shift
cd "$(dirname "$0")/.."
for seed in "$@"; do
  for id in $(python3 -c "import json;print(' '.join(c['property_id'] for c in json.load(open('MANIFEST.json'))['checks']))"); do
    out=$(VERIF_SEED=$seed ./check $id $tier 2>&1); rc=$?
    echo "seed=$seed $id rc=$rc $(echo "$out" | tail -1)"
    if [ $rc -ne 0 ]; then cp build/last_failures.$id.jsonl build/sweep_fail.$id.$seed.jsonl 2>/dev/null; echo "$out" | grep -E "TOOL ERROR|VIOLATION" | head -3; fi
  done
done
