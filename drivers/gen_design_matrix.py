#!/usr/bin/env python3
"""Rewrites section 9 of DESIGN.md from seeded/RESULTS.txt (the output of drivers/mutant_matrix.sh, quick tier)
and the seeded/<id>/meta.json files."""
import json, os, re
V = os.path.dirname(os.path.dirname(os.path.abspath(__file__)))
res = {}
for line in open(os.path.join(V, "seeded", "RESULTS.txt")):
    m = re.match(r"^(C\d\d[a-z]) (C\d\d) rc=(\d+): (\d+) VIOLATION", line)
    if m:
        res[m.group(1)] = (m.group(2), int(m.group(3)), int(m.group(4)))
rows = ["| change | what it does (one line) | needs | quick check of its property |", "|---|---|---|---|"]
for sid in sorted(os.listdir(os.path.join(V, "seeded"))):
    mp = os.path.join(V, "seeded", sid, "meta.json")
    if not os.path.exists(mp):
        continue
    m = json.load(open(mp))
    summ = m["summary"].split(". ")[0][:170].replace("|", "\\|")
    needs = m["needs"].split(". ")[0][:150].replace("|", "\\|")
    r = res.get(sid)
    verdict = "not run" if r is None else ("**caught** (%d violation lines)" % r[2] if r[1] == 1 else ("tool error" if r[1] == 2 else "missed"))
    rows.append("| %s | %s | %s | %s |" % (sid, summ, needs, verdict))
caught = sum(1 for r in res.values() if r[1] == 1)
text = ("%d of %d seeded changes are caught by the quick tier of the check of the property they break "
        "(`drivers/mutant_matrix.sh`, seed 20260928; every change confirmed as described in section 7).\n\n" % (caught, len(res))) + "\n".join(rows) + "\n"
fr = os.path.join(V, "seeded", "FIX_REVERTS.txt")
if os.path.exists(fr):
    rows2 = ["| repaired defect | property | fix commit | quick check with the repair taken out |", "|---|---|---|---|"]
    n2 = c2 = 0
    for line in open(fr):
        parts = line.split(None, 3)
        if len(parts) < 4 or not re.match(r"^C\d\d$", parts[1]):
            continue
        n2 += 1
        verdict = parts[3].strip()
        if verdict.startswith("caught"):
            c2 += 1
            verdict = "**" + verdict.replace("caught", "caught**", 1)
        rows2.append("| %s | %s | `%s` | %s |" % (parts[0], parts[1], parts[2], verdict))
    text += ("\n### Repairs taken out again\n\n`drivers/fix_reverts.sh`: the reverse of each `fix:` commit applied to the working tree, then the quick check "
             "of the property (%d of %d come back as violations; 'not-applicable' = a later repair rewrote the same lines, so the "
             "reverse patch does not apply).\n\n" % (c2, n2)) + "\n".join(rows2) + "\n"
p = os.path.join(V, "DESIGN.md")
s = open(p).read()
k = s.index("<!-- MATRIX -->")
s = s[:k] + "<!-- MATRIX -->\n" + text
open(p, "w").write(s)
print(caught, "of", len(res))
