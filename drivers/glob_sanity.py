#!/usr/bin/env python3
"""Development aid (not an oracle of any check): compares the TLA+ reference matcher's verdicts, as printed
by MC_Glob, with glibc fnmatch(3) on in-domain patterns.  usage: glob_sanity.py <tlc output>"""
import json, ctypes, collections, sys
libc = ctypes.CDLL("libc.so.6")
libc.setlocale(6, b"C.UTF-8")
FNM_CASEFOLD = 16
subj = {}; vecs = []
for l in open(sys.argv[1]):
    l = l.strip()
    if l.startswith('<<"SUBJ"'):
        k, js = l[len('<<"SUBJ", '):-2].split(", ", 1)
        subj[int(k)] = json.loads(json.loads(js))
    elif l.startswith('<<"VEC"'):
        vecs.append(json.loads(json.loads(l[len('<<"VEC", '):-2])))
def enc(cs): return ''.join(chr(c) for c in cs).encode('utf8')
bad = collections.Counter(); ex = []; nd = 0
for v in vecs:
    pat = enc(v['in']['pat']); fold = v['in']['fold']
    if not v['exp']['dom']:
        nd += 1; continue
    m = set(v['exp']['m'])
    for k, s in subj.items():
        r = libc.fnmatch(pat, enc(s), FNM_CASEFOLD if fold else 0) == 0
        if r != (k in m):
            bad[(pat, fold)] += 1
            if len(ex) < 40: ex.append((pat, fold, enc(s), 'glibc-matches' if r else 'spec-matches'))
print(len(subj), "subjects", len(vecs), "patterns; out of domain", nd, "; patterns disagreeing with glibc:", len(bad))
for e in ex: print("  ", e)
