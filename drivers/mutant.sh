#!/bin/sh
# drivers/mutant.sh <patch.diff> <PROPERTY>... : apply a seeded change to /repo, run the quick checks, undo it.
patch=$(readlink -f "$1"); shift
cd /repo || exit 2
git checkout -q HEAD -- . && git reset -q
if ! git apply "$patch" 2>/dev/null; then
  git apply --3way "$patch" >/dev/null 2>&1 || { echo "PATCH DOES NOT APPLY: $patch"; git checkout -q HEAD -- .; git reset -q; exit 3; }
fi
cd /verif
rc=0
for id in "$@"; do
  out=$(./check "$id" ${TIER:-quick} 2>&1); r=$?
  echo "$id rc=$r: $(echo "$out" | grep -c '^VIOLATION') VIOLATION lines; $(echo "$out" | grep -E 'TOOL ERROR' | head -1 | cut -c1-300)"
  [ $r -ne 0 ] && rc=$r
done
cd /repo && git checkout -q HEAD -- . && git reset -q
exit $rc
