#!/bin/sh
# TLC with the spec directory on the module search path.
HERE=$(cd "$(dirname "$0")/.." && pwd)
exec java -XX:+UseParallelGC -Xss1g ${TLC_XMX:--Xmx8g} -DTLA-Library="$HERE/spec" $TLC_JAVA_OPTS \
  -cp /opt/veriftools/tla/tla2tools.jar:/opt/veriftools/tla/CommunityModules-deps.jar tlc2.TLC "$@"
