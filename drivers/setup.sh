#!/bin/sh
# MANIFEST.setup_cmd: build everything the checks need, offline, from files on disk.
set -e
cd "$(dirname "$0")/.."
export CARGO_NET_OFFLINE=true
mkdir -p build evidence
cargo build --offline --bins --manifest-path /repo/Cargo.toml --target-dir build/repo-target
(cd harness && cargo build --offline)
# the same binaries with the verification hooks compiled in (event traces of the xargs loop)
RUSTFLAGS="--cfg findutils_verif" cargo build --offline --bins --manifest-path /repo/Cargo.toml --target-dir build/repo-target-verif
# parse every specification module once (SANY), so that a broken spec is a setup failure
for f in spec/*.tla spec/mc/*.tla spec/trace/*.tla; do
  [ -f "$f" ] || continue
  java -DTLA-Library="$PWD/spec:$PWD/spec/mc" -cp /opt/veriftools/tla/tla2tools.jar:/opt/veriftools/tla/CommunityModules-deps.jar tla2sany.SANY "$f" >build/sany.log 2>&1 || { cat build/sany.log; echo "SANY failed on $f"; exit 1; }
done
echo setup ok
