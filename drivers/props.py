"""Per-property configuration of the generic pipeline in check.py, and the matchers that
recognise the (narrow) signatures of the open findings listed in known_findings.json."""

PROPS = {}
NOT_CLAIMED = {}
HOOK_COMMITS = ["16a14b9"]

PROPS["C05"] = dict(
    level_text="Bounded-exhaustive model checking of the reader state machine against the reference tokenisation over all inputs up to K "
               "and all read() chunkings, plus conformance of the real readers in both directions (every bounded input replayed under every "
               "chunking; random long inputs and chunkings validated by TLC). Chunk-independence is a for-all-schedules statement: only an "
               "exhaustive exploration of the cuts can settle it for the bounded inputs.",
    level_note="Trusted: TLC, the harness's chunked Read implementation behind the hook (returns exactly the caller's chunks), the domain "
               "exclusions named in the evidence. Bounds: K and alphabet in spec/mc/MC_C05_*.cfg.",
    mc=[dict(module="mc/MC_C05.tla", cfg=dict(quick="mc/MC_C05_quick.cfg", thorough="mc/MC_C05_thorough.cfg"))],
    record=dict(quick=600, thorough=30000),
    selftest=dict(quick=40, thorough=300),
    trace=dict(module="trace/T_C05.tla", cfg="trace/T_C05.cfg"),
    rule="MC: every byte string up to K over {a,blank,newline,',\",\\} x every cut into read() chunks (nondeterministic Refill), "
         "implementation-shaped reader = reference tokenisation; every such string is also a vector replayed through the "
         "cfg(findutils_verif) hook under every chunking (with and without EINTR before each chunk). "
         "Trace: seeded random inputs (quotes, escapes, multi-byte UTF-8, -0/-d delimiters, 4096-byte buffer edge) with random chunkings, "
         "validated by TLC against RefRead.",
    exhaustive_note="bounded-exhaustive over the MC alphabet and length",
    assumptions=["default-mode domain excludes NUL, VT, FF, CR, a word consisting only of an empty quote pair, and a dangling backslash at end of input "
                 "(the property leaves them open)",
                 "the hook runs the same private reader types xargs uses; the pipe between a real producer and the xargs binary is covered by C07"],
)
