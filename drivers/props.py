"""Per-property configuration of the generic pipeline in check.py, and the matchers that
recognise the (narrow) signatures of the open findings listed in known_findings.json."""

PROPS = {}
NOT_CLAIMED = {}
HOOK_COMMITS = ["16a14b9", "e75c637", "1973121", "54a7376", "f0d5c66"]

PROPS["C05"] = dict(
    level_text="Bounded-exhaustive model checking of the reader state machine against the reference tokenisation over all inputs up to K "
               "and all read() chunkings, plus conformance of the real readers in both directions (every bounded input replayed under every "
               "chunking; random long inputs and chunkings validated by TLC). Chunk-independence is a for-all-schedules statement: only an "
               "exhaustive exploration of the cuts can settle it for the bounded inputs.",
    level_note="Trusted: TLC, the harness's chunked Read implementation behind the hook (returns exactly the caller's chunks), the domain "
               "exclusions named in the evidence. Bounds: K and alphabet in spec/mc/MC_C05_*.cfg.",
    mc=[dict(module="mc/MC_C05.tla", cfg=dict(quick="mc/MC_C05_quick.cfg", thorough="mc/MC_C05_thorough.cfg")),
        # the reader for -0 / -d C (BufReader::read_until in a loop) against RefSplit: every byte string x delimiter x chunking
        dict(module="mc/MC_C05d.tla", cfg=dict(quick="mc/MC_C05d_quick.cfg", thorough="mc/MC_C05d_thorough.cfg"))],
    record=dict(quick=600, thorough=30000),
    selftest=dict(quick=40, thorough=300),
    trace=dict(module="trace/T_C05.tla", cfg="trace/T_C05.cfg"),
    rule="MC: every byte string up to K over {a,blank,newline,',\",\\} x every cut into read() chunks (nondeterministic Refill), "
         "implementation-shaped reader = reference tokenisation; every such string is also a vector replayed through the "
         "cfg(findutils_verif) hook under every chunking (with and without EINTR before each chunk). "
         "Trace: seeded random inputs (quotes, escapes, multi-byte UTF-8, -0/-d delimiters, 4096-byte buffer edge) with random chunkings, "
         "validated by TLC against RefRead. MC_C05d: the -0/-d reader (read_until loop) for every byte string up to K over {a,NUL,newline,',\\,blank} "
         "x delimiters {NUL, newline, a} x every chunking = RefSplit; vectors replayed through the hook with their delimiter.",
    exhaustive_note="bounded-exhaustive over the MC alphabet and length",
    assumptions=["default-mode domain excludes NUL, VT, FF, CR and a dangling backslash at end of input (the property leaves them open)",
                 "the hook runs the same private reader types xargs uses; the pipe between a real producer and the xargs binary is covered by C07"],
)

PROPS["C04"] = dict(
    level_text="The batching loop with its limiter chain is model-checked against the declarative limits (lossless, within -n/-L/-s, maximal, "
               "empty-input and oversize rules) over all small argument sequences and option combinations; the real xargs binary is driven "
               "with every such input (recorder command logs each argv) and with seeded random inputs up to thousands of arguments whose "
               "recorded invocations TLC checks against the reference outcomes. Whole runs (real input bytes, -0/-d, outcome scripts) are validated against "
               "the composed specification XargsSem. Event-level: the binary built with the verification hook logs every step of the loop (limiter "
               "counters after each accepted argument, dispatches, exit status) and TLC steps the implementation-shaped machines XargsBatchImpl + "
               "XargsExec along the events, with the system budget derived from KernelExec for the run's stack limit and environment.",
    level_note="Trusted: TLC, the recorder command, the synthesis of stdin from (length, line-end) sequences. The operating system's total budget is "
               "C06's subject; of the system's rules only the limit on a single argument string takes part here. Bounds in spec/mc/MC_C04_*.cfg.",
    mc=[dict(module="mc/MC_C04.tla", cfg=dict(quick="mc/MC_C04_quick.cfg", thorough="mc/MC_C04_thorough.cfg"), workers=12)],
    record=dict(quick=700, thorough=12000),
    selftest=dict(quick=40, thorough=200),
    trace=dict(module="trace/T_C04.tla", cfg="trace/T_C04.cfg"),
    trace_chunk=400,
    # second recorded-run stage: whole xargs runs against the composed specification XargsSem (real input bytes through the
    # reference tokenisation / -0 / -d splitting, batching, argv = initial arguments + batch, children's outcomes -> exit status)
    more=[dict(record_vh="XSEM", record=dict(quick=500, thorough=10000), trace=dict(module="trace/T_XSem.tla", cfg="trace/T_XSem.cfg"), trace_chunk=500),
          # third stage: event-level traces of the loop itself (binary built with the verification hook): the limiter counters after
          # every step, every dispatch and the exit status must be a behaviour of XargsBatchImpl + XargsExec
          dict(record_vh="XLOOP", record=dict(quick=160, thorough=3000), trace=dict(module="trace/T_XLoop.tla", cfg="trace/T_XLoop.cfg"), trace_chunk=40)],
    rule="MC: all argument sequences up to MAXARGS over lengths LENS x line-end flags x n x L x s x -x x -r x system budget; "
         "vectors = those inputs with the system budget not binding; trace: random sequences (0..3000 arguments, lengths 1..60, "
         "varied separators incl. blank-before-newline continuation), options drawn at random.",
    exhaustive_note="bounded-exhaustive",
    assumptions=["children all exit 0 (exit-status aggregation is C19)", "total argument size below the OS budget (C06)"],
)

PROPS["C19"] = dict(
    level_text="The sticky-result loop is model-checked over all outcome sequences up to MAXLEN; every such sequence is replayed on the real xargs "
               "binary with a recorder command whose exit status / fatal signal is scripted per invocation, and random longer scripts are validated by TLC.",
    level_note="Trusted: TLC, the recorder's scripted outcomes. Child statuses 126..254 are left open by the property and skipped.",
    mc=[dict(module="mc/MC_C19.tla", cfg=dict(quick="mc/MC_C19_quick.cfg", thorough="mc/MC_C19_thorough.cfg"))],
    record=dict(quick=300, thorough=5000),
    selftest=dict(quick=30, thorough=100),
    trace=dict(module="trace/T_C19.tla", cfg="trace/T_C19.cfg"),
    # event-level traces of the loop (dispatches, early return on a fatal outcome, exit status) against XargsBatchImpl + XargsExec
    more=[dict(record_vh="XLOOP", record=dict(quick=120, thorough=2000), trace=dict(module="trace/T_XLoop.tla", cfg="trace/T_XLoop.cfg"), trace_chunk=40)],
    rule="MC: every sequence of child outcomes (0, 1..125, 255, killed by signal) up to MAXLEN; trace: random scripts up to 200 invocations with -n 1..3, "
         "missing / non-executable command, bad option values, unterminated quote, oversize argument.",
    exhaustive_note="bounded-exhaustive",
    assumptions=["outcomes 126..254 of a child are outside the property"],
)

PROPS["C20"] = dict(
    level_text="Mode selection among -I/-n/-L and the replace-mode run are specified in TLA+; TLC enumerates all option orders, templates and line lists "
               "within the bounds, checks the laws (one run per non-empty line, nothing appended, last option wins, -n 1 compatible) and prints each "
               "case as a vector replayed on the real binary; random larger cases are validated by TLC.",
    level_note="Trusted: TLC, the recorder. Domain as the property states it (lines free of quotes, backslashes, leading/trailing blanks).",
    mc=[dict(module="mc/MC_C20.tla", cfg=dict(quick="mc/MC_C20_quick.cfg", thorough="mc/MC_C20_thorough.cfg"))],
    record=dict(quick=400, thorough=6000),
    selftest=dict(quick=30, thorough=100),
    trace=dict(module="trace/T_C20.tla", cfg="trace/T_C20.cfg"),
    rule="MC: all sequences of up to MAXOPTS options from {-I R, -I {}, -n 1, -n 2, -L 1, -L 2} x 6 templates x all line lists up to MAXLINES over "
         "{a, 'b c', R, empty}; trace: random options (-I/-i/--replace[=R]), templates with 0..many occurrences, multi-byte text.",
    exhaustive_note="bounded-exhaustive",
    assumptions=[],
)


PROPS["C01"] = dict(
    level_text="The expression language is specified twice in TLA+ - the grammar of the property as a recursive-descent recogniser with a big-step "
               "evaluation (short-circuit, ',' evaluating both sides, default -print iff no action token, -quit ending everything, -prune cutting "
               "the subtree), and the token-by-token builder with its frame stack, inversion flag, look-ahead and loop evaluators as the code has "
               "them; TLC feeds every token sequence up to L to the builder and checks verdict and per-file behaviour against the reference for "
               "every valuation, plus laws of the reference (parentheses neutral, juxtaposition = -a, double negation). Every sequence, accepted "
               "or not, is replayed on the real find over a fixture whose visit order is forced; random deep expressions on random trees are "
               "validated by TLC.",
    level_note="Trusted: TLC; the harness's mapping of abstract tokens to real primaries (-name/-iname/-regex tests on letters it puts into the "
               "file names, labelled -printf/-print0/-print actions, several always-true options) and its decoding of the output records. "
               "A leading ',' or ')' is not judged (operand scan). Bounds in spec/mc/MC_Expr_*.cfg.",
    mc=[dict(module="mc/MC_Expr.tla", cfg=dict(quick="mc/MC_Expr_quick.cfg", thorough="mc/MC_Expr_thorough.cfg"), workers=8),
        # the composed specification on a bounded space of real primaries (laws tie it to its parts; exact stdout bytes as vectors)
        dict(module="mc/MC_Sem.tla", cfg=dict(quick="mc/MC_Sem_quick.cfg", thorough="mc/MC_Sem_thorough.cfg"), workers=6, vh="SEM")],
    record=dict(quick=1500, thorough=40000),
    selftest=dict(quick=40, thorough=200),
    trace=dict(module="trace/T_Expr.tla", cfg="trace/T_Expr.cfg"),
    trace_chunk=1500,
    # second recorded-run stage: the composed specification of a whole find run (FindSem: grammar and evaluation order
    # over the real tests of Stat/Glob/Numeric, -print/-print0/-printf, -prune, -quit, depth range, follow modes)
    more=[dict(record_vh="SEM", record=dict(quick=400, thorough=8000), trace=dict(module="trace/T_Find.tla", cfg="trace/T_Find.cfg"), trace_chunk=300)],
    rule="MC: every token sequence up to L over 15 tokens (2 tests, 2 actions, -true, -false, -prune, -quit, an option, ! -a -o , ( )); "
         "builder machine = reference grammar and evaluation on all 8 valuations; each sequence is a vector (verdict + output on a 5-entry chain). "
         "Trace: random expressions up to ~40 tokens, nesting up to 6, 6 tests, up to 3 actions, 1 in 6 damaged, on random trees up to 14 entries "
         "(-sorted) or chains; second stage: random expressions whose leaves are real tests (-type -xtype -perm -uid -gid -size -empty -samefile "
         "-name -iname -path), -print/-print0/-printf, -prune, -quit on random trees with links, fifos, sockets, hard links, owners, modes - the "
         "bytes on stdout must be those the composed specification FindSem computes from the attributes read back.",
    exhaustive_note="bounded-exhaustive over token sequences up to L",
    assumptions=["the fixture contains no entry on which a test or action can fail"],
)

PROPS["C11"] = dict(
    level_text="What makes a command line malformed is specified in TLA+: the operator grammar (FindExpr, shared with C01) and per-primary operand "
               "classifiers (FindCli: numeric, -size, -type, -perm, -printf, -regextype, -exec shapes, file references, users, depths; each "
               "valid / invalid / left open). TLC (a) feeds every token sequence up to L to the builder machine and compares its verdict with the "
               "grammar, (b) enumerates every operand string up to K over per-primary alphabets of valid characters, near-misses and junk and "
               "checks laws of the classifiers; every rejected sequence and every operand is replayed on the real find (destructive actions "
               "-delete/-exec in the expression, sandbox snapshot, recorder log, stdout) - rejected means diagnostic, non-zero status and no effect at all; "
               "random whole command lines with arbitrary operands on a hostile tree (unknown owners, fifo, socket, link loops, non-UTF-8 names) are run "
               "as the real binary and validated by TLC: never a panic, abort or hang.",
    level_note="Trusted: TLC; the harness's fixture construction, sandbox snapshot and panic detection (exit 101 / signal / 'panicked at' / 20 s timeout). "
               "Exhaustive over all strings is impossible: the operand classes and alphabets in spec/mc/MC_Operand.tla name what is covered. Where "
               "tradition is lenient or the property silent the classifier says 'unspec' and only 'no panic' is required.",
    mc=[dict(module="mc/MC_Expr.tla", cfg=dict(quick="mc/MC_Expr_quick.cfg", thorough="mc/MC_Expr_thorough.cfg"), workers=8),
        dict(module="mc/MC_Operand.tla", cfg=dict(quick="mc/MC_Operand_quick.cfg", thorough="mc/MC_Operand_thorough.cfg"), workers=4, vh="C11o")],
    record=dict(quick=1200, thorough=30000), record_vh="C11o",
    selftest=dict(quick=40, thorough=200),
    trace=dict(module="trace/T_Cli.tla", cfg="trace/T_Cli.cfg"),
    trace_chunk=1500,
    rule="MC_Expr: every token sequence up to L (verdict of the builder machine = grammar); MC_Operand: every operand up to K over 8 primary kinds; "
         "trace: random command lines of up to ~25 words with operands from valid / near-miss / junk pools, 1 in 5 structurally damaged, "
         "on the hostile fixture, as the real binary.",
    exhaustive_note="bounded-exhaustive over token sequences up to L and operand strings up to K",
    assumptions=["a leading ',' or ')' is taken for a starting point by the operand scan and not judged",
                 "operands the property leaves open (fractions, '++1', +MODE, lists for -type, unknown printf directives, regex syntax errors other than '[') are only required not to panic"],
)

PROPS["C12"] = dict(
    level_text="fnmatch() on whole strings is transcribed into TLA+ as a recursive relation (wildcards, backslash quoting, bracket expressions with "
               "negation, ranges, classes, the literal unmatched '[', the never-matching trailing backslash, ASCII case folding); TLC enumerates "
               "every pattern up to LP characters with and without folding against a universe of 177 subject strings, checks laws of the "
               "relation (literal patterns match only themselves, no '*' => one unit per character, '*' monotone, [!x] complements [x]) and prints "
               "for each pattern the set of subjects it matches; the real find is run per pattern with -lname over links whose targets are the "
               "subjects and with -name / -path over files named after them; random longer patterns with tailored subjects are validated by TLC.",
    level_note="Trusted: TLC; the harness's fixture (links / files per subject, UTF-8 encoding of code points). The reference relation was compared "
               "with glibc fnmatch(3) during development (drivers/glob_sanity.py); that comparison is not part of the check. Out of the property's "
               "domain and skipped: '^' negation, reversed ranges, [. .] [= =], malformed [: :], backslash inside brackets, non-ASCII or "
               "mixed-case ranges and [:upper:]/[:lower:] under case folding.",
    mc=[dict(module="mc/MC_Glob.tla", cfg=dict(quick="mc/MC_Glob_quick.cfg", thorough="mc/MC_Glob_thorough.cfg"), workers=8)],
    record=dict(quick=500, thorough=10000),
    selftest=dict(quick=40, thorough=200),
    trace=dict(module="trace/T_Glob.tla", cfg="trace/T_Glob.cfg"),
    trace_chunk=300,
    rule="MC: every pattern up to LP over {a A * ? [ ] ! - \\ .} x {fold, no fold} against 177 subjects (all strings of 1-2 characters over "
         "{a A b ] - ! \\ [ / .}, all 3-character strings over {a / . newline}, e-acute, a+e-acute, an emoji); "
         "trace: random patterns up to 12 units (stars, classes, ranges, negations, stray brackets and regex metacharacters) with 6-15 subjects "
         "derived from the pattern by mutation.",
    exhaustive_note="bounded-exhaustive over patterns up to LP",
    assumptions=["-name is judged on subjects that can be file names (no '/', not '.' or '..')"],
)

PROPS["C17"] = dict(
    level_text="Patterns are abstract syntax trees; membership of a string in the language of a tree is defined declaratively in TLA+ (sets of end "
               "positions - no notion of first alternative or greediness), and each tree is written out in emacs, posix-basic/ed/sed, "
               "posix-extended and grep syntax by the specification. TLC enumerates every tree up to size N x syntax x -regex/-iregex x "
               "anchored-or-not, checks laws (alternation commutes, grouping neutral, x+ = xx*, -iregex selects a superset) and prints the set "
               "of fixture paths each pattern selects; a second instance enumerates command-line shapes with -regextype before, inside and after "
               "parentheses (positional: the nearest preceding one is in force). All cases are replayed on the real find; random larger trees "
               "with subjects sampled from their language are validated by TLC.",
    level_note="Trusted: TLC; the harness's fixture and, for recorded runs, its rendering of trees - re-rendered by the specification and only judged "
               "when identical. Constructs POSIX leaves undefined in a syntax (\\| \\+ \\? in basic expressions, intervals in emacs) are out of domain; "
               "back-references and syntax-specific extensions are not covered.",
    mc=[dict(module="mc/MC_Regex.tla", cfg=dict(quick="mc/MC_Regex_lang_quick.cfg", thorough="mc/MC_Regex_lang_thorough.cfg"), workers=8),
        dict(module="mc/MC_Regex.tla", cfg=dict(quick="mc/MC_Regex_scope_quick.cfg", thorough="mc/MC_Regex_scope_thorough.cfg"), workers=8)],
    record=dict(quick=600, thorough=15000),
    selftest=dict(quick=40, thorough=200),
    trace=dict(module="trace/T_Regex.tla", cfg="trace/T_Regex.cfg"),
    trace_chunk=300,
    rule="MC lang: all trees up to size N over atoms {a, b, ., [ab], [^a]} with star/plus/opt/group/interval/cat/alt x {no -regextype, 6 syntaxes} x icase x "
         "{pattern prefixed by the literal r/, bare}; 15 fixture paths (r, r/a .. r/b/ab, r/A, r/aB). MC scope: trees up to size 2 x 8 shapes x 9 type pairs. "
         "Trace: random trees up to size 12 over 10 characters incl. regex metacharacters as literals, subjects sampled from the language and mutated.",
    exhaustive_note="bounded-exhaustive over trees up to size N",
    assumptions=[],
)

PROPS["C14"] = dict(
    level_text="The reading of numeric operands (N equal, +N greater, -N less) and the round-up unit conversion of -size are a small TLA+ module; TLC "
               "enumerates every unit x operand x file sizes k*unit-1, k*unit, k*unit+1 (symbolic beyond 2^31) and numerals near 2^63/2^64, checks the "
               "property's own sentences as invariants (exactly one of the three forms per file, monotonicity, -size -1<unit> only empty files, "
               "-size 1M = 1..2^20 bytes, rounding up) and prints which files each form selects; the real find is run on sparse files of exactly those "
               "sizes (and on files with given link counts and owner ids, and - for the time tests - ages from two periods in the future to three in "
               "the past under an injected clock); random operands and sizes, and inode numbers as the file system assigns them, are validated by TLC. "
               "The same sentences are proved for ALL operands and sizes with TLAPS (spec/proofs/NumericLaws.tla, 243 obligations, SMT).",
    level_note="Trusted: TLC; the harness's creation of sparse files / hard links / chown and its reading back of inode numbers. TLC integers are 32 bit: "
               "sizes are k*unit+d symbolically or below 2^31 bytes; operands at 2^63-1, 2^63, 2^64-1 stand for 'larger than anything'. Numerals of "
               "2^64 and above are left to C11. What the time tests measure is C15's subject; here only how N, +N, -N are read. TLAPS/SMT is trusted for the proofs.",
    # the same laws for all operands and all sizes: TLAPS (SMT back end), see spec/proofs/NumericLaws.tla
    proofs=[dict(module="proofs/NumericLaws.tla")],
    mc=[dict(module="mc/MC_Num.tla", cfg=dict(quick="mc/MC_Num_quick.cfg", thorough="mc/MC_Num_thorough.cfg"), workers=4)],
    record=dict(quick=400, thorough=8000),
    selftest=dict(quick=40, thorough=200),
    trace=dict(module="trace/T_Num.tla", cfg="trace/T_Num.cfg"),
    trace_chunk=1000,
    rule="MC: {c w b k M G, none} x N in 0..NMAX and three huge numerals x {files of k*unit+d bytes for k<=KMAX, d in -1..1; 12 byte sizes around 512, 1024, 2^20}; "
         "links/uid/gid values 1..4; all three forms per case. Trace: random units, operands, sizes (symbolic and concrete), link counts, ids, inode numbers.",
    exhaustive_note="bounded-exhaustive",
    assumptions=[],
)

PROPS["C15"] = dict(
    level_text="Ages are whole elapsed periods of (now - timestamp) on <<sec, nsec>> pairs, -newer/-newerXY a strict comparison of the entry's X with "
               "the reference's Y at full resolution - a small TLA+ module. TLC enumerates ages k*period - 1ns, k*period, +1ns, +1s, mid-period for days "
               "and minutes x the three timestamp kinds x operands, and every XY pair (but cc) with the entry one ns / one s before, at, or after the "
               "reference, checks the property's sentences (trichotomy, fraction discarded, own timestamp only, strictness) and prints the prescribed "
               "selection; the harness realises each case with utimensat and an injected clock (ctime cases: the clock or the other file is placed "
               "relative to the ctime read back) and runs the real find in-process; random cases record the raw timestamps and TLC judges all 6 age "
               "tests and all 12 newer forms on them.",
    level_note="Trusted: TLC; utimensat/lstat; the injected Dependencies::now(). Distractor values are put into the timestamps a test must not consult. "
               "ctime-vs-ctime can only be ordered, not placed, so it is judged in recorded runs only. Ages < 0 and -daystart are outside the property.",
    mc=[dict(module="mc/MC_Time.tla", cfg=dict(quick="mc/MC_Time_quick.cfg", thorough="mc/MC_Time_thorough.cfg"), workers=4)],
    record=dict(quick=300, thorough=6000),
    selftest=dict(quick=40, thorough=200),
    trace=dict(module="trace/T_Time.tla", cfg="trace/T_Time.cfg"),
    trace_chunk=1000,
    rule="MC: {a,m,c} x {day,min} x ages around k*period (k<=KMAX) x N<=NMAX, three forms each; 8 XY pairs x 5 deltas. "
         "Trace: random offsets at period boundaries for the four settable timestamps, now relative to the real clock or to an observed timestamp; "
         "21 tests per run.",
    exhaustive_note="bounded-exhaustive",
    assumptions=["the file system keeps nanosecond timestamps (tmpfs)"],
)

PROPS["C16"] = dict(
    level_text="The format language (escapes, %%, directives with '-' flag and width) and the value of every directive are specified in TLA+ on top of the "
               "reference walk: an entry's attributes come from the tree node the follow mode selects, %H/%P/%f/%h from the path and the starting point "
               "as spelled. TLC enumerates every format string up to LF characters over literals (one multi-byte), '%', backslash, '-', a width digit and "
               "directive/escape letters x {-P,-L} x three spellings of the starting point on a tree with links to a file, to a directory and nowhere, "
               "checks laws (literal text verbatim, %p = path, %H '/' %P = %p, %h '/' %f = %p, padding exact and never truncating, %y = what the follow mode "
               "resolves) and prints the prescribed output bytes; the real find is run on the materialised tree. Random formats on random trees with "
               "attributes read back by lstat are validated by TLC byte for byte.",
    level_note="Trusted: TLC; the harness's tree construction and its lstat/readlink read-back. Out of domain (skipped, listed in spec/Printf.tla): flags "
               "other than '-', unknown directives/escapes, octal escapes not of three digits or above 0177, time directives, %Y/%l of links the follow "
               "mode resolves and %Y of dangling links, %f/%h of a starting point spelled with a trailing slash, width on non-ASCII values.",
    mc=[dict(module="mc/MC_Printf.tla", cfg=dict(quick="mc/MC_Printf_quick.cfg", thorough="mc/MC_Printf_thorough.cfg"), workers=8)],
    record=dict(quick=500, thorough=12000),
    selftest=dict(quick=40, thorough=200),
    trace=dict(module="trace/T_Printf.tla", cfg="trace/T_Printf.cfg"),
    trace_chunk=400,
    rule="MC: all formats up to LF over 18 symbols x {P,L} x {d, ./d, d/} on a 7-node tree; trace: random trees (as C02, with sizes, modes incl. "
         "setuid/setgid/sticky, owners, link texts) x random formats of up to 10 components over all 15 directives, widths, escapes, multi-byte literals.",
    exhaustive_note="bounded-exhaustive over formats up to LF",
    assumptions=[],
)

PROPS["C13"] = dict(
    level_text="Which status record a test consults is part of the reference walk (an entry carries the node the follow mode resolves it to); on top "
               "of it TLA+ defines -type/-xtype (opposite choices), -perm in its three forms on bit sets, structured symbolic modes evaluated like chmod "
               "from 0 and written out as text, numeric tests on uid/gid/links/inum, -empty, -samefile (identity incl. hard links, reference resolved by "
               "the follow mode) and -lname (only where the entry itself is the link). TLC enumerates a catalogue of tests x {-P,-H,-L} x starting point "
               "direct or through a link on a tree with every creatable file type; -perm operands x a cover of (thorough: all 4096) file modes; "
               "~3000 symbolic modes against their octal value; laws: -perm exact/all/any, /0 true, xtype dual of type, -lname false for resolved "
               "links, hard links are the same file. All cases replayed on the real find; random trees with measured attributes validated by TLC.",
    level_note="Trusted: TLC; the harness's tree construction (mkfifo, unix socket, hard links, chown, chmod) and lstat/readlink read-back. "
               "Symbolic modes with an explicit who only (the umask-dependent forms are outside the property). -user/-group are exercised in their numeric form.",
    mc=[dict(module="mc/MC_Stat.tla", cfg=dict(quick="mc/MC_Stat_tree_quick.cfg", thorough="mc/MC_Stat_tree_thorough.cfg"), workers=8),
        dict(module="mc/MC_Stat.tla", cfg=dict(quick="mc/MC_Stat_perm_quick.cfg", thorough="mc/MC_Stat_perm_thorough.cfg"), workers=8),
        dict(module="mc/MC_Stat.tla", cfg=dict(quick="mc/MC_Stat_sym_quick.cfg", thorough="mc/MC_Stat_sym_thorough.cfg"), workers=8)],
    record=dict(quick=500, thorough=12000),
    selftest=dict(quick=40, thorough=200),
    trace=dict(module="trace/T_Stat.tla", cfg="trace/T_Stat.cfg"),
    trace_chunk=400,
    rule="MC tree: 69 tests x {P,H,L} x 2 starting points on a 14-node tree; MC perm: 3 forms x 17 operands over 30 (all 4096) file modes; MC sym: 1014 "
         "structured symbolic modes x 3 forms, text and octal spelling both run; trace: random trees with fifos, sockets, hard links, owners, modes x random test.",
    exhaustive_note="bounded-exhaustive over the catalogue",
    assumptions=[],
)

PROPS["C09"] = dict(
    level_text="-exec/-execdir ... ; is specified on top of the reference walk: one invocation per entry that passes the test in front, argv = the template "
               "with every {} in every argument replaced by the path (./basename in the parent directory for -execdir), truth = exit status 0, find's "
               "status unaffected. TLC enumerates templates of up to two arguments over {}, x{}y, {}{}, literals, empty x exit-status scripts x "
               "-exec/-execdir x three tests x a command that cannot be run, on names with blanks, quotes, '{}' and a leading dash, checks the "
               "property's sentences and prints argv/cwd/truth per invocation; replayed on the real find binary with a recorder as the command "
               "(argv and cwd logged byte for byte, exit status scripted per invocation); random trees with hostile names validated by TLC.",
    level_note="Trusted: TLC; the recorder (vrec), the labelled -printf pair that shows the action's truth value. -execdir is judged for -P and "
               "starting points without trailing slash that are not '.' / '..'.",
    mc=[dict(module="mc/MC_Exec.tla", cfg=dict(quick="mc/MC_Exec_quick.cfg", thorough="mc/MC_Exec_thorough.cfg"), workers=8)],
    record=dict(quick=250, thorough=5000),
    selftest=dict(quick=30, thorough=100),
    trace=dict(module="trace/T_Exec.tla", cfg="trace/T_Exec.cfg"),
    trace_chunk=300,
    rule="MC: 43 templates x status scripts up to MAXSCRIPT over {0,1,7} x {-exec,-execdir} x 4 tests (+ unrunnable command) on a 7-entry tree; "
         "trace: random trees of 2-15 entries over 16 hostile names (newline, quotes, $(id), ';', '+', '{} {}'), templates of 0-3 arguments, random scripts.",
    exhaustive_note="bounded-exhaustive",
    assumptions=[],
)
PROPS["C08"] = dict(
    level_text="-exec/-execdir ... {} + leaves the cutting into invocations to find, so the specification is a predicate on the recorded invocations: each "
               "starts with the fixed arguments; the appended paths concatenate to the reached entries in visit order (nothing lost, duplicated or "
               "reordered; also when -quit ends the walk); -execdir invocations hold entries of one directory only, as ./basename, run in that "
               "directory; find's status is non-zero iff an invocation failed. TLC validates recorded runs of the real binary: random trees with "
               "hostile names, scripted failures, -quit at a random entry, and bulk runs (hundreds to thousands of 150-200 byte names under a "
               "512 KiB - 1 MiB stack limit) that force several invocations - an invocation the kernel rejected would show up as lost paths. "
               "The command-line builder itself is a machine (FindExecImpl: per-entry directory change -> -execdir dispatch, full command line -> "
               "dispatch and restart, end of a starting point / -quit -> dispatch of what is pending): MC_ExecImpl checks C08's sentences on every "
               "sequence of evaluated entries (starting points x entries x directories x reached or not x -quit or not x capacity), and the hooked "
               "library's events (Eval, XPush, XFlush{dir,full,end}, XRun) are stepped through it - which entries come and where the action and -quit "
               "are reached is computed from the tree by the reference walk, only 'the command line was full' is taken from the code - after which the "
               "machine's dispatched command lines must be the recorder's invocations (arguments, order, working directory, outcome).",
    level_note="Trusted: TLC; the recorder; the event hook (add-only, cfg-guarded). Where a command line is full is deliberately unconstrained "
               "(bytes, the argmax crate's business).",
    mc=[dict(module="mc/MC_ExecImpl.tla", cfg=dict(quick="mc/MC_ExecImpl_quick.cfg", thorough="mc/MC_ExecImpl_thorough.cfg"), workers=6)],
    more=[dict(record_vh="ELOOP", record=dict(quick=150, thorough=2500), trace=dict(module="trace/T_ExecLoop.tla", cfg="trace/T_ExecLoop.cfg"), trace_chunk=60)],
    record=dict(quick=250, thorough=2000),
    selftest=dict(quick=30, thorough=100),
    trace=dict(module="trace/T_Exec.tla", cfg="trace/T_Exec.cfg"),
    trace_chunk=60,
    rule="MC_ExecImpl: up to 2 starting points x up to 2 (thorough: 3) evaluated entries each x 2 directories x reached/not x -quit/not x -exec/-execdir x "
         "capacity 1..2 (3); trace: random trees (2-15 entries, hostile names) x -exec/-execdir x 0-2 fixed arguments x tests x failure scripts x optional -quit; "
         "every ninth run a bulk tree under RLIMIT_STACK 512 KiB..1 MiB; event traces: the same generator, one action.",
    exhaustive_note="bounded-exhaustive at model level (the builder machine)",
    assumptions=[],
)

PROPS["C10"] = dict(
    level_text="-delete is specified over the file-tree model with physical identity: the entries that pass the test in front are processed in the "
               "depth-first order of the reference walk; a non-directory (a link itself, never its target) is unlinked, a directory removed iff "
               "nothing is left in it, a failed removal makes the action false and the exit status non-zero without stopping the walk. TLC enumerates "
               "starting points x {-P,-H,-L} x tests x depth ranges on a tree with links to a file inside, to a file and a directory outside and "
               "nowhere, checks laws (same entries as -depth -print, directories only when empty, nothing outside changes under -P, failures exactly for "
               "matched non-empty directories) and prints matched / deleted / what is left; the harness builds twin trees, runs -depth EXPR -print0 on "
               "one and EXPR -delete -printf on the other and checks every node (inside and outside) afterwards; random trees validated by TLC.",
    level_note="Trusted: TLC; the harness's twin construction and per-node lstat afterwards (plus a count of everything in the sandbox). Judged where every "
               "physical node is met at most once (a directory reachable both directly and through a followed link makes the outcome depend on "
               "directory-listing order) and the starting point is not '.'.",
    mc=[dict(module="mc/MC_Delete.tla", cfg=dict(quick="mc/MC_Delete_quick.cfg", thorough="mc/MC_Delete_thorough.cfg"), workers=4)],
    record=dict(quick=400, thorough=10000),
    selftest=dict(quick=40, thorough=200),
    trace=dict(module="trace/T_Delete.tla", cfg="trace/T_Delete.cfg"),
    trace_chunk=400,
    rule="MC: 4 starting-point lists x {P,H,L} x 10 tests x 4 depth ranges on a 15-node tree; trace: random trees up to 22 (40) nodes with links "
         "(to files, directories, dangling, cyclic), several starting points, depth ranges, 9 tests.",
    exhaustive_note="bounded-exhaustive over the catalogue",
    assumptions=["removals of non-directories always succeed (the harness runs as root)"],
)

PROPS["C07"] = dict(
    level_text="The byte stream of -print0 / -print (starting point as given, '/'-joined names, one terminator per reached entry, nothing escaped) and "
               "what xargs -0 delivers (each NUL-terminated string as exactly one argument, in order) are defined on the reference walk; TLC "
               "enumerates directories with up to two entries whose names range over a class alphabet (letter, blank, newline, quotes, backslash, "
               "'*', leading '-', a multi-byte character, '{}') x three spellings of the starting point, checks that splitting the stream gives "
               "back the paths, and prints stream and argument list; the harness runs the real find binary, pipes its output into the real "
               "xargs -0 with a recorder as the command and compares bytes and argv; random trees with 30 hostile name fragments validated by TLC.",
    level_note="Trusted: TLC; the recorder; the pipe the harness sets up between the two binaries. Names are valid UTF-8 (the property's domain); "
               "fidelity over all of Unicode is sampled, not enumerated.",
    mc=[dict(module="mc/MC_Pipe.tla", cfg=dict(quick="mc/MC_Pipe_quick.cfg", thorough="mc/MC_Pipe_thorough.cfg"), workers=8)],
    record=dict(quick=250, thorough=6000),
    selftest=dict(quick=30, thorough=100),
    trace=dict(module="trace/T_Pipe.tla", cfg="trace/T_Pipe.cfg"),
    trace_chunk=300,
    rule="MC: name1 in all strings up to LN symbols over 10 symbols, name2 larger or absent, as sibling or child, 3 spellings; "
         "trace: random trees of 2-15 entries, names of 1-3 fragments from 30 hostile fragments (blanks only, newline, tab, quotes, $(id), -print0, "
         "multi-byte incl. 4-byte), optional -type f / -mindepth 1 / -depth.",
    exhaustive_note="bounded-exhaustive over the name alphabet",
    assumptions=[],
)

PROPS["C06"] = dict(
    level_text="When Linux accepts an execve() is a TLA+ module (KernelExec: per-string limit, bytes plus one pointer per string within "
               "max(128 KiB, min(6 MiB, stack limit / 4)); the C library's ARG_MAX lacks the cap). TLC runs the batching loop of C04 with the "
               "system budget the code derives (ARG_MAX - 2048 - environment) against that rule on scaled constants - every argument sequence up "
               "to MAXARGS x stack limits below, at and above the cap x environment sizes - invariant: every command line handed to exec is "
               "acceptable (the pre-repair cost model violates it within seconds: spec/mc/MC_C06_oldmodel.cfg). The classes TLC's counterexamples "
               "name are run at real size on the real binary: 1..600 000 one-byte arguments, 4 KiB..128 KiB arguments, one argument over the "
               "per-string limit, 5 000 environment variables, stack limits 512 KiB..unlimited, with -n/-s; a recorder in summary mode shows every "
               "argument delivered once and in order (count + hash per invocation); TLC validates the runs, and direct execve probes near the "
               "model's boundary calibrate the kernel model (a mismatch is a tool error, never a violation). The name of the executed file is part of "
               "the kernel's sum: three cost models side by side (MC_C06 'bytes' = pinned revision, 'nofname' = first repair, 'ptr' = now), commands "
               "behind paths of 2200..3900 bytes at real size. -I: the substituted command line is measured before it is run - MC_Repl checks that "
               "fold against the kernel rule for every template of up to 3 arguments x line lengths x stack limits (never refused by exec, an over-long "
               "substituted argument never run, nothing refused that fits with the headroom to spare), the real binary gets lines of 43 690..131 072 "
               "bytes used one to four times, and the event traces bind the fold to the code's own counters (hook event Subst).",
    level_note="Trusted: TLC; the recorder's summaries; the Linux rules as modelled - checked against the running kernel by the probes on every run.",
    mc=[dict(module="mc/MC_C06.tla", cfg=dict(quick="mc/MC_C06_quick.cfg", thorough="mc/MC_C06_thorough.cfg"), workers=8),
        # -I: the measurement of the substituted command line against the kernel's rule (never refused, never over-strict)
        dict(module="mc/MC_Repl.tla", cfg=dict(quick="mc/MC_Repl.cfg", thorough="mc/MC_Repl_thorough.cfg"), workers=4)],
    record=dict(quick=44, thorough=480),
    selftest=dict(quick=10, thorough=40),
    trace=dict(module="trace/T_C06.tla", cfg="trace/T_C06.cfg"),
    trace_chunk=200,
    calibration="is_probe",
    jobs=4,
    # event-level traces: the system limiter's counter (bytes + terminator + pointer per string, from the base the initial arguments
    # leave) after every step, under stack limits that make it the binding one
    more=[dict(record_vh="XLOOP", record=dict(quick=120, thorough=2000), trace=dict(module="trace/T_XLoop.tla", cfg="trace/T_XLoop.cfg"), trace_chunk=40)],
    rule="MC: all argument sequences up to MAXARGS over lengths {1,2,7} x 6 stack limits x 3 environment sizes (scaled: pointer 4, ARGMIN 64, cap 96, "
         "per-string 16, headroom 8) x command names of 3 and 12 bytes; MC_Repl: all templates up to 3 initial arguments (literal bytes {0,1,5}, "
         "occurrences 0..3) x 8 line lengths x 6 stack limits x 3 environments x 2 command names; trace: 13 scenario families (incl. long command "
         "paths and -I) x environments x stack limits x {no option, -n 1000, -s 100000}; every fourth record a direct execve probe.",
    exhaustive_note="bounded-exhaustive at model level",
    assumptions=["Linux execve limits (bprm_stack_limits, MAX_ARG_STRLEN); calibrated at run time"],
)

_WALK_NOTE = ("Trusted: TLC; the harness's materialisation of tree values (mkdir/symlink) and the in-process call of find_main with captured "
              "output. Directories that cannot be read are given permissions 311 (not listable; paths through them still resolve) and the real binary is run as uid 65534 (C02). Link targets are "
              "non-links or dangling (no link-to-link chains).")

def _walk(flavour, text, rule, rq, rt):
    mcs = [dict(module="mc/MC_Walk.tla", cfg=dict(quick="mc/MC_Walk_%s_quick.cfg" % flavour, thorough="mc/MC_Walk_%s_thorough.cfg" % flavour), xmx="16g")]
    if flavour == "C03":
        # the walk as the code performs it (walkdir's iterator driven by process_dir: stack of open directories, deferred
        # directories under -depth, skip_current_dir after -prune) refines the reference walk on every small tree x
        # follow mode x range x -depth x one pruned directory x one unreadable directory or mount point (x -xdev)
        mcs.append(dict(module="mc/MC_WalkImpl.tla", cfg=dict(quick="mc/MC_WalkImpl_quick.cfg", thorough="mc/MC_WalkImpl_thorough.cfg"), xmx="16g"))
    if flavour == "C02":
        # directories that cannot be read (run as an unprivileged user): one error each, siblings and later starting points still visited
        mcs.append(dict(module="mc/MC_Walk.tla", cfg=dict(quick="mc/MC_Walk_C02u_quick.cfg", thorough="mc/MC_Walk_C02u_thorough.cfg"), xmx="16g"))
    return dict(
        level_text=text, level_note=_WALK_NOTE,
        mc=mcs,
        record=dict(quick=rq, thorough=rt), selftest=dict(quick=40, thorough=200),
        trace=dict(module="trace/T_Walk.tla", cfg="trace/T_Walk.cfg"), trace_chunk=800,
        # event-level traces of the walk loop (library built with the verification hook): every entry handed to the expression,
        # every walk error and every skip_current_dir() must be the next step of the machine FindWalkImpl
        more=[dict(record_vh="WLOOP", record=dict(quick=400, thorough=8000), trace=dict(module="trace/T_WalkLoop.tla", cfg="trace/T_WalkLoop.cfg"), trace_chunk=400)],
        rule=rule, exhaustive_note="bounded-exhaustive over trees up to N nodes", assumptions=[])

PROPS["C02"] = _walk("C02",
    "The reference walk (which entries, at which depth, under -P/-H/-L, with cycle and dangling-link rules) is a TLA+ function; TLC enumerates every "
    "tree up to N nodes x follow mode x every (mindepth, maxdepth) pair incl. min > max x -depth, checks the laws (range, exactly-once, physical "
    "completeness, -H = -P below the starting point, dangling links visited) and prints each case; the harness materialises the tree and runs the real "
    "find on it; random trees up to 40 nodes with link cycles, link farms, several starting points and unsorted runs are validated by TLC. "
    "Event-level: the library built with the verification hook logs every entry the walk loop hands to the expression, every walk error and "
    "every skip_current_dir(); TLC steps the implementation-shaped machine FindWalkImpl (walkdir's iterator driven by process_dir, "
    "model-checked against the reference walk in MC_WalkImpl under C03) along the logged events.",
    "MC: all trees up to N nodes over 2 names, kinds {dir, file, link -> earlier non-link | dangling} x {P,H,L} x min 0..3 x max {0,1,2,none} x -depth; "
    "trace: random trees (1..40 nodes), spelling variants of starting points, -follow/-P/-H/-L, sorted and unsorted (multiset + pre/post-order).",
    500, 12000)
PROPS["C03"] = _walk("C03",
    "Same reference walk with -prune and -depth: TLC enumerates every tree up to N nodes x every set of at most two pruned directories x -depth on/off "
    "x depth ranges, checks that pruning removes exactly the strict descendants (in place) and is a no-op under -depth, pre-/post-order; each case is "
    "replayed on the real find with -sorted (exact sequence), with the prune test at three different places of the expression; random larger cases via TLC, "
    "also with a file system mounted on a pruned directory under -xdev. The mechanism itself - walkdir's stack of open directories, the "
    "directories deferred under -depth, skip_current_dir() after -prune - is a second TLA+ machine (FindWalkImpl) that TLC checks against the "
    "reference on every small tree x mode x range x -depth x prune x unreadable directory / mount point (two named deviations = the open "
    "findings), and that is bound to the code by event-level trace validation of the walk loop (hook: Eval / Err / Skip / Done events).",
    "MC: all trees up to N nodes x {P,L} x subsets (<= 2) of directory paths pruned x -depth x 2 depth ranges, -sorted; "
    "trace: random trees with random prune sets, three expression shapes, sorted and unsorted.",
    500, 12000)
PROPS["C18"] = _walk("C18",
    "Starting points: TLC enumerates lists of one or two starting points (every top-level node in three spellings, plus a missing one) x {P,H} x depth "
    "ranges, both as operands and through -files0-from, and prints the prescribed output (paths begin with the spelling as given, order of operands, "
    "missing operand -> diagnostic + non-zero exit, others still processed); replayed on the real find; random cases (./x, x/, x//, ../w/x, .//x, duplicates, "
    "with or without final NUL, '.' implied by giving no starting point, names beginning with '-' or containing a newline in the list) validated by TLC; "
    "event-level traces of the walk loop over several starting points (FindWalkImpl, see C03) incl. ones that do not exist.",
    "MC: all trees up to N nodes x lists of <= 2 starting points over spellings {x, ./x, x/} and a missing name x operands vs -files0-from; "
    "trace: random trees, 1..3 starting points, 6 spellings, missing names, -files0-from with/without final NUL.",
    500, 12000)


def m_H_depth_symlink_root(fail):
    """-H with -depth and a starting point that is a symbolic link to a directory."""
    i = fail["in"]
    cfg = i["cfg"]
    if cfg.get("mode") != "H" or not cfg.get("depth"):
        return False
    t = i["tree"]
    for r in i["roots"]:
        n = r["node"]
        if n and t[n - 1]["kind"] == "l" and t[n - 1]["target"] and t[t[n - 1]["target"] - 1]["kind"] == "d":
            return True
    return False


def _re_has(e, pred):
    if not isinstance(e, dict):
        return False
    if pred(e):
        return True
    return any(_re_has(e.get(k), pred) for k in ("a", "b"))


_QUANT = ("star", "plus", "opt", "rep")


def _re_count(e, pred):
    if not isinstance(e, dict):
        return 0
    return (1 if pred(e) else 0) + sum(_re_count(e.get(k), pred) for k in ("a", "b"))


def m_regex_not_longest(fail):
    """C17: only missing selections (never extra ones), and the pattern tree has an alternation or at least two
    variable-length constructs (repetitions / options) - the shapes where a backtracking engine can complete a match
    at offset 0 before the end of the path and Regex::is_match() then gives up.
    Vectors carry no tree; the pattern text is inspected for '|' / nested groups then."""
    o = fail["obs"]
    if o.get("panic") or "exit" in o:
        return False
    exp = set(fail["exp"]["m"])
    obs = set(o.get("m", []))
    # (the same pattern under the other letter-case rule, evaluated in the same run: only missing selections there too)
    strict = obs < exp
    if not (obs <= exp):
        return False
    for k in ("m1", "m2"):
        if k in o and k in fail["exp"]:
            a, b = set(o[k]), set(fail["exp"][k])
            if not (a <= b):
                return False
            strict = strict or a < b
    if not strict:
        return False
    ast = fail["in"].get("ast")
    if ast is not None:
        return _re_has(ast, lambda e: e.get("t") == "alt") or \
            _re_count(ast, lambda e: e.get("t") in _QUANT) >= 2
    pat = bytes(fail["in"]["pattern"]).decode("utf-8", "replace") if all(c < 256 for c in fail["in"]["pattern"]) else ""
    return "|" in pat or pat.count("(") >= 2


def m_H_delete_symlink_root(fail):
    """C10: -H, and a starting point that is a symbolic link to a directory (-delete implies -depth)."""
    i = fail["in"]
    if i["cfg"].get("mode") != "H":
        return False
    t = i["tree"]
    for r in i["roots"]:
        n = r["node"]
        if n and t[n - 1]["kind"] == "l" and t[n - 1]["target"] and t[t[n - 1]["target"] - 1]["kind"] == "d":
            return True
    return False


def is_probe(fail):
    """C06: a direct execve probe (calibration of the kernel model), not a run of xargs."""
    return isinstance(fail.get("in"), dict) and fail["in"].get("mode") == "probe"


_FOLD_SPECIAL = {0xDF, 0x17F, 0x212A, 0x1E9E} | set(range(0xFB00, 0xFB07))


def m_regex_engine_gives_up(fail):
    """C17: the regex engine stopped a match (its limit on backtracking retries) and find said so: a diagnostic naming
    the engine's limit, exit status 1, and nothing selected that is not in the language."""
    o = fail["obs"]
    if o.get("panic") or not o.get("exit"):
        return False
    if "retry-limit-in-match" not in o.get("stderr", "") and "match-stack-limit" not in o.get("stderr", ""):
        return False
    pairs = [("m", "m"), ("m1", "m1"), ("m2", "m2")]
    for a, b in pairs:
        if a in o and b in fail["exp"] and not (set(o[a]) <= set(fail["exp"][b])):
            return False
    return True


def m_multichar_fold(fail):
    """C12: an -i form, nothing missing, and every subject selected in excess contains a character whose Unicode case
    folding is not a single character of the same script (sharp s ~ ss, long s ~ s, Kelvin sign ~ k, the fi.. ligatures)."""
    i, o = fail["in"], fail["obs"]
    subs = i.get("subjects")
    if not i.get("fold") or subs is None or o.get("panic") or "exit" in o or "spells" in i:
        return False
    exp = set(fail["exp"]["m"])
    ok = o.get("name_ok", [])
    some = False
    for key in ("lname", "name", "path"):
        got = set(o.get(key, []))
        want = exp if key == "lname" else {k for k in exp if k - 1 < len(ok) and ok[k - 1]}
        if want - got:
            return False
        for k in got - want:
            if not (set(subs[k - 1]) & _FOLD_SPECIAL):
                return False
            some = True
    return some


def m_newerxy_substring(fail):
    """C11: a word that is not a primary but contains the name of a -newerXY test, followed by an existing file: taken
    for that test instead of being rejected."""
    import re
    words = fail["in"].get("words", [])
    o = fail["obs"]
    if o.get("panic") or o.get("hang") or o.get("rejected"):
        return False
    bad = [w for w in words if w.get("k") == "prim" and w.get("okind") == "unknown1"]
    others = [w for w in words if w.get("k") == "prim" and w.get("okind") in ("unknown", "missing", "missing1")]
    return bool(bad) and not others and all(re.search(r"-newer[aBcm][aBcmt]", w["prim"]) and not re.fullmatch(r"-newer[aBcm][aBcmt]", w["prim"]) for w in bad)


def m_deep_nesting_abort(fail):
    """C11: the expression inside several hundred pairs of parentheses; the process aborts (stack overflow in the recursive
    descent), nothing else is wrong with the run."""
    return fail["in"].get("nest", 0) >= 300 and fail["obs"].get("panic") and fail["obs"].get("exit", 0) >= 1000


def m_link_to_unreadable_dir(fail):
    """C02: a followed symbolic link whose target is a directory that cannot be read."""
    i = fail["in"]
    t = i["tree"]
    if i["cfg"].get("mode") not in ("L", "H"):
        return False
    bad = {k + 1 for k, n in enumerate(t) if n.get("noread")}
    return any(n["kind"] == "l" and n.get("target") in bad for n in t)
