"""Shared machinery for the per-property checks: building the code under test, running
TLC (model checking, vector emission, trace validation), classifying disagreements
against known_findings.json, writing replay files and evidence."""
import fcntl
import hashlib
import json
import os
import re
import shutil
import subprocess
import sys
import time

VERIF = os.path.dirname(os.path.dirname(os.path.abspath(__file__)))
REPO = os.environ.get("VERIF_REPO", "/repo")
BUILD = os.path.join(VERIF, "build")
SPEC = os.path.join(VERIF, "spec")
TLC = os.path.join(VERIF, "drivers", "tlc.sh")
BIN_DIR = os.path.join(BUILD, "repo-target", "debug")
VH = os.path.join(BUILD, "target", "debug", "vh")


class ToolError(Exception):
    """Something in the machinery (not in the code under test) went wrong: exit 2."""


def log(*a):
    print(*a, file=sys.stderr, flush=True)


def run(cmd, timeout=None, env=None, cwd=None, stdin=None):
    e = dict(os.environ)
    if env:
        e.update(env)
    t0 = time.time()
    try:
        p = subprocess.run(cmd, stdout=subprocess.PIPE, stderr=subprocess.STDOUT, timeout=timeout,
                           env=e, cwd=cwd, input=stdin)
    except subprocess.TimeoutExpired as ex:
        raise ToolError("timeout after %ss: %s" % (timeout, " ".join(cmd[:6]))) from ex
    return p.returncode, p.stdout.decode("utf-8", "replace"), time.time() - t0


def build():
    """Build the harness (links /repo's library with --cfg findutils_verif) and /repo's own
    find/xargs binaries (guard off, as shipped) from /repo's current working tree."""
    os.makedirs(BUILD, exist_ok=True)
    with open(os.path.join(BUILD, ".lock"), "w") as lk:
        fcntl.flock(lk, fcntl.LOCK_EX)
        env = {"CARGO_NET_OFFLINE": "true"}
        rc, out, dt = run(["cargo", "build", "--offline", "--bins", "--manifest-path", os.path.join(REPO, "Cargo.toml"),
                           "--target-dir", os.path.join(BUILD, "repo-target")], timeout=1800, env=env)
        if rc != 0:
            raise ToolError("cargo build of /repo failed:\n" + out[-3000:])
        rc, out, dt2 = run(["cargo", "build", "--offline"], timeout=1800, env=env, cwd=os.path.join(VERIF, "harness"))
        if rc != 0:
            raise ToolError("cargo build of harness failed:\n" + out[-3000:])
        # the same binaries with the verification hooks compiled in (event traces of the xargs loop)
        henv = dict(env, RUSTFLAGS="--cfg findutils_verif")
        rc, out, dt3 = run(["cargo", "build", "--offline", "--bins", "--manifest-path", os.path.join(REPO, "Cargo.toml"),
                            "--target-dir", os.path.join(BUILD, "repo-target-verif")], timeout=1800, env=henv)
        if rc != 0:
            raise ToolError("cargo build of /repo with the verification hooks failed:\n" + out[-3000:])
    log("build ok (%.1fs + %.1fs + %.1fs)" % (dt, dt2, dt3))


def workdir(tag):
    d = os.path.join(BUILD, "work", "%s.%d" % (tag, os.getpid()))
    shutil.rmtree(d, ignore_errors=True)
    os.makedirs(d)
    return d


STATES_RE = re.compile(r"(\d+) states generated, (\d+) distinct states found")
PRINT_RE = re.compile(r'^<<"([A-Z-]+)", (.*)>>$')


def parse_tla_string(lit):
    """A TLA+ string literal as printed by TLC -> python str."""
    return json.loads(lit)


def tlc(module_path, cfg_path, workers=8, timeout=3600, env=None, deque=False, tag="tlc", xmx="8g", simulate=None):
    """Run TLC; returns dict(states, distinct, out, printed={TAG:[payload...]}, ok, violated)."""
    md = workdir(tag)
    e = {"TLC_XMX": "-Xmx" + xmx}
    if deque:
        e["TLC_JAVA_OPTS"] = "-Dtlc2.tool.queue.IStateQueue=StateDeque"
    if env:
        e.update(env)
    cmd = [TLC, "-workers", str(workers), "-metadir", md, "-cleanup", "-noGenerateSpecTE"]
    if simulate:
        cmd += ["-simulate", simulate]
    cmd += ["-config", cfg_path, module_path]
    try:
        rc, out, dt = run(cmd, timeout=timeout, env=e, cwd=os.path.dirname(module_path))
    finally:
        shutil.rmtree(md, ignore_errors=True)
    printed = {}
    rest = []
    for line in out.splitlines():
        m = PRINT_RE.match(line)
        if m:
            printed.setdefault(m.group(1), []).append(m.group(2))
        else:
            rest.append(line)
    text = "\n".join(rest)
    m = None
    for m in STATES_RE.finditer(text):
        pass
    states = int(m.group(1)) if m else 0
    distinct = int(m.group(2)) if m else 0
    violated = None
    mv = re.search(r"Error: Invariant (\S+) is violated", text)
    if mv:
        violated = mv.group(1)
    elif "is violated" in text or "Error:" in text:
        violated = "error"
    ok = (rc == 0 and "Model checking completed. No error has been found." in text) or \
         (simulate is not None and violated is None and rc == 0)
    return dict(ok=ok, rc=rc, states=states, distinct=distinct, out=text, printed=printed, violated=violated, wall=dt)


def sha(obj):
    return hashlib.sha1(json.dumps(obj, sort_keys=True).encode()).hexdigest()[:16]


def load_findings():
    p = os.path.join(VERIF, "known_findings.json")
    if not os.path.exists(p):
        return []
    return json.load(open(p)).get("findings", [])


def b2s(v):
    """byte-array JSON value -> readable python repr (for replay files / samples)."""
    if isinstance(v, list) and v and all(isinstance(x, int) and 0 <= x < 256 for x in v):
        try:
            return bytes(v).decode("utf-8")
        except Exception:
            return repr(bytes(v))
    return v


def write_replay(pid, case):
    d = os.path.join(VERIF, "replays", pid)
    os.makedirs(d, exist_ok=True)
    p = os.path.join(d, sha(case) + ".json")
    with open(p, "w") as f:
        json.dump(case, f, indent=1, sort_keys=True)
    return p


def write_evidence(pid, tier, seed, coverage, assumptions, wall, violations, level="model_checking"):
    os.makedirs(os.path.join(VERIF, "evidence"), exist_ok=True)
    ev = dict(property_id=pid, tier=tier, seed=seed, level=level, coverage=coverage,
              assumptions=assumptions, wall_s=round(wall, 2), violations=violations)
    with open(os.path.join(VERIF, "evidence", pid + ".json"), "w") as f:
        json.dump(ev, f, indent=1)
