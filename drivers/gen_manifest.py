#!/usr/bin/env python3
"""Regenerates MANIFEST.json from drivers/props.py (claimed checks) and properties.jsonl."""
import json, os, sys
sys.path.insert(0, os.path.dirname(os.path.abspath(__file__)))
import props as P
V = os.path.dirname(os.path.dirname(os.path.abspath(__file__)))
ids = [json.loads(l)["id"] for l in open(os.path.join(V, "properties.jsonl"))]
checks, na = [], []
for i in ids:
    c = P.PROPS.get(i)
    if c is None or c.get("disabled"):
        na.append(dict(property_id=i, reason=P.NOT_CLAIMED.get(i, "check not built yet (work in progress; see DESIGN.md section 5 for the planned specification)")))
        continue
    checks.append(dict(
        property_id=i,
        quick_cmd="./check %s quick" % i,
        thorough_cmd="./check %s thorough" % i,
        evidence_file="evidence/%s.json" % i,
        replay_cmd_template="./check %s --replay {path}" % i,
        engine="tlc",
        level_claimed=dict(category="model_checking", text=c["level_text"], design_ref=c.get("design_ref", "DESIGN.md section 5, " + i)),
        level_note=c["level_note"],
        technique=c.get("technique", "TLA+ specification model-checked with TLC; spec-generated vectors replayed into the real code; recorded runs of the real code validated against the spec by TLC"),
    ))
m = dict(
    version=1,
    setup_cmd="./drivers/setup.sh",
    hooks=dict(guard="findutils_verif",
               enable="RUSTFLAGS='--cfg findutils_verif' (set in harness/.cargo/config.toml; the harness links /repo as a path dependency). /repo's own find/xargs binaries are built with the guard off.",
               baseline_off_cmd="cd /repo && cargo test --workspace --no-fail-fast --offline",
               source_commits=P.HOOK_COMMITS, add_only=True),
    engines=[dict(name="tlc", path="drivers/tlc.sh", serves_properties=[c["property_id"] for c in checks],
                  kind_free_text="TLC 1.8 explicit-state model checker over the TLA+ modules in spec/ (bounded model checking, vector emission, trace validation)"),
             dict(name="vh", path="harness/", serves_properties=[c["property_id"] for c in checks],
                  kind_free_text="Rust conformance harness: replays TLC-generated vectors into the real code and records runs of the real code as ndjson traces")],
    checks=checks,
    not_applicable=na,
    notes="Every check: ./check <ID> quick|thorough. Exit 0 = held (KNOWN-FINDING lines for open findings in known_findings.json), 1 = VIOLATION lines with replay files under replays/<ID>/, 2 = tool error.",
)
json.dump(m, open(os.path.join(V, "MANIFEST.json"), "w"), indent=1)
print("claimed:", [c["property_id"] for c in checks])
