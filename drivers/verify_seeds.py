#!/usr/bin/env python3
"""verify_seeds.py [ID...]: confirm each candidate seeded change under /verif/seeded/<ID>/ in a
scratch worktree of /repo (never in /repo itself): the patch applies to HEAD, the tree builds,
the repository's test suite still passes (only the two baseline always-fail tests may fail), the
demonstration fails with the change and passes without it.  Writes the outcome into meta.json
("verified": {...}).  The worktree and its build output are removed at the end."""
import json, os, re, shutil, subprocess, sys, time
V = os.path.dirname(os.path.dirname(os.path.abspath(__file__)))
WT = "/tmp/seedv/wt"
TGT = "/tmp/seedv/target"
BASE_FAIL = {"find::matchers::tests::get_or_create_file_test", "find::tests::test_no_permission_file_error"}

def sh(cmd, cwd=None, timeout=3600, env=None):
    e = dict(os.environ, CARGO_NET_OFFLINE="true", CARGO_TARGET_DIR=TGT)
    if env: e.update(env)
    p = subprocess.run(cmd, shell=True, cwd=cwd, stdout=subprocess.PIPE, stderr=subprocess.STDOUT, timeout=timeout, env=e)
    return p.returncode, p.stdout.decode("utf-8", "replace")

def tests(cwd):
    rc, out = sh("cargo test --workspace --no-fail-fast --offline 2>&1", cwd=cwd)
    failed = set(re.findall(r"^test (\S+) \.\.\. FAILED", out, re.M))
    passed = len(re.findall(r"^test \S+ \.\.\. ok", out, re.M))
    compiled = "error: could not compile" not in out and "error[E" not in out
    return compiled, passed, failed, out

def main():
    ids = sys.argv[1:] or sorted(d for d in os.listdir(os.path.join(V, "seeded")) if os.path.isdir(os.path.join(V, "seeded", d)))
    os.makedirs("/tmp/seedv", exist_ok=True)
    sh("git -C /repo worktree remove --force %s" % WT)
    shutil.rmtree(WT, ignore_errors=True)
    rc, out = sh("git -C /repo worktree add --detach %s HEAD" % WT)
    if rc != 0:
        print(out); return 2
    try:
        rc, out = sh("cargo build --offline --bins 2>&1", cwd=WT)
        assert rc == 0, out[-2000:]
        base_bin = "/tmp/seedv/base-bin"
        shutil.rmtree(base_bin, ignore_errors=True); os.makedirs(base_bin)
        for b in ("find", "xargs"):
            shutil.copy(os.path.join(TGT, "debug", b), base_bin)
        compiled, passed0, failed0, out = tests(WT)
        print("baseline: %d passed, failed=%s" % (passed0, sorted(failed0)), flush=True)
        for sid in ids:
            d = os.path.join(V, "seeded", sid)
            meta = json.load(open(os.path.join(d, "meta.json")))
            res = dict(at=time.strftime("%Y-%m-%dT%H:%M:%S"), repo_head=sh("git -C /repo rev-parse --short HEAD")[1].strip())
            sh("git checkout -q -- . && git clean -fdq", cwd=WT)
            rc, out = sh("git apply %s" % os.path.join(d, "patch.diff"), cwd=WT)
            if rc != 0:
                rc, out = sh("git apply --3way %s" % os.path.join(d, "patch.diff"), cwd=WT)
                sh("git reset -q", cwd=WT)
            res["applies"] = rc == 0
            if rc == 0:
                rc, out = sh("cargo build --offline --bins 2>&1", cwd=WT)
                res["builds"] = rc == 0
                if rc == 0:
                    mut_bin = "/tmp/seedv/mut-bin"
                    shutil.rmtree(mut_bin, ignore_errors=True); os.makedirs(mut_bin)
                    for b in ("find", "xargs"):
                        shutil.copy(os.path.join(TGT, "debug", b), mut_bin)
                    compiled, passed, failed, tout = tests(WT)
                    res["tests_compiled"] = compiled
                    res["tests_passed"] = passed
                    res["tests_failed"] = sorted(failed)
                    res["tests_ok"] = compiled and failed <= failed0
                    demo = os.path.join(d, "demo.sh")
                    rc1, o1 = sh("bash %s %s" % (demo, mut_bin), cwd="/tmp/seedv", timeout=900)
                    rc0, o0 = sh("bash %s %s" % (demo, base_bin), cwd="/tmp/seedv", timeout=900)
                    res["demo_rc_with_change"] = rc1
                    res["demo_rc_without_change"] = rc0
                    res["confirmed"] = bool(res["tests_ok"] and rc1 != 0 and rc0 == 0)
            res.setdefault("confirmed", False)
            meta["verified"] = res
            json.dump(meta, open(os.path.join(d, "meta.json"), "w"), indent=2)
            print(sid, json.dumps(res), flush=True)
    finally:
        sh("git -C /repo worktree remove --force %s" % WT)
        shutil.rmtree("/tmp/seedv", ignore_errors=True)
        sh("git -C /repo worktree prune")
    return 0

if __name__ == "__main__":
    sys.exit(main())
