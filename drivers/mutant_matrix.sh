#!/bin/sh
# drivers/mutant_matrix.sh [ID...]: every confirmed seeded change against the quick check of the property it breaks
# (applied to /repo, checked, undone).  One line per change on stdout.
cd "$(dirname "$0")/.."
ids="$@"; [ -z "$ids" ] && ids=$(ls seeded)
for id in $ids; do
  prop=$(echo $id | cut -c1-3)
  printf "%s " "$id"; ./drivers/mutant.sh seeded/$id/patch.diff $prop | tail -1
done
