#!/usr/bin/env python3
"""check.py <PROPERTY> [quick|thorough] [--replay FILE]

Decides one property of /verif/properties.jsonl for /repo's current working tree:
  1. builds /repo (binaries, guard off) and the harness (library with the verif guard on);
  2. model-checks the property's TLA+ specification with TLC (bounded, exhaustive) and lets the
     specification print test vectors (input + prescribed observable behaviour);
  3. replays the vectors into the real code (spec -> implementation);
  4. records seeded random runs of the real code and has TLC validate the recorded trace
     against the specification (implementation -> spec);
  5. self-test: a corrupted trace must be rejected;
  6. classifies disagreements against known_findings.json, writes replay files and evidence.
Exit 0: property held on everything explored (KNOWN-FINDING lines for listed open findings);
exit 1: VIOLATION lines; exit 2: tool error."""
import concurrent.futures
import json
import os
import sys
import time
import traceback

sys.path.insert(0, os.path.dirname(os.path.abspath(__file__)))
import lib
from lib import ToolError, log
import props as P


def stage_mc(ctx):
    cfg = ctx.cfg
    vectors = []
    for mc in cfg.get("mc", []):
        cfgfile = mc["cfg"][ctx.tier] if isinstance(mc["cfg"], dict) else mc["cfg"]
        if cfgfile is None:
            continue
        r = lib.tlc(os.path.join(lib.SPEC, mc["module"]), os.path.join(lib.SPEC, cfgfile),
                    workers=mc.get("workers", 8), timeout=mc.get("timeout", {"quick": 900, "thorough": 7200})[ctx.tier],
                    tag=ctx.pid + ".mc", xmx=mc.get("xmx", "12g"), simulate=(mc.get("simulate") or {}).get(ctx.tier))
        ctx.states += r["distinct"]
        ctx.transitions += r["states"]
        ctx.mc_runs.append(dict(module=mc["module"], cfg=cfgfile, distinct=r["distinct"], generated=r["states"], wall_s=round(r["wall"], 1)))
        if not r["ok"]:
            raise ToolError("TLC did not complete cleanly on %s (%s): the specification itself is inconsistent "
                            "(this is independent of the code under test)\n%s" % (mc["module"], r["violated"], r["out"][-4000:]))
        for lit in r["printed"].get("VEC", []):
            v = json.loads(lib.parse_tla_string(lit))
            v["_vh"] = mc.get("vh", ctx.pid)
            vectors.append(v)
        if "SUBJ" in r["printed"]:
            # an indexed universe printed by the specification, handed to the harness as a file
            items = sorted((int(x.split(", ", 1)[0]), lib.parse_tla_string(x.split(", ", 1)[1])) for x in r["printed"]["SUBJ"])
            sf = os.path.join(ctx.wd, "subjects.jsonl")
            with open(sf, "w") as f:
                for _, js in items:
                    f.write(js + "\n")
            ctx.env["VH_SUBJECTS"] = sf
        log("MC %s: %d distinct states, %d generated, %d vectors, %.1fs" % (mc["module"], r["distinct"], r["states"], len(r["printed"].get("VEC", [])), r["wall"]))
    return vectors


def stage_proofs(ctx):
    """Laws proved for all values with the TLA+ proof system (TLAPS, SMT back end) where TLC evaluates them on a grid.
    A proof that does not go through is a defect of the specification work, not of the code: tool error."""
    ctx.proofs = []
    for pr in ctx.cfg.get("proofs", []):
        src = os.path.join(lib.SPEC, pr["module"])
        dst = os.path.join(ctx.wd, os.path.basename(src))
        with open(src) as f, open(dst, "w") as g:
            g.write(f.read())
        rc, out, dt = lib.run(["timeout", "-k", "5", str(pr.get("timeout", 900)), "tlapm", "--threads", "8", "--stretch", "2", os.path.basename(dst)],
                              timeout=pr.get("timeout", 900) + 30, cwd=ctx.wd)
        import re as _re
        m = _re.search(r"All (\d+) obligations? proved", out)
        if rc != 0 or not m:
            raise ToolError("TLAPS did not prove every obligation of %s\n%s" % (pr["module"], out[-3000:]))
        ctx.proofs.append(dict(module=pr["module"], obligations_proved=int(m.group(1)), wall_s=round(dt, 1)))
        log("TLAPS %s: all %s obligations proved (%.1fs)" % (pr["module"], m.group(1), dt))


def stage_replay(ctx, allvectors):
    for vh in sorted(set(v["_vh"] for v in allvectors)):
        stage_replay_one(ctx, vh, [{k: x for k, x in v.items() if k != "_vh"} for v in allvectors if v["_vh"] == vh])


def stage_replay_one(ctx, vh, vectors):
    if not vectors:
        return
    wd = ctx.wd
    vf = os.path.join(wd, "vectors.%s.jsonl" % vh)
    with open(vf, "w") as f:
        for v in vectors:
            f.write(json.dumps(v) + "\n")
    rf = os.path.join(wd, "replay.%s.jsonl" % vh)
    rc, out, dt = lib.run([lib.VH, "replay", vh, vf, rf], timeout=ctx.cfg.get("replay_timeout", 3600), env=ctx.env)
    if rc != 0:
        raise ToolError("vh replay failed rc=%s\n%s" % (rc, out[-3000:]))
    summary = None
    for line in open(rf):
        r = json.loads(line)
        if r.get("summary"):
            summary = r
        elif r.get("fail"):
            ctx.failures.append(dict(source="replay", vh=vh, **{k: r[k] for k in ("in", "exp", "obs")}))
    if summary is None:
        raise ToolError("vh replay wrote no summary")
    ctx.replayed += summary["replayed"]
    ctx.skipped += summary["skipped"]
    for v in vectors[:2]:
        ctx.samples.append(dict(kind="vector (spec -> impl)", **v))
    log("replay: %d vectors replayed, %d out of domain, %d disagree (%.1fs)" % (summary["replayed"], summary["skipped"], summary["failed"], dt))


def validate_trace(ctx, tracefile, tag, cfg=None):
    """TLC trace validation of one ndjson file; returns (n_records, mismatches{line:expected}, skips)."""
    t = (cfg or ctx.cfg)["trace"]
    n = sum(1 for _ in open(tracefile))
    if n == 0:
        return 0, {}, set()
    r = lib.tlc(os.path.join(lib.SPEC, t["module"]), os.path.join(lib.SPEC, t["cfg"]), workers=1,
                timeout=t.get("timeout", 3600), env={"TRACE": tracefile}, deque=True, tag=tag, xmx="4g")
    if not r["ok"] or "TRACE-NOT-CONSUMED" in r["printed"]:
        raise ToolError("trace validation did not run to the end of the trace (%s)\n%s" % (tracefile, r["out"][-4000:]))
    mism = {}
    for payload in r["printed"].get("MISMATCH", []):
        idx, lit = payload.split(", ", 1)
        mism[int(idx)] = json.loads(lib.parse_tla_string(lit))
    skips = set(int(x) for x in r["printed"].get("SKIP", []))
    # disagreements on behaviour the specification describes but no listed property fixes: reported, never a violation
    beyond = set(int(x) for x in r["printed"].get("BEYOND", []))
    ctx.states += r["distinct"]
    ctx.transitions += r["states"]
    return n, mism, skips, beyond


def split_file(path, per):
    parts = []
    cur = None
    k = 0
    for i, line in enumerate(open(path)):
        if i % per == 0:
            if cur:
                cur.close()
            parts.append("%s.%d" % (path, k))
            cur = open(parts[-1], "w")
            k += 1
        cur.write(line)
    if cur:
        cur.close()
    return parts


def stage_record(ctx, cfg=None, label=""):
    cfg = cfg or ctx.cfg
    if "record" not in cfg or "trace" not in cfg:
        return
    n = cfg["record"][ctx.tier]
    tf = os.path.join(ctx.wd, "trace%s.ndjson" % label)
    rc, out, dt = lib.run([lib.VH, "record", cfg.get("record_vh", ctx.pid), str(ctx.seed), str(n), ctx.tier, tf], timeout=cfg.get("record_timeout", 7200), env=ctx.env)
    if rc != 0:
        raise ToolError("vh record failed rc=%s\n%s" % (rc, out[-3000:]))
    parts = split_file(tf, cfg.get("trace_chunk", 1500))
    t0 = time.time()
    total = 0
    nsk = 0
    with concurrent.futures.ThreadPoolExecutor(max_workers=cfg.get("trace_jobs", 5)) as ex:
        futs = {ex.submit(validate_trace, ctx, p, "%s.tr%s%d" % (ctx.pid, label, i), cfg): p for i, p in enumerate(parts)}
        for fu in concurrent.futures.as_completed(futs):
            p = futs[fu]
            nrec, mism, skips, beyond = fu.result()
            total += nrec
            nsk += len(skips)
            lines = open(p).read().splitlines()
            for idx in sorted(beyond):
                rec = json.loads(lines[idx - 1])
                ctx.beyond.append(dict(stage=label or "main", **{"in": rec["in"], "obs": rec["obs"]}))
            for idx, expected in sorted(mism.items()):
                rec = json.loads(lines[idx - 1])
                ctx.failures.append(dict(source="trace", vh=cfg.get("record_vh", ctx.pid), **{"in": rec["in"], "obs": rec["obs"], "exp": expected}))
            acc = ctx.accepted_records if not label else ctx.accepted_more.setdefault(label, [])
            if len(acc) < 400:
                for i, ln in enumerate(lines[:400]):
                    if (i + 1) not in mism and (i + 1) not in skips and (i + 1) not in beyond:
                        acc.append(json.loads(ln))
            if (not ctx.trace_sampled or label) and lines and len(ctx.samples) < 4:
                ctx.samples.append(dict(kind="recorded run (impl -> spec)", **json.loads(lines[0])))
                ctx.trace_sampled = True
    ctx.validated += total - nsk
    ctx.skipped += nsk
    log("trace%s: %d recorded runs validated by TLC, %d out of domain, %d rejected so far (record %.1fs, validate %.1fs)"
        % (label, total - nsk, nsk, sum(1 for f in ctx.failures if f["source"] == "trace"), dt, time.time() - t0))
    ctx.trace_stages.append(dict(stage=label or "main", harness=cfg.get("record_vh", ctx.pid), module=cfg["trace"]["module"],
                                 validated=total - nsk, out_of_domain=nsk))


def stage_selftest(ctx):
    selftest_one(ctx, ctx.cfg, ctx.accepted_records, "")
    for k, more in enumerate(ctx.cfg.get("more", [])):
        label = ".%s" % more.get("record_vh", k)
        selftest_one(ctx, dict(more, selftest=more.get("selftest", ctx.cfg.get("selftest"))), ctx.accepted_more.get(label, []), label)


def selftest_one(ctx, cfg, accepted_records, label):
    """Binding demonstration that does not depend on the code under test being right:
    records that TLC ACCEPTED in the trace stage are corrupted (one field changed, see
    Prop::corrupt in the harness) and validated again; every one of them must now be
    rejected.  If the corrupted trace were accepted, the trace specification would be
    vacuous: tool error."""
    if not cfg.get("selftest") or "trace" not in cfg:
        return
    n = cfg["selftest"][ctx.tier]
    good = accepted_records[:n]
    if not good:
        log("self-test%s skipped: no accepted record to corrupt" % label)
        return
    src = os.path.join(ctx.wd, "selftest%s.in.ndjson" % label)
    with open(src, "w") as f:
        for r in good:
            f.write(json.dumps(r) + "\n")
    tf = os.path.join(ctx.wd, "selftest%s.ndjson" % label)
    rc, out, dt = lib.run([lib.VH, "corrupt", cfg.get("record_vh", ctx.pid), src, tf], timeout=600, env=dict(ctx.env, VH_JOBS="1"))
    if rc != 0:
        raise ToolError("vh corrupt failed rc=%s\n%s" % (rc, out[-3000:]))
    save = (ctx.states, ctx.transitions)
    nrec, mism, skips, beyond = validate_trace(ctx, tf, ctx.pid + ".self" + label, cfg)
    ctx.states, ctx.transitions = save
    accepted = nrec - len(skips) - len(mism) - len(beyond)
    if label:
        ctx.selftest_more[label.lstrip(".")] = dict(corrupted_records=nrec, rejected=len(mism) + len(beyond))
    else:
        ctx.selftest = dict(corrupted_records=nrec, rejected=len(mism) + len(beyond))
    if nrec == 0:
        log("self-test%s skipped: nothing corruptible" % label)
        return
    if accepted > 0:
        raise ToolError("self-test%s: %d corrupted records were ACCEPTED by the trace specification - the binding is vacuous" % (label, accepted))
    log("self-test%s: %d corrupted records, all rejected" % (label, len(mism) + len(beyond)))


class Ctx:
    pass


def classify(ctx):
    """known findings -> KNOWN-FINDING lines; everything else -> VIOLATION lines."""
    calib = ctx.cfg.get("calibration")
    if calib:
        bad = [f for f in ctx.failures if getattr(P, calib)(f)]
        if bad:
            raise ToolError("calibration of the environment model failed (%d probes disagree with the model, e.g. %s): "
                            "this is a statement about the sandbox's kernel, not about the code under test" % (len(bad), json.dumps(bad[0])[:600]))
    findings = [f for f in lib.load_findings() if f.get("property") == ctx.pid and f.get("status") == "open"]
    known_hit = {}
    violations = []
    for fail in ctx.failures:
        hit = None
        for f in findings:
            m = getattr(P, f["matcher"], None)
            if m is None:
                raise ToolError("known_findings.json names unknown matcher " + f["matcher"])
            try:
                if m(fail):
                    hit = f
                    break
            except Exception:
                pass
        if hit:
            known_hit.setdefault(hit["id"], (hit, fail))
        else:
            violations.append(fail)
    for fid, (f, fail) in sorted(known_hit.items()):
        print("KNOWN-FINDING: property=%s %s [%s]" % (ctx.pid, f["what"], fid), flush=True)
    seen = set()
    nviol = 0
    for v in violations:
        key = lib.sha(v["in"])
        if key in seen:
            continue
        seen.add(key)
        nviol += 1
        if nviol > 12:
            continue
        case = dict(property=ctx.pid, source=v["source"], vh=v.get("vh", ctx.pid), input=v["in"], expected_by_spec=v.get("exp"), observed=v.get("obs"),
                    readable={k: lib.b2s(x) for k, x in v["in"].items()} if isinstance(v["in"], dict) else None,
                    reproduce="cd /verif && ./check %s --replay <this file>" % ctx.pid)
        path = lib.write_replay(ctx.pid, case)
        print("VIOLATION property=%s replay=%s" % (ctx.pid, path), flush=True)
    return nviol, sorted(known_hit)


def check(pid, tier, seed):
    t0 = time.time()
    ctx = Ctx()
    ctx.pid, ctx.tier, ctx.seed = pid, tier, seed
    ctx.cfg = P.PROPS[pid]
    ctx.states = ctx.transitions = ctx.replayed = ctx.validated = ctx.skipped = 0
    ctx.failures, ctx.samples, ctx.mc_runs = [], [], []
    ctx.trace_sampled = False
    ctx.accepted_records = []
    ctx.accepted_more = {}
    ctx.beyond = []
    ctx.selftest_more = {}
    ctx.selftest = None
    ctx.trace_stages = []
    ctx.extra = {}
    ctx.env = {"VH_BIN_DIR": lib.BIN_DIR, "VH_HOOKED_BIN_DIR": os.path.join(lib.BUILD, "repo-target-verif", "debug"),
               "VH_TIER": tier, "VH_JOBS": str(ctx.cfg.get("jobs", 8))}
    lib.build()
    ctx.wd = lib.workdir(pid + ".run")
    try:
        vectors = stage_mc(ctx)
        stage_proofs(ctx)
        stage_replay(ctx, vectors)
        stage_record(ctx)
        for k, more in enumerate(ctx.cfg.get("more", [])):
            stage_record(ctx, more, ".%s" % more.get("record_vh", k))
        for extra in ctx.cfg.get("extra", []):
            getattr(P, extra)(ctx)
        with open(os.path.join(lib.BUILD, "last_failures.%s.jsonl" % pid), "w") as ff:
            for fl in ctx.failures:
                ff.write(json.dumps(fl) + "\n")
        nviol, known = classify(ctx)
        selftest_error = None
        try:
            stage_selftest(ctx)
        except ToolError as e:
            if nviol == 0:
                raise
            selftest_error = str(e)
    finally:
        import shutil
        shutil.rmtree(ctx.wd, ignore_errors=True)
    cov = dict(states=max(ctx.states, 1), transitions=max(ctx.transitions, 1),
               traces_validated_against_impl=ctx.replayed + ctx.validated,
               samples=ctx.samples[:4] or [dict(note="no sample")],
               vectors_replayed_spec_to_impl=ctx.replayed, recorded_runs_validated_impl_to_spec=ctx.validated,
               out_of_domain_skipped=ctx.skipped, tlc_runs=ctx.mc_runs, trace_stages=ctx.trace_stages, selftest=ctx.selftest, selftest_more=ctx.selftest_more, tlaps_proofs=getattr(ctx, "proofs", []),
               known_findings_hit=known, disagreements=len(ctx.failures),
               exhaustive=bool(ctx.cfg.get("exhaustive_note")), rule=ctx.cfg.get("rule", ""))
    if ctx.beyond:
        # the specification has grown past the listed properties; where the code disagrees with it there, that is
        # worth knowing but it is not a violation of this property
        cov["beyond_property_disagreements"] = dict(count=len(ctx.beyond), first=ctx.beyond[0])
        log("NOTE: %d recorded runs disagree with the specification on behaviour no listed property fixes (see evidence)" % len(ctx.beyond))
    if getattr(ctx, "proofs", []):
        cov["obligations"] = cov["discharged"] = sum(p["obligations_proved"] for p in ctx.proofs)
    cov.update(ctx.extra)
    lib.write_evidence(pid, tier, seed, cov, ctx.cfg.get("assumptions", []), time.time() - t0, nviol)
    log("%s %s: %d violations, %d known findings, %.1fs" % (pid, tier, nviol, len(known), time.time() - t0))
    return 1 if nviol else 0


def replay(pid, path):
    lib.build()
    case = json.load(open(path))
    wd = lib.workdir(pid + ".replay")
    vh = case.get("vh", pid)
    env = {"VH_BIN_DIR": lib.BIN_DIR, "VH_HOOKED_BIN_DIR": os.path.join(lib.BUILD, "repo-target-verif", "debug"), "VH_JOBS": "1"}
    inp = os.path.join(wd, "in.json")
    json.dump({"in": case["input"]}, open(inp, "w"))
    rc, out, _ = lib.run([lib.VH, "run", vh, inp], timeout=600, env=env)
    if rc != 0:
        raise ToolError("vh run failed: " + out)
    obs = json.loads(out.strip().splitlines()[-1])
    print("input:    ", json.dumps(case.get("readable") or case["input"])[:2000])
    print("expected: ", json.dumps(case.get("expected_by_spec"))[:2000])
    print("observed: ", json.dumps(obs)[:2000])
    cfg = P.PROPS[pid]
    if case.get("source") == "replay":
        # a TLC-generated vector: the harness compares the prescribed behaviour with the observation
        vf, rf = os.path.join(wd, "v.jsonl"), os.path.join(wd, "r.jsonl")
        open(vf, "w").write(json.dumps({"in": case["input"], "exp": case["expected_by_spec"]}) + "\n")
        rc, out, _ = lib.run([lib.VH, "replay", vh, vf, rf], timeout=600, env=env)
        if rc != 0:
            raise ToolError("vh replay failed: " + out)
        if any(json.loads(l).get("fail") for l in open(rf)):
            print("VIOLATION property=%s replay=%s" % (pid, path))
            return 1
        print("the real code now behaves as the specification prescribes")
        return 0
    if "trace" not in cfg:
        return 0
    tf = os.path.join(wd, "one.ndjson")
    open(tf, "w").write(json.dumps({"in": case["input"], "obs": obs}) + "\n")
    ctx = Ctx()
    ctx.cfg, ctx.states, ctx.transitions = cfg, 0, 0
    # a run recorded by one of the additional trace stages is judged by that stage's trace specification
    stage = next((m for m in cfg.get("more", []) if m.get("record_vh") == vh), None)
    n, mism, skips, _beyond = validate_trace(ctx, tf, pid + ".rp", stage)
    if mism:
        print("VIOLATION property=%s replay=%s" % (pid, path))
        return 1
    print("the specification accepts this run now")
    return 0


def main():
    args = [a for a in sys.argv[1:]]
    if not args or args[0] not in P.PROPS:
        print(__doc__)
        return 2
    pid = args[0]
    try:
        if "--replay" in args:
            return replay(pid, args[args.index("--replay") + 1])
        tier = args[1] if len(args) > 1 else os.environ.get("VERIF_TIER", "quick")
        if tier not in ("quick", "thorough"):
            tier = "quick"
        seed = int(os.environ.get("VERIF_SEED", "20260928"))
        return check(pid, tier, seed)
    except ToolError as e:
        log("TOOL ERROR: " + str(e))
        return 2
    except Exception:
        traceback.print_exc()
        return 2


if __name__ == "__main__":
    sys.exit(main())
