//! Materialising the specification's file-tree values (see spec/FindWalk.tla) in a sandbox.
use crate::util::*;
use serde_json::Value;
use std::os::unix::ffi::OsStrExt;
use std::path::{Path, PathBuf};

#[derive(Clone, Debug)]
pub struct Node {
    pub parent: usize, // 0 = the working directory
    pub name: Vec<u8>,
    pub kind: String, // "d" | "f" | "l"
    pub target: usize, // for links: node id, 0 = dangling
    pub extra: Value, // optional attributes (size, mode, link text, ...)
}

pub fn parse_tree(v: &Value) -> Vec<Node> {
    arr(v)
        .iter()
        .map(|n| Node {
            parent: n["parent"].as_u64().unwrap_or(0) as usize,
            name: json_to_bytes(&n["name"]),
            kind: n["kind"].as_str().unwrap_or("f").to_string(),
            target: n.get("target").and_then(|t| t.as_u64()).unwrap_or(0) as usize,
            extra: n.clone(),
        })
        .collect()
}

pub fn node_path(tree: &[Node], i: usize) -> PathBuf {
    // i is 1-based
    let mut comps = vec![];
    let mut k = i;
    while k != 0 {
        comps.push(tree[k - 1].name.clone());
        k = tree[k - 1].parent;
    }
    let mut p = PathBuf::new();
    for c in comps.iter().rev() {
        p.push(std::ffi::OsStr::from_bytes(c));
    }
    p
}

static MOUNTS: std::sync::Mutex<Vec<PathBuf>> = std::sync::Mutex::new(Vec::new());
static MOUNT_FAILED: std::sync::atomic::AtomicBool = std::sync::atomic::AtomicBool::new(false);

/// Mount an empty tmpfs on `p` (a node with the attribute "mnt": another file system begins here).
fn mount_tmpfs(p: &Path) -> bool {
    let target = std::ffi::CString::new(p.as_os_str().as_bytes()).unwrap();
    let r = unsafe { libc::mount(c"none".as_ptr(), target.as_ptr(), c"tmpfs".as_ptr(), 0, std::ptr::null()) };
    if r == 0 {
        MOUNTS.lock().unwrap().push(p.to_path_buf());
    }
    r == 0
}

/// Unmount what `materialize` mounted below `root` (deepest first).
pub fn unmount_below(root: &Path) {
    let mut m = MOUNTS.lock().unwrap();
    let mut keep = vec![];
    let mut mine: Vec<PathBuf> = vec![];
    for p in m.drain(..) {
        if p.starts_with(root) {
            mine.push(p);
        } else {
            keep.push(p);
        }
    }
    mine.sort_by_key(|p| std::cmp::Reverse(p.as_os_str().len()));
    for p in mine {
        let c = std::ffi::CString::new(p.as_os_str().as_bytes()).unwrap();
        unsafe { libc::umount2(c.as_ptr(), libc::MNT_DETACH) };
    }
    *m = keep;
}

/// Did a mount asked for by the last `materialize` fail (no privilege in this sandbox)?
pub fn mount_failed() -> bool {
    MOUNT_FAILED.load(std::sync::atomic::Ordering::SeqCst)
}

/// Create the tree below `base` (which must exist and be empty).
pub fn materialize(base: &Path, tree: &[Node]) {
    MOUNT_FAILED.store(false, std::sync::atomic::Ordering::SeqCst);
    for (idx, n) in tree.iter().enumerate() {
        let p = base.join(node_path(tree, idx + 1));
        match n.kind.as_str() {
            "d" => {
                std::fs::create_dir(&p).unwrap_or_else(|e| panic!("mkdir {:?}: {}", p, e));
                if n.extra.get("mnt").and_then(|m| m.as_bool()).unwrap_or(false) && !mount_tmpfs(&p) {
                    MOUNT_FAILED.store(true, std::sync::atomic::Ordering::SeqCst);
                }
            }
            "l" => {
                let text: PathBuf = if n.extra.get("reltext").and_then(|b| b.as_bool()).unwrap_or(false) && n.target != 0 {
                    // a link one directory below the top whose target is a top-level node: "../NAME", with the name the
                    // target has now (names may have been rewritten after the tree was drawn)
                    let mut t = b"../".to_vec();
                    t.extend(&tree[n.target - 1].name);
                    PathBuf::from(std::ffi::OsStr::from_bytes(&t))
                } else if let Some(t) = n.extra.get("text").filter(|t| !t.is_null()) {
                    PathBuf::from(std::ffi::OsStr::from_bytes(&json_to_bytes(t)))
                } else if n.target == 0 {
                    PathBuf::from(format!("nonexistent-{}", idx + 1))
                } else {
                    base.join(node_path(tree, n.target))
                };
                std::os::unix::fs::symlink(&text, &p).unwrap_or_else(|e| panic!("symlink {:?}: {}", p, e));
            }
            "p" => {
                let c = std::ffi::CString::new(p.as_os_str().as_bytes()).unwrap();
                unsafe {
                    libc::mkfifo(c.as_ptr(), 0o644);
                }
            }
            "s" => {
                let _ = std::os::unix::net::UnixListener::bind(&p);
            }
            _ if n.extra.get("hl").and_then(|h| h.as_u64()).unwrap_or(0) > 0 => {
                let other = base.join(node_path(tree, n.extra["hl"].as_u64().unwrap() as usize));
                std::fs::hard_link(&other, &p).unwrap_or_else(|e| panic!("link {:?}: {}", p, e));
            }
            _ => {
                let size = n.extra.get("size").and_then(|s| s.as_u64()).unwrap_or(0);
                let f = std::fs::File::create(&p).unwrap_or_else(|e| panic!("create {:?}: {}", p, e));
                if size > 0 {
                    f.set_len(size).unwrap();
                }
            }
        }
    }
    // owners, then modes (chown clears set-id bits)
    for (idx, n) in tree.iter().enumerate() {
        let u = n.extra.get("uid").and_then(|x| x.as_u64()).unwrap_or(0);
        let g = n.extra.get("gid").and_then(|x| x.as_u64()).unwrap_or(0);
        if (u != 0 || g != 0) && n.kind != "l" {
            let c = std::ffi::CString::new(base.join(node_path(tree, idx + 1)).as_os_str().as_bytes()).unwrap();
            unsafe {
                libc::chown(c.as_ptr(), u as u32, g as u32);
            }
        }
    }
    // modes last, deepest first, so that restrictive directory modes do not get in the way
    for (idx, n) in tree.iter().enumerate().rev() {
        if let Some(m) = n.extra.get("mode").and_then(|m| m.as_u64()) {
            if n.kind != "l" {
                use std::os::unix::fs::PermissionsExt;
                let p = base.join(node_path(tree, idx + 1));
                let _ = std::fs::set_permissions(&p, std::fs::Permissions::from_mode(m as u32));
            }
        }
    }
}

/// A fresh, empty case directory `<sandbox>/<n>/w`; the previous one is removed.
pub fn fresh_case_dir(sb: &Sandbox, counter: &mut u64) -> PathBuf {
    let old = sb.path().join(format!("{}", *counter));
    unmount_below(&old);
    if old.exists() && std::fs::remove_dir_all(&old).is_err() {
        let _ = std::process::Command::new("chmod").arg("-R").arg("u+rwx").arg(&old).stderr(std::process::Stdio::null()).status();
        let _ = std::fs::remove_dir_all(&old);
    }
    *counter += 1;
    let d = sb.path().join(format!("{}", *counter)).join("w");
    std::fs::create_dir_all(&d).expect("case dir");
    d
}

/// File names that are not valid UTF-8 (a Latin-1 name, bytes that can start nothing, a lone continuation byte).
pub const RAW_NAMES: [&[u8]; 3] = [b"caf\xe9", b"\xff\xfe", b"x\x80y"];

/// Give up to two nodes of a generated input names that are not valid UTF-8.  Only nodes that are neither a starting
/// point nor above one are renamed (starting points are spelled on the command line, which the in-process runner
/// takes as strings).  Returns whether any node was renamed.
pub fn add_raw_names(v: &mut Value, rng: &mut Rng) -> bool {
    let n = arr(&v["tree"]).len();
    let parent = |v: &Value, i: usize| v["tree"][i - 1]["parent"].as_u64().unwrap_or(0) as usize;
    let mut above_root = vec![false; n + 1];
    for r in arr(&v["roots"]) {
        let mut k = r["node"].as_u64().unwrap_or(0) as usize;
        while k != 0 && k <= n {
            above_root[k] = true;
            k = parent(v, k);
        }
    }
    let mut any = false;
    for _ in 0..2 {
        let i = 1 + rng.below(n);
        if above_root[i] {
            continue;
        }
        let name = RAW_NAMES[rng.below(RAW_NAMES.len())];
        let par = parent(v, i);
        let clash = (1..=n).any(|j| j != i && parent(v, j) == par && json_to_bytes(&v["tree"][j - 1]["name"]) == name);
        if clash {
            continue;
        }
        v["tree"][i - 1]["name"] = bytes_to_json(name);
        any = true;
    }
    any
}

/// find prints a path that is not valid UTF-8 with U+FFFD in place of the offending bytes (not this property's
/// subject).  Translate such a printed path back, component by component, through the names of the tree whose
/// printed form it is; components that are nobody's printed form stay as they are.
pub fn unlossy(printed: &[u8], tree: &[Node]) -> Vec<u8> {
    if !printed.windows(3).any(|w| w == "\u{fffd}".as_bytes()) {
        return printed.to_vec();
    }
    let mut out: Vec<u8> = vec![];
    for (k, comp) in printed.split(|b| *b == b'/').enumerate() {
        if k > 0 {
            out.push(b'/');
        }
        let cands: Vec<&Node> = tree.iter().filter(|n| std::str::from_utf8(&n.name).is_err() && String::from_utf8_lossy(&n.name).as_bytes() == comp).collect();
        let mut names: Vec<&Vec<u8>> = cands.iter().map(|n| &n.name).collect();
        names.dedup();
        if names.len() == 1 {
            out.extend(names[0].iter());
        } else {
            out.extend(comp);
        }
    }
    out
}
