//! Materialising the specification's file-tree values (see spec/FindWalk.tla) in a sandbox.
use crate::util::*;
use serde_json::Value;
use std::os::unix::ffi::OsStrExt;
use std::path::{Path, PathBuf};

#[derive(Clone, Debug)]
pub struct Node {
    pub parent: usize, // 0 = the working directory
    pub name: Vec<u8>,
    pub kind: String, // "d" | "f" | "l"
    pub target: usize, // for links: node id, 0 = dangling
    pub extra: Value, // optional attributes (size, mode, link text, ...)
}

pub fn parse_tree(v: &Value) -> Vec<Node> {
    arr(v)
        .iter()
        .map(|n| Node {
            parent: n["parent"].as_u64().unwrap_or(0) as usize,
            name: json_to_bytes(&n["name"]),
            kind: n["kind"].as_str().unwrap_or("f").to_string(),
            target: n.get("target").and_then(|t| t.as_u64()).unwrap_or(0) as usize,
            extra: n.clone(),
        })
        .collect()
}

pub fn node_path(tree: &[Node], i: usize) -> PathBuf {
    // i is 1-based
    let mut comps = vec![];
    let mut k = i;
    while k != 0 {
        comps.push(tree[k - 1].name.clone());
        k = tree[k - 1].parent;
    }
    let mut p = PathBuf::new();
    for c in comps.iter().rev() {
        p.push(std::ffi::OsStr::from_bytes(c));
    }
    p
}

/// Create the tree below `base` (which must exist and be empty).
pub fn materialize(base: &Path, tree: &[Node]) {
    for (idx, n) in tree.iter().enumerate() {
        let p = base.join(node_path(tree, idx + 1));
        match n.kind.as_str() {
            "d" => {
                std::fs::create_dir(&p).unwrap_or_else(|e| panic!("mkdir {:?}: {}", p, e));
            }
            "l" => {
                let text: PathBuf = if let Some(t) = n.extra.get("text").filter(|t| !t.is_null()) {
                    PathBuf::from(std::ffi::OsStr::from_bytes(&json_to_bytes(t)))
                } else if n.target == 0 {
                    PathBuf::from(format!("nonexistent-{}", idx + 1))
                } else {
                    base.join(node_path(tree, n.target))
                };
                std::os::unix::fs::symlink(&text, &p).unwrap_or_else(|e| panic!("symlink {:?}: {}", p, e));
            }
            "p" => {
                let c = std::ffi::CString::new(p.as_os_str().as_bytes()).unwrap();
                unsafe {
                    libc::mkfifo(c.as_ptr(), 0o644);
                }
            }
            "s" => {
                let _ = std::os::unix::net::UnixListener::bind(&p);
            }
            _ if n.extra.get("hl").and_then(|h| h.as_u64()).unwrap_or(0) > 0 => {
                let other = base.join(node_path(tree, n.extra["hl"].as_u64().unwrap() as usize));
                std::fs::hard_link(&other, &p).unwrap_or_else(|e| panic!("link {:?}: {}", p, e));
            }
            _ => {
                let size = n.extra.get("size").and_then(|s| s.as_u64()).unwrap_or(0);
                let f = std::fs::File::create(&p).unwrap_or_else(|e| panic!("create {:?}: {}", p, e));
                if size > 0 {
                    f.set_len(size).unwrap();
                }
            }
        }
    }
    // owners, then modes (chown clears set-id bits)
    for (idx, n) in tree.iter().enumerate() {
        let u = n.extra.get("uid").and_then(|x| x.as_u64()).unwrap_or(0);
        let g = n.extra.get("gid").and_then(|x| x.as_u64()).unwrap_or(0);
        if (u != 0 || g != 0) && n.kind != "l" {
            let c = std::ffi::CString::new(base.join(node_path(tree, idx + 1)).as_os_str().as_bytes()).unwrap();
            unsafe {
                libc::chown(c.as_ptr(), u as u32, g as u32);
            }
        }
    }
    // modes last, deepest first, so that restrictive directory modes do not get in the way
    for (idx, n) in tree.iter().enumerate().rev() {
        if let Some(m) = n.extra.get("mode").and_then(|m| m.as_u64()) {
            if n.kind != "l" {
                use std::os::unix::fs::PermissionsExt;
                let p = base.join(node_path(tree, idx + 1));
                let _ = std::fs::set_permissions(&p, std::fs::Permissions::from_mode(m as u32));
            }
        }
    }
}

/// A fresh, empty case directory `<sandbox>/<n>/w`; the previous one is removed.
pub fn fresh_case_dir(sb: &Sandbox, counter: &mut u64) -> PathBuf {
    let old = sb.path().join(format!("{}", *counter));
    if old.exists() && std::fs::remove_dir_all(&old).is_err() {
        let _ = std::process::Command::new("chmod").arg("-R").arg("u+rwx").arg(&old).stderr(std::process::Stdio::null()).status();
        let _ = std::fs::remove_dir_all(&old);
    }
    *counter += 1;
    let d = sb.path().join(format!("{}", *counter)).join("w");
    std::fs::create_dir_all(&d).expect("case dir");
    d
}
