//! Running find in-process (findutils::find::find_main) with captured output, an
//! injectable clock, stderr captured to a file and panics caught; or as the real binary.
use crate::util::*;
use findutils::find::{find_main, Dependencies};
use std::cell::RefCell;
use std::io::Write;
use std::os::unix::io::AsRawFd;
use std::os::unix::process::ExitStatusExt;
use std::path::Path;
use std::time::SystemTime;

pub struct CapDeps {
    pub out: RefCell<Vec<u8>>,
    pub now: SystemTime,
}

impl Dependencies for CapDeps {
    fn get_output(&self) -> &RefCell<dyn Write> {
        &self.out
    }
    fn now(&self) -> SystemTime {
        self.now
    }
}

pub struct FindRun {
    pub out: Vec<u8>,
    pub exit: i64, // exit status; 101 = panic
    pub panicked: bool,
    pub stderr: Vec<u8>,
}

/// Run find in this process with the working directory `cwd`.  `args` excludes argv[0].
pub fn run_find_inproc(cwd: &Path, args: &[String], now: Option<SystemTime>, errfile: &Path) -> FindRun {
    let old = std::env::current_dir().ok();
    std::env::set_current_dir(cwd).expect("chdir");
    // capture stderr (diagnostics are data: "at least one diagnostic")
    let ef = std::fs::File::create(errfile).expect("errfile");
    let saved = unsafe { libc::dup(2) };
    unsafe { libc::dup2(ef.as_raw_fd(), 2) };
    let deps = CapDeps { out: RefCell::new(vec![]), now: now.unwrap_or_else(SystemTime::now) };
    let mut argv: Vec<&str> = vec!["find"];
    for a in args {
        argv.push(a.as_str());
    }
    let hook = std::panic::take_hook();
    std::panic::set_hook(Box::new(|_| {}));
    let r = std::panic::catch_unwind(std::panic::AssertUnwindSafe(|| find_main(&argv, &deps)));
    std::panic::set_hook(hook);
    unsafe {
        libc::dup2(saved, 2);
        libc::close(saved);
    }
    if let Some(o) = old {
        let _ = std::env::set_current_dir(o);
    }
    let stderr = std::fs::read(errfile).unwrap_or_default();
    let out = deps.out.borrow().clone();
    match r {
        Ok(code) => FindRun { out, exit: code as i64, panicked: false, stderr },
        Err(_) => FindRun { out, exit: 101, panicked: true, stderr },
    }
}

/// Run the real find binary built from /repo.
pub fn run_find_bin(cwd: &Path, args: &[String], stdin: Option<&[u8]>, env: &[(String, String)], timeout_s: u64) -> FindRun {
    let a: Vec<std::ffi::OsString> = args.iter().map(std::ffi::OsString::from).collect();
    run_find_bin_os(cwd, &a, stdin, env, timeout_s)
}

/// The same with arbitrary (not necessarily UTF-8) arguments.
pub fn run_find_bin_os(cwd: &Path, args: &[std::ffi::OsString], stdin: Option<&[u8]>, env: &[(String, String)], timeout_s: u64) -> FindRun {
    use std::process::{Command, Stdio};
    let mut c = Command::new(bin_dir().join("find"));
    c.args(args).current_dir(cwd);
    for (k, v) in env {
        if k == "VH_SETUID" {
            // not an environment variable: run the child as this (unprivileged) user
            use std::os::unix::process::CommandExt;
            let id: u32 = v.parse().unwrap_or(65534);
            unsafe {
                c.pre_exec(move || {
                    libc::setgroups(0, std::ptr::null());
                    libc::setgid(id);
                    libc::setuid(id);
                    Ok(())
                });
            }
            continue;
        }
        if k == "VH_STDOUT" {
            continue;
        }
        if k == "VH_RLIMIT_STACK" {
            // not an environment variable: the stack limit (bytes) the child is started with
            use std::os::unix::process::CommandExt;
            let lim: u64 = v.parse().unwrap_or(8 << 20);
            unsafe {
                c.pre_exec(move || {
                    let r = libc::rlimit { rlim_cur: lim, rlim_max: lim };
                    libc::setrlimit(libc::RLIMIT_STACK, &r);
                    Ok(())
                });
            }
            continue;
        }
        c.env(k, v);
    }
    let inp = cwd.parent().unwrap_or(cwd).join(".stdin.bin");
    if let Some(s) = stdin {
        std::fs::write(&inp, s).unwrap();
        c.stdin(Stdio::from(std::fs::File::open(&inp).unwrap()));
    } else {
        c.stdin(Stdio::null());
    }
    // kept outside the working directory: the files of one run must not show up in its walk
    let outp = cwd.parent().unwrap_or(cwd).join(".stdout.bin");
    let errp = cwd.parent().unwrap_or(cwd).join(".stderr.bin");
    // VH_STDOUT (not an environment variable): where standard output goes instead - e.g. /dev/full
    match env.iter().find(|(k, _)| k == "VH_STDOUT") {
        Some((_, path)) => c.stdout(Stdio::from(std::fs::OpenOptions::new().write(true).open(path).unwrap())),
        None => c.stdout(Stdio::from(std::fs::File::create(&outp).unwrap())),
    };
    c.stderr(Stdio::from(std::fs::File::create(&errp).unwrap()));
    let mut child = c.spawn().expect("spawn find");
    let t0 = std::time::Instant::now();
    let exit;
    loop {
        match child.try_wait() {
            Ok(Some(st)) => {
                exit = match st.code() {
                    Some(c) => c as i64,
                    None => 1000 + st.signal().unwrap_or(0) as i64,
                };
                break;
            }
            Ok(None) => {
                if t0.elapsed().as_secs() > timeout_s {
                    let _ = child.kill();
                    let _ = child.wait();
                    exit = -1;
                    break;
                }
                std::thread::sleep(std::time::Duration::from_micros(300));
            }
            Err(_) => {
                exit = -2;
                break;
            }
        }
    }
    let out = std::fs::read(&outp).unwrap_or_default();
    let stderr = std::fs::read(&errp).unwrap_or_default();
    for p in [&inp, &outp, &errp] {
        let _ = std::fs::remove_file(p);
    }
    let panicked = exit == 101 || exit == 1006 || String::from_utf8_lossy(&stderr).contains("panicked at");
    FindRun { out, exit, panicked, stderr }
}

pub fn split_nul(out: &[u8]) -> Vec<Vec<u8>> {
    let mut v: Vec<Vec<u8>> = out.split(|b| *b == 0).map(|s| s.to_vec()).collect();
    if v.last().map(|l| l.is_empty()).unwrap_or(false) {
        v.pop();
    }
    v
}
