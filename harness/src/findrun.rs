//! (filled in with the find properties)
