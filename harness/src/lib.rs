//! Conformance harness binding the TLA+ specification in /verif/spec to the real
//! findutils code in /repo (library linked as a path dependency, binaries built from
//! the same working tree).
pub mod findrun;
pub mod props;
pub mod tree;
pub mod util;
pub mod xrun;
