use serde_json::{json, Value};
use std::path::{Path, PathBuf};

/// Small deterministic PRNG (splitmix64) so that VERIF_SEED reproduces a run.
pub struct Rng(pub u64);

impl Rng {
    pub fn new(seed: u64) -> Self {
        Rng(seed.wrapping_mul(0x9E3779B97F4A7C15) ^ 0xD1B54A32D192ED03)
    }
    pub fn next(&mut self) -> u64 {
        self.0 = self.0.wrapping_add(0x9E3779B97F4A7C15);
        let mut z = self.0;
        z = (z ^ (z >> 30)).wrapping_mul(0xBF58476D1CE4E5B9);
        z = (z ^ (z >> 27)).wrapping_mul(0x94D049BB133111EB);
        z ^ (z >> 31)
    }
    /// uniform in 0..n (n > 0)
    pub fn below(&mut self, n: usize) -> usize {
        (self.next() % (n as u64)) as usize
    }
    /// uniform in lo..=hi
    pub fn range(&mut self, lo: i64, hi: i64) -> i64 {
        lo + (self.next() % ((hi - lo + 1) as u64)) as i64
    }
    pub fn chance(&mut self, num: u64, den: u64) -> bool {
        self.next() % den < num
    }
    pub fn pick<'a, T>(&mut self, xs: &'a [T]) -> &'a T {
        &xs[self.below(xs.len())]
    }
}

pub fn bytes_to_json(b: &[u8]) -> Value {
    Value::Array(b.iter().map(|x| json!(*x)).collect())
}

pub fn json_to_bytes(v: &Value) -> Vec<u8> {
    match v {
        Value::Array(a) => a.iter().map(|x| x.as_u64().unwrap_or(0) as u8).collect(),
        Value::String(s) => s.as_bytes().to_vec(),
        // TLC serialises the empty sequence as [] but an empty function may come as {}
        _ => vec![],
    }
}

pub fn json_to_string(v: &Value) -> String {
    String::from_utf8_lossy(&json_to_bytes(v)).into_owned()
}

pub fn str_to_json(s: &str) -> Value {
    bytes_to_json(s.as_bytes())
}

pub fn hex(b: &[u8]) -> String {
    let mut s = String::with_capacity(b.len() * 2);
    for x in b {
        s.push_str(&format!("{:02x}", x));
    }
    s
}

pub fn unhex(s: &str) -> Vec<u8> {
    (0..s.len() / 2)
        .map(|i| u8::from_str_radix(&s[2 * i..2 * i + 2], 16).unwrap_or(0))
        .collect()
}

/// TLC writes an empty sequence as `[]`; a JSON array is what we expect everywhere.
pub fn arr(v: &Value) -> Vec<Value> {
    match v {
        Value::Array(a) => a.clone(),
        Value::Null => vec![],
        Value::Object(o) if o.is_empty() => vec![],
        other => vec![other.clone()],
    }
}

/// A scratch directory on tmpfs, removed on drop.
pub struct Sandbox {
    pub root: PathBuf,
}

static COUNTER: std::sync::atomic::AtomicUsize = std::sync::atomic::AtomicUsize::new(0);

impl Sandbox {
    pub fn new(tag: &str) -> Self {
        let base = if Path::new("/dev/shm").is_dir() {
            PathBuf::from("/dev/shm")
        } else {
            std::env::temp_dir()
        };
        let n = COUNTER.fetch_add(1, std::sync::atomic::Ordering::SeqCst);
        if n == 0 {
            reap_stale_sandboxes(&base);
        }
        let root = base.join(format!("verif.{}.{}.{}", std::process::id(), tag, n));
        let _ = std::fs::remove_dir_all(&root);
        std::fs::create_dir_all(&root).expect("sandbox");
        Sandbox { root }
    }
    pub fn path(&self) -> &Path {
        &self.root
    }
}

/// Sandboxes of harness processes that no longer exist (killed by a timeout): unmount what they mounted, remove them.
fn reap_stale_sandboxes(base: &Path) {
    let prefix = base.join("verif.");
    let prefix = prefix.to_string_lossy().into_owned();
    let alive = |root: &str| -> bool {
        root[prefix.len()..].split('.').next().and_then(|p| p.parse::<u32>().ok()).map(|p| Path::new(&format!("/proc/{}", p)).exists()).unwrap_or(true)
    };
    if let Ok(m) = std::fs::read_to_string("/proc/mounts") {
        let mut points: Vec<String> = m.lines().filter_map(|l| l.split(' ').nth(1)).filter(|p| p.starts_with(&prefix) && !alive(p)).map(|p| p.replace("\\040", " ")).collect();
        points.sort_by_key(|p| std::cmp::Reverse(p.len()));
        for p in points {
            if let Ok(c) = std::ffi::CString::new(p) {
                unsafe { libc::umount2(c.as_ptr(), libc::MNT_DETACH) };
            }
        }
    }
    if let Ok(rd) = std::fs::read_dir(base) {
        for e in rd.flatten() {
            let p = e.path();
            let ps = p.to_string_lossy().into_owned();
            if ps.starts_with(&prefix) && !alive(&ps) {
                let _ = std::process::Command::new("chmod").arg("-R").arg("u+rwx").arg(&p).stderr(std::process::Stdio::null()).status();
                let _ = std::fs::remove_dir_all(&p);
            }
        }
    }
}

impl Drop for Sandbox {
    fn drop(&mut self) {
        crate::tree::unmount_below(&self.root);
        // make everything removable again
        let _ = std::process::Command::new("chmod")
            .arg("-R")
            .arg("u+rwx")
            .arg(&self.root)
            .stderr(std::process::Stdio::null())
            .status();
        let _ = std::fs::remove_dir_all(&self.root);
    }
}

pub fn bin_dir() -> PathBuf {
    PathBuf::from(std::env::var("VH_BIN_DIR").unwrap_or_else(|_| "/verif/build/repo-target/debug".into()))
}

/// The binaries built from /repo with `--cfg findutils_verif` (they log event traces when asked to).
pub fn hooked_bin_dir() -> PathBuf {
    PathBuf::from(std::env::var("VH_HOOKED_BIN_DIR").unwrap_or_else(|_| "/verif/build/repo-target-verif/debug".into()))
}

pub fn vrec_path() -> PathBuf {
    let me = std::env::current_exe().expect("current_exe");
    me.parent().unwrap().join("vrec")
}
