//! C19: xargs exit status. Input {outs:[..]} (per-invocation scripted outcomes: 0..255 exit
//! status, 1000+s killed by signal s) with -n1 and one argument per outcome, or
//! {kind:"notfound"|"notexec"|"notexec_dir"|"notexec_notdir"|"notexec_loop"|"badopt"|"quote".."quote5"|"toolong"}.
//! Observation: {started, exit}
use super::Prop;
use crate::util::*;
use crate::xrun::*;
use serde_json::{json, Value};

pub struct P19 {
    sb: Sandbox,
}

impl Default for P19 {
    fn default() -> Self {
        P19 { sb: Sandbox::new("p19") }
    }
}

impl Prop for P19 {
    fn run(&mut self, input: &Value) -> Value {
        let kind = input.get("kind").and_then(|k| k.as_str()).unwrap_or("script").to_string();
        match kind.as_str() {
            "script" => {
                let outs: Vec<i64> = arr(&input["outs"]).iter().map(|x| x.as_i64().unwrap()).collect();
                let per = input.get("per").and_then(|v| v.as_u64()).unwrap_or(1).max(1) as usize;
                let mut stdin = vec![];
                for k in 0..outs.len() * per {
                    stdin.extend(format!("arg{}\n", k).as_bytes());
                }
                let mut o = XOpts::new(&stdin);
                o.opts = vec!["-n".into(), per.to_string()];
                o.script = Some(outs.clone());
                let r = run_xargs(&self.sb, &o);
                if looks_like_panic(&r) {
                    return json!({"panic": true});
                }
                json!({"started": r.execs.len(), "exit": r.exit})
            }
            "notfound" | "notexec" | "notexec_dir" | "notexec_notdir" | "notexec_loop" => {
                let stdin = b"a\nb\nc\n".to_vec();
                let mut o = XOpts::new(&stdin);
                o.opts = vec!["-n".into(), "1".into()];
                let mut p = self.sb.path().join(if kind == "notfound" { "no-such-command" } else { "not-executable" });
                let _ = std::fs::remove_file(&p);
                let _ = std::fs::remove_dir(&p);
                match kind.as_str() {
                    "notexec" => {
                        std::fs::write(&p, b"#!/bin/sh\nexit 0\n").unwrap();
                        use std::os::unix::fs::PermissionsExt;
                        std::fs::set_permissions(&p, std::fs::Permissions::from_mode(0o644)).unwrap();
                    }
                    // the command exists but is a directory
                    "notexec_dir" => std::fs::create_dir(&p).unwrap(),
                    // the path of the command leads through a regular file
                    "notexec_notdir" => {
                        std::fs::write(&p, b"x").unwrap();
                        p = p.join("cmd");
                    }
                    // the command is a symbolic link to itself
                    "notexec_loop" => std::os::unix::fs::symlink("not-executable", &p).unwrap(),
                    _ => {}
                }
                o.cmd = Some(p);
                let r = run_xargs(&self.sb, &o);
                json!({"started": r.execs.len(), "exit": r.exit})
            }
            // a command that does not exist matters only when it is to be run: with -r and no input nothing is run
            // (status 0), and an input error found before the first dispatch is still the input error (status 1)
            "notfound_norun" | "notfound_quote" => {
                let stdin: Vec<u8> = if kind == "notfound_norun" { b" \n\n".to_vec() } else { b"a 'b\n".to_vec() };
                let mut o = XOpts::new(&stdin);
                o.opts = vec!["-r".into()];
                o.cmd = Some(self.sb.path().join("no-such-command"));
                let r = run_xargs(&self.sb, &o);
                if looks_like_panic(&r) {
                    return json!({"panic": true});
                }
                json!({"started": r.execs.len(), "exit": r.exit})
            }
            _ => {
                let (opts, stdin): (Vec<&str>, &[u8]) = match kind.as_str() {
                    "badopt" => (vec!["-n", "0"], b"a b\n"),
                    "badopt2" => (vec!["-s", "abc"], b"a b\n"),
                    "badopt3" => (vec!["-L", "-3"], b"a b\n"),
                    "badopt4" => (vec!["--no-such-option"], b"a b\n"),
                    "badopt5" => (vec!["-Z"], b"a b\n"),
                    "quote" => (vec!["-n", "1"], b"a 'b c\n"),
                    "quote2" => (vec![], b"x \"unterminated\n"),
                    "toolong4" | "toolong5" => (vec![], b"ab\nabcdefghijklmnopqrst\ncd\n"),
                    // the opening quote is the very last byte of the input: nothing, not even a blank, follows it
                    "quote3" => (vec![], b"a b \""),
                    "quote4" => (vec!["-r"], b"'"),
                    "quote5" => (vec!["-n", "1"], b"a b\nc '"),
                    _ /* toolong */ => (vec!["-s", "200"], b"a aaaaaaaaaaaaaaaaaaaaaaaaaaaaaaaaaaaaaaaaaaaaaaaaaaaaaaaaaaaaaaaaaaaaaaaaaaaaaaaaaaaaaaaaaaaaaaaaaaaaaaaaaaaaaaaaaaaaaaaaaaaaaaaaaaaaaaaaaaaaaaaaaaaaaaaaaaaaaaaaaaaaaaaaaaaaaaaaaaaaaaaaaaaaaaaaaaaaaaaaaaaaaaaaaaaaaaaaaaaaaaaaaaaaaaaaaaaaaaaaaaaaaaaaaaaaaaa b\n"),
                };
                let mut sv = stdin.to_vec();
                let mut opts = opts;
                if kind == "toolong2" || kind == "toolong3" {
                    // an argument of exactly 128 KiB (one byte more than exec takes with its terminator): too long - status 1
                    // from xargs itself, not 126 from a failed exec; also after a child that failed
                    sv = if kind == "toolong3" { b"first\0".to_vec() } else { vec![] };
                    sv.extend(std::iter::repeat(b'x').take(131072));
                    sv.push(0);
                    opts = vec!["-0", "-n", "1"];
                }
                let mut o = XOpts::new(&sv);
                o.opts = opts.iter().map(|s| s.to_string()).collect();
                if kind == "toolong4" || kind == "toolong5" {
                    // -I: the line fits -s as it is read, the command line after the substitution does not - still xargs' own
                    // "argument too long" (status 1), also after a child that failed
                    o.opts = vec!["-s".into(), ((vrec_path().as_os_str().len() + 40) as u64).to_string(), "-I{}".into()];
                    o.init = vec![b"{}{}{}".to_vec()];
                    if kind == "toolong5" {
                        o.script = Some(vec![7]);
                    }
                }
                if kind == "toolong3" {
                    o.script = Some(vec![3]);
                }
                let r = run_xargs(&self.sb, &o);
                if looks_like_panic(&r) {
                    return json!({"panic": true});
                }
                json!({"started": r.execs.len(), "exit": r.exit})
            }
        }
    }

    fn gen(&mut self, rng: &mut Rng, idx: usize, tier: &str) -> Value {
        if idx % 8 == 7 {
            let k = *rng.pick(&["notfound", "notfound_norun", "notfound_quote", "notexec", "notexec_dir", "notexec_notdir", "notexec_loop", "badopt", "badopt2", "badopt3", "badopt4", "badopt5", "quote", "quote2", "quote3", "quote4", "quote5", "toolong", "toolong2", "toolong3", "toolong4", "toolong5"]);
            return json!({"kind": k});
        }
        let len = if idx % 10 == 0 { rng.below(if tier == "thorough" { 200 } else { 60 }) } else { rng.below(9) };
        let pfatal = *rng.pick(&[0u64, 1, 3]);
        let outs: Vec<i64> = (0..len)
            .map(|_| {
                let r = rng.below(20) as u64;
                if r < pfatal {
                    *rng.pick(&[255i64, 1009, 1015, 1002, 1013, 1001, 1010])
                } else if r < 10 {
                    0
                } else {
                    *rng.pick(&[1i64, 2, 3, 64, 100, 123, 124, 125, 1, 1])
                }
            })
            .collect();
        json!({"kind": "script", "outs": outs, "per": 1 + rng.below(3)})
    }

    fn same(&self, exp: &Value, obs: &Value) -> bool {
        if exp.get("started").map(|s| s.is_null()).unwrap_or(true) {
            return exp["exit"] == obs["exit"];
        }
        exp["started"] == obs["started"] && exp["exit"] == obs["exit"]
    }

    fn corrupt(&self, obs: &Value) -> Option<Value> {
        let mut o = obs.clone();
        let e = obs["exit"].as_i64().unwrap_or(0);
        o["exit"] = json!(if e == 0 { 123 } else { 0 });
        Some(o)
    }
}
