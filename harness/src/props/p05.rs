//! C05: xargs input splitting through the cfg(findutils_verif) hook.
use super::Prop;
use crate::util::*;
use findutils::xargs::verif::{tokenize, Chunk};
use serde_json::{json, Value};

#[derive(Default)]
pub struct P05;

fn run_chunks(bytes: &[u8], lens: &[usize], delim: Option<u8>) -> Value {
    // lens: chunk lengths; 0 stands for an interrupted read().
    let mut chunks = vec![];
    let mut pos = 0;
    for &l in lens {
        if l == 0 {
            chunks.push(Chunk::Interrupted);
        } else {
            let end = (pos + l).min(bytes.len());
            if end > pos {
                chunks.push(Chunk::Data(bytes[pos..end].to_vec()));
            }
            pos = end;
        }
    }
    if pos < bytes.len() {
        chunks.push(Chunk::Data(bytes[pos..].to_vec()));
    }
    let r = std::panic::catch_unwind(|| tokenize(&chunks, delim));
    match r {
        Err(_) => json!({"panic": true}),
        Ok(Err(_)) => json!({"err": true, "toks": []}),
        Ok(Ok(toks)) => json!({
            "err": false,
            "toks": toks.iter().map(|(b, h)| json!({"b": bytes_to_json(b), "hard": h})).collect::<Vec<_>>()
        }),
    }
}

/// all compositions of n into positive parts
fn compositions(n: usize) -> Vec<Vec<usize>> {
    if n == 0 {
        return vec![vec![]];
    }
    let mut out = vec![];
    for mask in 0..(1u32 << (n - 1)) {
        let mut parts = vec![];
        let mut cur = 1;
        for k in 0..n - 1 {
            if mask & (1 << k) != 0 {
                parts.push(cur);
                cur = 1;
            } else {
                cur += 1;
            }
        }
        parts.push(cur);
        out.push(parts);
    }
    out
}

impl Prop for P05 {
    fn run(&mut self, input: &Value) -> Value {
        let bytes = json_to_bytes(&input["bytes"]);
        let d = input["delim"].as_i64().unwrap_or(-1);
        let delim = if d < 0 { None } else { Some(d as u8) };
        if let Some(ch) = input.get("chunks").filter(|c| !c.is_null()) {
            let lens: Vec<usize> = arr(ch).iter().map(|x| x.as_u64().unwrap_or(1) as usize).collect();
            return run_chunks(&bytes, &lens, delim);
        }
        // No chunking given: the answer must be the same for every chunking.  Short
        // inputs are cut in every possible way (plus an interrupted read in front of
        // every chunk); the first chunking that disagrees with the one-chunk answer is
        // reported as observation, together with the cut.
        let whole = run_chunks(&bytes, &[bytes.len().max(1)], delim);
        if bytes.len() <= 10 {
            for c in compositions(bytes.len()) {
                let mut with_intr = vec![];
                for l in &c {
                    with_intr.push(0);
                    with_intr.push(*l);
                }
                for lens in [&c, &with_intr] {
                    let o = run_chunks(&bytes, lens, delim);
                    if o != whole {
                        let mut o = o;
                        o["chunks"] = json!(lens);
                        o["whole"] = whole;
                        return o;
                    }
                }
            }
        }
        whole
    }

    fn gen(&mut self, rng: &mut Rng, idx: usize, tier: &str) -> Value {
        // Alphabet weighted towards the bytes the tokenizer cares about; multi-byte
        // UTF-8 characters are emitted whole so that inputs stay valid UTF-8 while
        // chunk cuts may fall inside them.
        let delim: i64 = match rng.below(6) {
            0 => 0,
            1 => 10,
            2 => *rng.pick(&[b':' as i64, b'a' as i64, 32, 9, 92, 39]),
            _ => -1,
        };
        if idx % 199 == 11 && idx < 3000 {
            // one item longer than any argument exec accepts: where the input is cut is still the delimiter's business
            // alone (that such an argument cannot be passed on is found out later, by the limiters - C04, C06)
            let d = *rng.pick(&[0u8, 10, b':']);
            let mut bytes: Vec<u8> = vec![b'a'; 1 + rng.below(5)];
            bytes.push(d);
            bytes.extend(std::iter::repeat(b'b').take(131072 + rng.below(3000)));
            bytes.push(d);
            bytes.extend(b"ccc");
            let mut lens = vec![];
            let mut left = bytes.len();
            while left > 0 {
                let l = (*rng.pick(&[4096usize, 8192, 65536, 100000, 4095])).min(left);
                lens.push(l);
                left -= l;
            }
            return json!({"bytes": bytes_to_json(&bytes), "delim": d as i64, "chunks": lens});
        }
        let big = idx % 23 == 7; // exercise the 4096-byte buffer edge
        let len = if big {
            (4096 + rng.range(-3, 600)) as usize
        } else if tier == "thorough" {
            rng.below(400)
        } else {
            rng.below(120)
        };
        let mut bytes: Vec<u8> = vec![];
        let mut in_quote: Option<u8> = None;
        while bytes.len() < len {
            let r = rng.below(100);
            let piece: Vec<u8> = if big && r < 90 {
                vec![b'a' + (rng.below(26) as u8)]
            } else if r < 30 {
                vec![b'a' + (rng.below(26) as u8)]
            } else if r < 42 {
                vec![b' ']
            } else if r < 47 {
                vec![b'\t']
            } else if r < 58 {
                vec![b'\n']
            } else if r < 66 {
                let q = if rng.chance(1, 2) { b'\'' } else { b'"' };
                in_quote = match in_quote {
                    Some(x) if x == q => None,
                    Some(x) => Some(x),
                    None => Some(q),
                };
                vec![q]
            } else if r < 73 {
                // backslash followed by something interesting
                let nxt = *rng.pick(&[b' ', b'\n', b'\'', b'"', b'\\', b'x']);
                vec![b'\\', nxt]
            } else if r < 75 {
                "é".as_bytes().to_vec()
            } else if r < 77 {
                // bytes that are not valid UTF-8: a lead byte alone, a continuation byte alone, 0xFF
                vec![*rng.pick(&[0xc3u8, 0xa9, 0xff, 0xe2])]
            } else if r < 80 {
                // characters whose UTF-8 encoding contains bytes that are white space in Latin-1 / Unicode (0x85, 0xA0)
                rng.pick(&["à", "Å", "\u{a0}", "\u{2028}"]).as_bytes().to_vec()
            } else if r < 84 {
                "€".as_bytes().to_vec()
            } else if r < 87 {
                "😀".as_bytes().to_vec()
            } else if r < 90 {
                vec![*rng.pick(&[b'*', b'?', b'[', b'$', b'{', b'}', b'-', b':', b'%'])]
            } else if delim >= 0 && r < 96 {
                vec![delim as u8]
            } else {
                vec![b'0' + (rng.below(10) as u8)]
            };
            bytes.extend(piece);
        }
        // close an open quote most of the time so that error and non-error cases both occur
        if delim < 0 {
            if let Some(q) = in_quote {
                if rng.chance(3, 4) {
                    bytes.push(q);
                }
            }
        }
        // chunking: random cuts, biased to 1-byte reads and to cuts right after
        // backslashes / inside multi-byte characters / at the buffer edge
        let mut lens = vec![];
        let mut left = bytes.len();
        let style = rng.below(5);
        while left > 0 {
            let l = match style {
                0 => 1,
                1 => 1 + rng.below(3),
                2 => 1 + rng.below(4097),
                3 => *rng.pick(&[4095usize, 4096, 4097, 1, 2]),
                _ => 1 + rng.below(left),
            }
            .min(left);
            if rng.chance(1, 10) {
                lens.push(0);
            }
            lens.push(l);
            left -= l;
        }
        json!({"bytes": bytes_to_json(&bytes), "delim": delim, "chunks": lens})
    }

    fn same(&self, exp: &Value, obs: &Value) -> bool {
        if obs.get("panic").is_some() || obs.get("chunks").is_some() {
            return false;
        }
        let e_err = exp["err"].as_bool().unwrap_or(false);
        if e_err {
            return obs["err"].as_bool() == Some(true);
        }
        obs["err"].as_bool() == Some(false) && arr(&exp["toks"]) == arr(&obs["toks"])
    }

    fn corrupt(&self, obs: &Value) -> Option<Value> {
        // flip the kind of the first token, or invent a token
        let mut o = obs.clone();
        let toks = arr(&o["toks"]);
        if let Some(first) = toks.first() {
            let mut t = toks.clone();
            let mut f = first.clone();
            f["hard"] = json!(!first["hard"].as_bool().unwrap_or(false));
            t[0] = f;
            o["toks"] = json!(t);
        } else {
            o["toks"] = json!([{"b": [120], "hard": false}]);
            o["err"] = json!(false);
        }
        Some(o)
    }
}
