//! C01 (and the grammar part of C11): find's expression language.
//! Input (spec/FindExpr.tla): {toks:[token..], files:[{dir,sat:[test..],sub}] in visit order
//!   (pre-order; files[i].sub = number of entries beneath it), form}
//! Observation: {run:[[file index, label]..], exit, diag}
//! Tokens are mapped to real primaries (several spellings, chosen by `form`); the files are
//! materialised so that test tK is true exactly of the files whose `sat` contains it.
use super::Prop;
use crate::findrun::*;
use crate::tree::fresh_case_dir;
use crate::util::*;
use serde_json::{json, Value};
use std::collections::HashMap;
use std::path::PathBuf;

pub struct PExpr {
    sb: Sandbox,
    counter: u64,
    flavour: &'static str,
}

impl PExpr {
    pub fn new(flavour: &'static str) -> Self {
        PExpr { sb: Sandbox::new("pexpr"), counter: 0, flavour }
    }
}

const TEST_LETTERS: [char; 6] = ['p', 'q', 'r', 's', 't', 'u'];

struct RefLike;
impl RefLike {
    fn balanced(toks: &[Value]) -> bool {
        let mut d = 0i32;
        for t in toks {
            match t.as_str().unwrap_or("") {
                "lp" => d += 1,
                "rp" => {
                    d -= 1;
                    if d < 0 {
                        return false;
                    }
                }
                _ => {}
            }
        }
        d == 0
    }
}

fn test_index(t: &str) -> Option<usize> {
    let k: usize = t.strip_prefix('t')?.parse().ok()?;
    if (1..=6).contains(&k) {
        Some(k - 1)
    } else {
        None
    }
}

/// Names and relative paths of the files (pre-order with subtree sizes -> tree).
pub fn layout(files: &[Value]) -> Vec<(PathBuf, bool)> {
    let mut out: Vec<(PathBuf, bool)> = vec![];
    // stack of (index, end) for open directories
    let mut stack: Vec<(usize, usize, usize)> = vec![]; // (file index, last index of its subtree, children so far)
    for (i, f) in files.iter().enumerate() {
        while let Some(&(_, end, _)) = stack.last() {
            if i > end {
                stack.pop();
            } else {
                break;
            }
        }
        let sib = if let Some(top) = stack.last_mut() {
            top.2 += 1;
            top.2 - 1
        } else {
            0
        };
        let mut name = String::new();
        name.push((b'a' + (sib % 26) as u8) as char);
        if sib >= 26 {
            name.push((b'a' + (sib / 26) as u8) as char);
        }
        name.push('x');
        for s in arr(&f["sat"]) {
            if let Some(k) = s.as_str().and_then(test_index) {
                name.push(TEST_LETTERS[k]);
            }
        }
        let path = match stack.last() {
            Some(&(p, _, _)) => out[p].0.join(&name),
            None => PathBuf::from(&name),
        };
        let dir = f["dir"].as_bool().unwrap_or(false);
        out.push((path, dir));
        let sub = f["sub"].as_u64().unwrap_or(0) as usize;
        if dir {
            stack.push((i, i + sub, 0));
        }
    }
    out
}

pub fn is_chain(files: &[Value]) -> bool {
    files.iter().enumerate().all(|(i, f)| f["sub"].as_u64().unwrap_or(0) as usize == files.len() - 1 - i)
}

/// Real arguments for the token sequence.
pub fn expr_args(toks: &[String], form: u64, destructive: bool, vrec: &str) -> Vec<String> {
    let mut a: Vec<String> = vec![];
    let opts: [&[&str]; 7] = [&["-noleaf"], &["-daystart"], &["-xdev"], &["-mindepth", "0"], &["-maxdepth", "100"], &["-regextype", "emacs"], &["-mount"]];
    for (pos, t) in toks.iter().enumerate() {
        let v = form.wrapping_add(pos as u64);
        match t.as_str() {
            "true" => a.push("-true".into()),
            // an action without output whose command line fails when it is dispatched (at the end of a starting point):
            // to the expression a constant true, to find's exit status a failure
            "xfail" => a.extend(["-exec", "false", "{}", "+"].iter().map(|x| x.to_string())),
            "false" => a.push("-false".into()),
            "prune" => a.push("-prune".into()),
            "quit" => a.push("-quit".into()),
            "opt" => {
                if pos == 0 {
                    a.push("-sorted".into());
                } else {
                    for x in opts[(v % 7) as usize] {
                        a.push((*x).into());
                    }
                }
            }
            "not" => a.push(if v % 2 == 0 { "!" } else { "-not" }.into()),
            "and" => a.push(if v % 2 == 0 { "-a" } else { "-and" }.into()),
            "or" => a.push(if v % 2 == 0 { "-o" } else { "-or" }.into()),
            "comma" => a.push(",".into()),
            "lp" => a.push("(".into()),
            "rp" => a.push(")".into()),
            other => {
                if let Some(k) = test_index(other) {
                    let c = TEST_LETTERS[k];
                    match if form % 11 == 10 { 3 } else { form % 3 } {
                        // the same test with an alternative that is never true, whose operand looks like a parenthesis
                        3 => {
                            a.extend(["(", "-name", &format!("*{}*", c), "-o", "-name", "(", ")"].iter().map(|x| x.to_string()));
                        }
                        0 => {
                            a.push("-name".into());
                            a.push(format!("*{}*", c));
                        }
                        1 => {
                            a.push("-iname".into());
                            a.push(format!("*{}*", c.to_ascii_uppercase()));
                        }
                        _ => {
                            a.push("-regex".into());
                            a.push(format!(".*{}[^/]*", c));
                        }
                    }
                } else if let Some(k) = other.strip_prefix('a').and_then(|k| k.parse::<usize>().ok()) {
                    if destructive {
                        // C11: actions whose effects would be visible in the sandbox
                        match k {
                            1 => a.push("-delete".into()),
                            2 => {
                                a.extend(["-exec".to_string(), vrec.to_string(), "{}".into(), ";".into()]);
                            }
                            3 => {
                                a.extend(["-exec".to_string(), vrec.to_string(), "{}".into(), "+".into()]);
                            }
                            _ => {
                                a.push("-printf".into());
                                a.push(format!("A{}|%p\\0", k));
                            }
                        }
                    } else if k == 2 && form % 2 == 1 {
                        a.push("-print0".into());
                    } else if k == 3 && form % 4 >= 2 {
                        a.push("-print".into());
                    } else {
                        a.push("-printf".into());
                        a.push(format!("A{}|%p\\0", k));
                    }
                } else {
                    a.push(other.to_string()); // unknown token: passed through verbatim
                }
            }
        }
    }
    a
}

pub fn decode_run(out: &[u8], toks: &[String], form: u64, index: &HashMap<Vec<u8>, usize>) -> Vec<Value> {
    let has_action = toks.iter().any(|t| t.starts_with('a') && t != "and");
    let mut run = vec![];
    let mut start = 0;
    for (i, b) in out.iter().enumerate() {
        if *b != 0 && *b != b'\n' {
            continue;
        }
        let rec = &out[start..i];
        start = i + 1;
        let (label, path): (String, &[u8]) = if *b == 0 {
            if rec.len() > 3 && rec[0] == b'A' && rec[2] == b'|' {
                (format!("a{}", (rec[1] as char)), &rec[3..])
            } else if form % 2 == 1 {
                ("a2".into(), rec)
            } else {
                ("?print0".into(), rec)
            }
        } else if !has_action {
            ("P".into(), rec)
        } else if form % 4 >= 2 {
            ("a3".into(), rec)
        } else {
            ("?print".into(), rec)
        };
        let idx = index.get(path).copied().unwrap_or(0);
        run.push(json!([idx, label]));
    }
    if start < out.len() {
        run.push(json!([0, "?tail"]));
    }
    run
}

impl Prop for PExpr {
    fn run(&mut self, input: &Value) -> Value {
        let dir = fresh_case_dir(&self.sb, &mut self.counter);
        let files = arr(&input["files"]);
        let lay = layout(&files);
        let mut index: HashMap<Vec<u8>, usize> = HashMap::new();
        for (i, (p, d)) in lay.iter().enumerate() {
            let full = dir.join(p);
            if *d {
                std::fs::create_dir(&full).expect("mkdir");
            } else {
                std::fs::write(&full, b"x").expect("file");
            }
            index.insert(p.to_string_lossy().as_bytes().to_vec(), i + 1);
        }
        let toks: Vec<String> = arr(&input["toks"]).iter().map(|t| t.as_str().unwrap_or("").to_string()).collect();
        let form = input.get("form").and_then(|f| f.as_u64()).unwrap_or(0);
        let destructive = self.flavour == "C11";
        let log = dir.parent().unwrap().join("vrec.log");
        let _ = std::fs::remove_file(&log);
        std::env::set_var("VREC_LOG", &log);
        let mut args: Vec<String> = vec![lay[0].0.to_string_lossy().into_owned()];
        if input.get("split").and_then(|x| x.as_bool()).unwrap_or(false) {
            // the entries directly beneath the top directory as starting points, in order
            args = lay.iter().filter(|(p, _)| p.components().count() == 2).map(|(p, _)| p.to_string_lossy().into_owned()).collect();
        }
        args.extend(expr_args(&toks, form, destructive, &vrec_path().to_string_lossy()));
        let errf = dir.parent().unwrap().join("stderr.txt");
        let r = run_find_inproc(&dir, &args, None, &errf);
        if r.panicked {
            return json!({"panic": true, "args": args, "exit": 101});
        }
        let run = decode_run(&r.out, &toks, form, &index);
        let mut o = json!({"run": run, "exit": r.exit, "diag": !r.stderr.is_empty()});
        if destructive {
            // what is left of the sandbox, and whether anything was executed
            let left: Vec<bool> = lay.iter().map(|(p, _)| dir.join(p).symlink_metadata().is_ok()).collect();
            o["intact"] = json!(left.iter().all(|x| *x));
            o["execs"] = json!(std::fs::read(&log).map(|c| c.iter().filter(|b| **b == b'\n').count()).unwrap_or(0));
            o["outlen"] = json!(r.out.len());
        }
        o
    }

    fn gen(&mut self, rng: &mut Rng, idx: usize, tier: &str) -> Value {
        // ---- a random tree in pre-order
        let chain = idx % 5 == 0;
        let n = 1 + rng.below(if tier == "thorough" { 14 } else { 9 });
        let ntests = 1 + rng.below(6);
        let mut files: Vec<Value> = vec![];
        let mut depth_of: Vec<usize> = vec![];
        let mut open: Vec<usize> = vec![]; // indices of open directories (rightmost path)
        for i in 0..n {
            if !chain && i > 0 {
                // close some directories
                while open.len() > 1 && rng.chance(1, 3) {
                    open.pop();
                }
            }
            if i > 0 && open.is_empty() {
                break;
            }
            let is_dir = i == 0 || (if chain { i + 1 < n } else { rng.chance(1, 2) });
            let mut sat = vec![];
            for k in 0..ntests {
                if rng.chance(1, 2) {
                    sat.push(json!(format!("t{}", k + 1)));
                }
            }
            depth_of.push(open.len());
            files.push(json!({"dir": is_dir, "sat": sat, "sub": 0}));
            if is_dir {
                open.push(i);
            } else if chain {
                break;
            }
        }
        let n = files.len();
        for i in 0..n {
            let mut sub = 0;
            for j in i + 1..n {
                if depth_of[j] > depth_of[i] {
                    sub += 1;
                } else {
                    break;
                }
            }
            files[i]["sub"] = json!(sub);
        }
        // ---- a random expression, mostly well-formed
        let nacts = rng.below(4);
        let mut toks: Vec<String> = vec![];
        let budget = 2 + rng.below(if tier == "thorough" { 16 } else { 9 });
        gen_list(rng, &mut toks, budget, 0, ntests, nacts);
        if rng.chance(1, 6) && !toks.is_empty() {
            // damage it: drop, duplicate or insert a token
            let k = rng.below(toks.len());
            match rng.below(3) {
                0 => {
                    toks.remove(k);
                }
                1 => {
                    let t = toks[k].clone();
                    toks.insert(k, t);
                }
                _ => {
                    let t = *rng.pick(&["not", "and", "or", "comma", "lp", "rp"]);
                    toks.insert(k, t.to_string());
                }
            }
        }
        if !is_chain(&files) || rng.chance(1, 2) {
            toks.insert(0, "opt".into());
        }
        let mut v = json!({"toks": toks, "files": files, "form": rng.below(1000)});
        if files[0]["sub"].as_u64().unwrap_or(0) >= 1 && rng.chance(1, 4) {
            v["split"] = json!(true);
            // with an action in the expression anyway: ", -exec false {} +" at the end - the starting point on which -quit
            // is evaluated then ends with a non-zero status, and the run is over all the same
            let has_action = arr(&v["toks"]).iter().any(|t| matches!(t.as_str().unwrap_or(""), "a1" | "a2" | "a3" | "a4" | "a5" | "a6"));
            if has_action && RefLike::balanced(&arr(&v["toks"])) && rng.chance(1, 2) {
                let mut t = arr(&v["toks"]);
                t.push(json!("comma"));
                t.push(json!("xfail"));
                v["toks"] = json!(t);
            }
        }
        v
    }

    fn same(&self, exp: &Value, obs: &Value) -> bool {
        if obs.get("panic").is_some() {
            return false;
        }
        if exp["ok"].as_bool() == Some(true) {
            if self.flavour == "C11" {
                return true; // C11 judges the rejected vectors; accepted ones only have to return normally
            }
            obs["exit"].as_i64() == Some(0) && arr(&obs["run"]) == arr(&exp["run"])
        } else {
            let quiet = arr(&obs["run"]).is_empty();
            let clean = if self.flavour == "C11" {
                obs["intact"].as_bool() == Some(true) && obs["execs"].as_u64() == Some(0) && obs["outlen"].as_u64() == Some(0)
            } else {
                true
            };
            obs["exit"].as_i64() != Some(0) && obs["diag"].as_bool() == Some(true) && quiet && clean
        }
    }

    fn corrupt(&self, obs: &Value) -> Option<Value> {
        let mut o = obs.clone();
        let mut run = arr(&o["run"]);
        if run.is_empty() {
            // (an output that was not there; where the expression was rejected also a success that was not)
            run.push(json!([1, "P"]));
            if obs["exit"].as_i64() != Some(0) && obs["diag"] == true {
                o["exit"] = json!(0);
            }
        } else {
            run.pop();
        }
        o["run"] = Value::Array(run);
        Some(o)
    }
}

fn gen_leaf(rng: &mut Rng, ntests: usize, nacts: usize) -> String {
    match rng.below(20) {
        0..=8 => format!("t{}", 1 + rng.below(ntests)),
        9..=12 if nacts > 0 => format!("a{}", 1 + rng.below(nacts)),
        13 => "true".into(),
        14 => "false".into(),
        15 => "prune".into(),
        16 if rng.chance(1, 2) => "quit".into(),
        17 => "opt".into(),
        _ => format!("t{}", 1 + rng.below(ntests)),
    }
}

pub fn gen_list(rng: &mut Rng, out: &mut Vec<String>, budget: usize, depth: usize, nt: usize, na: usize) {
    let parts = 1 + if rng.chance(1, 5) { rng.below(2) + 1 } else { 0 };
    for p in 0..parts {
        if p > 0 {
            out.push("comma".into());
        }
        let ors = 1 + if rng.chance(1, 3) { rng.below(2) + 1 } else { 0 };
        for o in 0..ors {
            if o > 0 {
                out.push("or".into());
            }
            let ands = 1 + rng.below(1 + budget.min(4));
            for a in 0..ands {
                if a > 0 && rng.chance(1, 3) {
                    out.push("and".into());
                }
                while rng.chance(1, 5) {
                    out.push("not".into());
                }
                if depth < 5 && budget > 2 && rng.chance(1, 4) {
                    out.push("lp".into());
                    gen_list(rng, out, budget / 2, depth + 1, nt, na);
                    out.push("rp".into());
                } else {
                    out.push(gen_leaf(rng, nt, na));
                }
            }
        }
    }
}
