//! C02 / C03 / C18: which entries find visits, in which order, from which starting points.
//! Input (spec/FindWalk.tla): {tree:[{parent,name,kind,target}], roots:[{spell,node}],
//!   cfg:{mode,min,max,depth,sorted,prune:[path..]}, form, files0}
//! Observation: {paths:[bytes..], exit, diag}
use super::Prop;
use crate::findrun::*;
use crate::tree::*;
use crate::util::*;
use serde_json::{json, Value};

pub struct PWalk {
    sb: Sandbox,
    counter: u64,
    flavour: &'static str,
}

impl PWalk {
    pub fn new(flavour: &'static str) -> Self {
        PWalk { sb: Sandbox::new("pwalk"), counter: 0, flavour }
    }
}

pub const NOMAX: u64 = 1000000;

pub fn walk_args(input: &Value, files0: Option<&std::path::Path>) -> Vec<String> {
    let cfg = &input["cfg"];
    let mut a: Vec<String> = vec![];
    let flag = cfg.get("modeflag").and_then(|m| m.as_str()).unwrap_or("");
    match cfg["mode"].as_str().unwrap_or("P") {
        // several of -P -H -L: the last one is in force
        _ if flag.starts_with("seq") => {
            for c in flag[3..].chars() {
                a.push(format!("-{}", c));
            }
        }
        "H" => a.push("-H".into()),
        // -follow in the expression follows every link, whatever -H / -P said before the starting points
        "L" if flag == "Hfollow" => a.push("-H".into()),
        "L" if flag == "Pfollow" => a.push("-P".into()),
        "L" if flag != "follow" => a.push("-L".into()),
        "P" if flag == "Pexplicit" => a.push("-P".into()),
        _ => {}
    }
    if let Some(f) = files0 {
        a.push("-files0-from".into());
        a.push(f.to_string_lossy().into_owned());
    } else if !input.get("implicit").and_then(|b| b.as_bool()).unwrap_or(false) {
        for r in arr(&input["roots"]) {
            a.push(json_to_string(&r["spell"]));
        }
    }
    let min = cfg["min"].as_u64().unwrap_or(0);
    let max = cfg["max"].as_u64().unwrap_or(NOMAX);
    let form = input.get("form").and_then(|f| f.as_u64()).unwrap_or(0);
    let depth_opts = |a: &mut Vec<String>| {
        if min > 0 || form % 5 == 4 {
            a.push("-mindepth".into());
            a.push(min.to_string());
        }
        if max < NOMAX {
            a.push("-maxdepth".into());
            a.push(max.to_string());
        }
    };
    if flag == "follow" || flag == "Hfollow" || flag == "Pfollow" {
        a.push("-follow".into());
    }
    if cfg.get("xdev").and_then(|x| x.as_bool()).unwrap_or(false) {
        a.push(if form % 2 == 0 { "-xdev".into() } else { "-mount".into() });
    }
    if form % 2 == 0 {
        depth_opts(&mut a);
    }
    // -depth is a global option: it may also come after the tests and actions it affects
    let depth_last = form % 7 == 3;
    if cfg["depth"].as_bool().unwrap_or(false) && !depth_last {
        a.push(if form % 3 == 0 { "-depth".into() } else { "-d".into() });
    }
    if cfg["sorted"].as_bool().unwrap_or(false) {
        a.push("-sorted".into());
    }
    if form % 2 == 1 {
        depth_opts(&mut a);
    }
    // (one case in six: an -exec whose command has arguments that look like find's own global options - they are the
    // command's business; the command is `true`, so the test is true wherever it stands)
    if form % 6 == 5 && input.get("byino").is_none() {
        a.extend(["-exec", "true", "-d", "-depth", "-mount", ";"].iter().map(|x| x.to_string()));
    }
    let prune: Vec<String> = arr(&cfg["prune"]).iter().map(json_to_string).collect();
    if prune.is_empty() {
        a.push("-print0".into());
    } else {
        let mut sel: Vec<String> = vec!["(".into()];
        for (k, p) in prune.iter().enumerate() {
            if k > 0 {
                sel.push("-o".into());
            }
            sel.push("-path".into());
            sel.push(p.clone());
        }
        sel.push(")".into());
        match form % 4 {
            0 => {
                a.extend(sel);
                a.push("-prune".into());
                a.push(",".into());
                a.push("-print0".into());
            }
            // a test written after -prune is evaluated after it: that it is false there takes nothing back
            3 => {
                a.extend(sel);
                a.push("-prune".into());
                a.push("-name".into());
                a.push("no such name".into());
                a.push(",".into());
                a.push("-print0".into());
            }
            1 => {
                a.push("-print0".into());
                a.extend(sel);
                a.push("-prune".into());
            }
            _ => {
                a.push("(".into());
                a.extend(sel);
                a.push("-prune".into());
                a.push("-o".into());
                a.push("-true".into());
                a.push(")".into());
                a.push("-print0".into());
            }
        }
    }
    if cfg["depth"].as_bool().unwrap_or(false) && depth_last {
        a.push("-depth".into());
    }
    a
}

impl Prop for PWalk {
    fn run(&mut self, input: &Value) -> Value {
        let dir = fresh_case_dir(&self.sb, &mut self.counter);
        let tree = parse_tree(&input["tree"]);
        materialize(&dir, &tree);
        let files0 = input.get("files0").and_then(|f| f.as_bool()).unwrap_or(false);
        let f0path = dir.parent().unwrap().join("roots.nul");
        if files0 {
            let mut b = vec![];
            let roots = arr(&input["roots"]);
            for (k, r) in roots.iter().enumerate() {
                b.extend(json_to_bytes(&r["spell"]));
                if k + 1 < roots.len() || input.get("final_nul").and_then(|f| f.as_bool()).unwrap_or(true) {
                    b.push(0);
                }
            }
            std::fs::write(&f0path, b).unwrap();
        }
        if mount_failed() {
            return json!({"nomount": true});
        }
        let mut args = walk_args(input, if files0 { Some(&f0path) } else { None });
        // find's working directory: the sandbox, or (starting point "." - given or implied) a directory of the tree
        let top = dir.clone();
        let dir = match input.get("cwd_node").and_then(|c| c.as_u64()) {
            Some(c) if c > 0 => top.join(node_path(&tree, c as usize)),
            _ => top.clone(),
        };
        let byino = input.get("byino").and_then(|b| b.as_bool()).unwrap_or(false);
        if byino {
            // names that are not valid UTF-8 cannot be observed through find's (lossy) printers: observe the
            // visit order through inode numbers and translate them back to the specification's byte paths
            for a in args.iter_mut() {
                if a == "-print0" {
                    *a = "-printf".into();
                }
            }
            let k = args.iter().position(|a| a == "-printf").unwrap();
            args.insert(k + 1, "%i\\0".into());
        }
        let errf = top.parent().unwrap().join("stderr.txt");
        let noread: Vec<usize> = (1..=tree.len()).filter(|i| tree[*i - 1].extra.get("noread").and_then(|b| b.as_bool()).unwrap_or(false)).collect();
        let r = if noread.is_empty() {
            run_find_inproc(&dir, &args, None, &errf)
        } else {
            // directories that cannot be read: permissions 311 (no listing, but paths through them still resolve), and the real binary run as an unprivileged user
            // (root reads everything)
            use std::os::unix::fs::PermissionsExt;
            for i in &noread {
                let _ = std::fs::set_permissions(top.join(node_path(&tree, *i)), std::fs::Permissions::from_mode(0o311));
            }
            let _ = std::fs::set_permissions(top.parent().unwrap(), std::fs::Permissions::from_mode(0o777));
            let r = run_find_bin(&dir, &args, None, &[("VH_SETUID".to_string(), "65534".to_string())], 60);
            for i in &noread {
                let _ = std::fs::set_permissions(top.join(node_path(&tree, *i)), std::fs::Permissions::from_mode(0o755));
            }
            r
        };
        if r.panicked {
            return json!({"panic": true, "args": args});
        }
        if byino {
            use std::os::unix::ffi::OsStrExt;
            use std::os::unix::fs::MetadataExt;
            let mut by: std::collections::HashMap<u64, Vec<u8>> = std::collections::HashMap::new();
            let r0 = &arr(&input["roots"])[0];
            let spell = json_to_bytes(&r0["spell"]);
            let rootname = tree[r0["node"].as_u64().unwrap_or(1) as usize - 1].name.clone();
            for i in 1..=tree.len() {
                let rel = node_path(&tree, i);
                if let Ok(m) = dir.join(&rel).symlink_metadata() {
                    // the path as find names it: the starting point as spelled, then the names below it
                    let relb = rel.as_os_str().as_bytes();
                    let mut p = spell.clone();
                    if relb.len() > rootname.len() {
                        p.extend(&relb[rootname.len()..]);
                    }
                    by.insert(m.ino(), p);
                }
            }
            let paths: Vec<Value> = split_nul(&r.out)
                .iter()
                .map(|p| {
                    let ino: u64 = String::from_utf8_lossy(p).parse().unwrap_or(0);
                    bytes_to_json(by.get(&ino).map(|v| v.as_slice()).unwrap_or(b"<unknown inode>"))
                })
                .collect();
            return json!({"paths": paths, "exit": r.exit, "diag": !r.stderr.is_empty()});
        }
        json!({"paths": split_nul(&r.out).iter().map(|p| bytes_to_json(p)).collect::<Vec<_>>(),
               "exit": r.exit, "diag": !r.stderr.is_empty()})
    }

    fn gen(&mut self, rng: &mut Rng, idx: usize, tier: &str) -> Value {
        if self.flavour == "C02" && idx % 8 == 5 {
            // one directory reached several times under one starting point: directly and through one or two links
            // (a link farm); under -L everything below it is visited once per way of reaching it
            let mut tree: Vec<Value> = vec![json!({"parent": 0, "name": str_to_json("top"), "kind": "d", "target": 0}),
                                            json!({"parent": 1, "name": str_to_json(*rng.pick(&["m", "a", "zz"])), "kind": "d", "target": 0})];
            let real = 2usize;
            for k in 0..1 + rng.below(3) {
                let kind = if rng.chance(1, 3) { "d" } else { "f" };
                tree.push(json!({"parent": real, "name": str_to_json(&format!("c{}", k)), "kind": kind, "target": 0}));
            }
            let sub = tree.len();
            if tree[sub - 1]["kind"] == "d" {
                tree.push(json!({"parent": sub, "name": str_to_json("g"), "kind": "f", "target": 0}));
            }
            // an unrelated directory that holds the links (or the links lie next to the directory itself)
            tree.push(json!({"parent": 1, "name": str_to_json(*rng.pick(&["b", "n", "zy"])), "kind": "d", "target": 0}));
            let holder = tree.len();
            for nm in ["l1", "A", "zl"].iter().take(1 + rng.below(3)) {
                let parent = if rng.chance(1, 2) { holder } else { 1 };
                tree.push(json!({"parent": parent, "name": str_to_json(nm), "kind": "l", "target": real}));
            }
            let mode = *rng.pick(&["L", "L", "follow", "P", "H", "Hfollow"]);
            let mut cfg = json!({"mode": if mode.ends_with("follow") { "L" } else { mode }, "min": *rng.pick(&[0u64, 0, 1, 2]), "max": *rng.pick(&[NOMAX, NOMAX, 3, 4]),
                                 "depth": rng.chance(1, 4), "sorted": rng.chance(2, 3), "prune": []});
            if mode.ends_with("follow") {
                cfg["modeflag"] = json!(mode);
            }
            return json!({"tree": tree, "roots": [{"spell": str_to_json("top"), "node": 1}], "cfg": cfg, "form": rng.below(30)});
        }
        let maxn = if tier == "thorough" { 40 } else { 22 };
        let n = 1 + rng.below(if idx % 7 == 0 { maxn } else { 10 });
        // (C18: also a name with a newline in it - as a starting point it can only come from a -files0-from list or be quoted)
        // (C18: also names that begin like an operator of the expression; all: names that differ from a sibling's by a
        // suffix that sorts before '/' - "a", "a b", "a.b", "a-" - where byte-wise name order and path order part ways)
        let names: Vec<&str> = if self.flavour == "C18" { vec!["a", "b", "c", "d", "e", "ab", "ba", "x.y", "A", "a b", "é", "-n", "x\ny", "(old)", "!x", ",v", ")z", "a.b", "nl\n"] }
                               else { vec!["a", "b", "c", "d", "e", "ab", "ba", "x.y", "A", "a b", "é", "-n", "a.b", "a-"] };
        let mut tree: Vec<Value> = vec![];
        let mut dirs: Vec<usize> = vec![]; // 1-based ids of directories
        let mut nonlinks: Vec<usize> = vec![];
        for i in 1..=n {
            // parent: 0 or an existing directory (prefer deep chains sometimes)
            let parent = if dirs.is_empty() || (i > 1 && rng.chance(1, 6)) || i == 1 {
                0
            } else if rng.chance(1, 2) {
                *dirs.last().unwrap()
            } else {
                *rng.pick(&dirs)
            };
            // unique sibling name
            let mut name;
            let mut tries = 0;
            loop {
                name = names[rng.below(names.len())].to_string();
                if tries > 5 {
                    name = format!("{}{}", name, i);
                }
                let clash = tree.iter().any(|t: &Value| t["parent"].as_u64() == Some(parent as u64) && json_to_string(&t["name"]) == name);
                if !clash {
                    break;
                }
                tries += 1;
            }
            let kr = rng.below(10);
            let (kind, target) = if i == 1 || kr < 4 {
                ("d", 0)
            } else if kr < 7 {
                ("f", 0)
            } else {
                let t = if rng.chance(1, 4) || nonlinks.is_empty() { 0 } else { *rng.pick(&nonlinks) };
                ("l", t)
            };
            if kind == "d" {
                dirs.push(i);
            }
            if kind != "l" {
                nonlinks.push(i);
            }
            tree.push(json!({"parent": parent, "name": str_to_json(&name), "kind": kind, "target": target}));
        }
        // starting points: top-level nodes (parent 0), with spelling variants
        let tops: Vec<usize> = (1..=n).filter(|i| tree[i - 1]["parent"].as_u64() == Some(0)).collect();
        let multi = self.flavour == "C18" || rng.chance(1, 5);
        let nroots = if multi { 1 + rng.below(if self.flavour == "C18" { 5 } else { 3 }) } else { 1 };
        let use_files0 = self.flavour == "C18" && rng.chance(1, 2);
        let mut roots = vec![];
        for _ in 0..nroots {
            if use_files0 && rng.chance(1, 12) {
                // a name that is not valid UTF-8: find cannot take it, as an operand or from the list - it says so and
                // gives up (nothing is walked), it does not leave the starting point out silently
                roots.push(json!({"spell": [255, 120], "node": 0, "bad": true}));
                continue;
            }
            if use_files0 && rng.chance(1, 5) {
                // an empty name in the -files0-from list: diagnosed and skipped
                roots.push(json!({"spell": [], "node": 0}));
                continue;
            }
            if self.flavour == "C18" && rng.chance(1, 5) {
                roots.push(json!({"spell": str_to_json("missing"), "node": 0}));
                continue;
            }
            if self.flavour == "C18" && !use_files0 && rng.chance(1, 10) {
                // an empty operand (an unset shell variable): a starting point that cannot be examined, like a missing one
                roots.push(json!({"spell": [], "node": 0}));
                continue;
            }
            let t = *rng.pick(&tops);
            let nm = json_to_string(&tree[t - 1]["name"]);
            let is_dirlike = tree[t - 1]["kind"] == "d";
            let spell = if nm.starts_with('-') && use_files0 && rng.chance(1, 2) {
                // in a -files0-from list a name may begin with '-'
                nm.clone()
            } else if nm.starts_with('-') {
                format!("./{}", nm)
            } else {
                // a real directory child of this starting point, for spellings through ".."
                let kid = (1..=n).find(|i| tree[i - 1]["parent"].as_u64() == Some(t as u64) && tree[i - 1]["kind"] == "d").map(|i| json_to_string(&tree[i - 1]["name"]));
                match rng.below(if self.flavour == "C18" { 8 } else { 12 }) {
                    0 => format!("./{}", nm),
                    1 if is_dirlike => format!("{}/", nm),
                    2 if is_dirlike => format!("{}//", nm),
                    3 => format!("../w/{}", nm),
                    4 => format!(".//{}", nm),
                    // "." and ".." are components like any other: the last one is the entry's name
                    5 if is_dirlike => format!("{}/.", nm),
                    6 if is_dirlike => match kid {
                        Some(k) => format!("{}/{}/..", nm, k),
                        None => format!("{}/./", nm),
                    },
                    _ => nm.clone(),
                }
            };
            roots.push(json!({"spell": str_to_json(&spell), "node": t}));
        }
        let mode = *rng.pick(&["P", "P", "H", "L", "L", "Pexplicit", "follow", "Hfollow", "Pfollow", "seqLP", "seqHP", "seqPL", "seqHL", "seqLH", "seqLHP", "seqPHL"]);
        let (mut min, mut max) = (0u64, NOMAX);
        if rng.chance(1, 2) {
            min = rng.below(4) as u64;
        }
        if rng.chance(1, 2) {
            max = rng.below(4) as u64;
        }
        let depth = rng.chance(1, 3);
        let sorted = nroots > 1 || rng.chance(2, 3);
        let mut cfg = json!({"mode": if mode == "Pexplicit" { "P" } else if mode.ends_with("follow") { "L" } else if mode.starts_with("seq") { &mode[mode.len() - 1..] } else { mode }, "min": min, "max": max, "depth": depth, "sorted": sorted, "prune": []});
        if self.flavour == "C03" {
            // choose prune paths among the paths of directories below the roots (as find would print them)
            let mut cands: Vec<String> = vec![];
            let mut cand_nodes: Vec<usize> = vec![];
            for r in &roots {
                let t = r["node"].as_u64().unwrap() as usize;
                if t == 0 {
                    continue;
                }
                let sp = json_to_string(&r["spell"]);
                // paths of all directory nodes in the subtree
                for i in 1..=n {
                    if tree[i - 1]["kind"] != "d" && tree[i - 1]["kind"] != "l" {
                        continue;
                    }
                    // chain from i up to t
                    let mut comps = vec![];
                    let mut k = i;
                    let mut ok = false;
                    while k != 0 {
                        if k == t {
                            ok = true;
                            break;
                        }
                        comps.push(json_to_string(&tree[k - 1]["name"]));
                        k = tree[k - 1]["parent"].as_u64().unwrap() as usize;
                    }
                    if !ok {
                        continue;
                    }
                    let mut p = sp.clone();
                    for c in comps.iter().rev() {
                        if !p.ends_with('/') {
                            p.push('/');
                        }
                        p.push_str(c);
                    }
                    if !p.contains(|c: char| "*?[\\".contains(c)) {
                        cands.push(p);
                        cand_nodes.push(i);
                    }
                }
            }
            let mut pr = vec![];
            let mut pruned_nodes: Vec<usize> = vec![];
            for (c, node) in cands.iter().zip(cand_nodes.iter()) {
                if rng.chance(1, 3) {
                    pr.push(str_to_json(c));
                    pruned_nodes.push(*node);
                }
            }
            cfg["prune"] = Value::Array(pr);
            // -prune on a directory that -xdev does not descend anyway (another file system is mounted on it) must
            // still cut that directory only: its siblings and everything after it are visited
            let real_dirs: Vec<usize> = pruned_nodes.iter().copied().filter(|i| tree[i - 1]["kind"] == "d" && !roots.iter().any(|r| r["node"].as_u64() == Some(*i as u64))).collect();
            if !real_dirs.is_empty() && rng.chance(1, 3) {
                let d = *rng.pick(&real_dirs);
                tree[d - 1]["mnt"] = json!(true);
                cfg["xdev"] = json!(true);
            }
        }
        if self.flavour == "C03" && idx % 4 == 1 {
            // sibling order is byte-wise also for names that are not valid UTF-8
            let bad: [&[u8]; 6] = [b"x\xe8", b"x\xe9", b"\xff", b"\xf0\x9f\x98\x80", b"x\xc3", b"\xfe\xff"];
            let t0 = tops[0];
            for i in 1..=n {
                if i != t0 && rng.chance(1, 2) {
                    let cand = bad[rng.below(bad.len())];
                    let parent = tree[i - 1]["parent"].clone();
                    if !tree.iter().any(|t: &Value| t["parent"] == parent && json_to_bytes(&t["name"]) == cand) {
                        tree[i - 1]["name"] = bytes_to_json(cand);
                    }
                }
            }
            let nm = json_to_string(&tree[t0 - 1]["name"]);
            let spell = if nm.starts_with('-') { format!("./{}", nm) } else { nm };
            let v = json!({"tree": tree, "roots": [{"spell": str_to_json(&spell), "node": t0}],
                           "cfg": {"mode": "P", "min": min, "max": max, "depth": depth, "sorted": true, "prune": []},
                           "form": rng.below(30), "byino": true});
            return v;
        }
        if self.flavour == "C02" && idx % 6 == 2 && !use_files0 {
            // one or two directories that cannot be read (not a link target: the model keeps that simple)
            for i in 1..=n {
                // neither the directory nor anything beneath it is the target of a link: such a link could not be resolved
                let beneath = |mut k: usize| -> bool {
                    while k != 0 {
                        if k == i {
                            return true;
                        }
                        k = tree[k - 1]["parent"].as_u64().unwrap_or(0) as usize;
                    }
                    false
                };
                let is_target = tree.iter().any(|t: &Value| t["target"].as_u64().map(|x| x > 0 && beneath(x as usize)).unwrap_or(false));
                if tree[i - 1]["kind"] == "d" && !is_target && rng.chance(1, 3) {
                    tree[i - 1]["noread"] = json!(true);
                }
            }
        }
        // one case in twenty-five on purpose: -H, -depth, and a starting point that is a symbolic link to a directory
        // (walkdir does not treat such a root as a directory: the link has to come after everything beneath it)
        let mut cfg = cfg;
        let mut mode = mode;
        if idx % 25 == 9 && !use_files0 {
            let dirs: Vec<usize> = (1..=tree.len()).filter(|i| tree[i - 1]["kind"] == "d" && tree[i - 1]["parent"].as_u64() == Some(0)).collect();
            if let Some(&d) = dirs.first() {
                if rng.chance(1, 2) {
                    tree.push(json!({"parent": 0, "name": str_to_json("hroot"), "kind": "l", "target": d}));
                    let k = tree.len();
                    roots = vec![json!({"spell": str_to_json(*rng.pick(&["hroot", "./hroot"])), "node": k})];
                } else {
                    // ... the link one directory down, its text relative to that directory (not to where find runs)
                    tree.push(json!({"parent": 0, "name": str_to_json("hd"), "kind": "d", "target": 0}));
                    let hd = tree.len();
                    tree.push(json!({"parent": hd, "name": str_to_json("hroot"), "kind": "l", "target": d, "reltext": true}));
                    let k = tree.len();
                    roots = vec![json!({"spell": str_to_json("hd/hroot"), "node": k})];
                }
                cfg["mode"] = json!("H");
                cfg["depth"] = json!(true);
                mode = "H";
                if rng.chance(1, 3) {
                    cfg["min"] = json!(0);
                    cfg["max"] = json!(rng.below(2));
                }
            }
        }
        let roots_last_empty = roots.last().map(|r| arr(&r["spell"]).is_empty()).unwrap_or(false);
        let mut v = json!({"tree": tree, "roots": roots, "cfg": cfg, "form": rng.below(30)});
        if mode == "Pexplicit" || mode.ends_with("follow") || mode.starts_with("seq") {
            v["cfg"]["modeflag"] = json!(mode);
        }
        if self.flavour == "C18" && !use_files0 && rng.chance(1, 8) {
            // "no starting point means '.'": find runs inside a directory of the tree, with "." given or with nothing
            let dirs: Vec<usize> = (1..=n).filter(|i| v["tree"][i - 1]["kind"] == "d").collect();
            if !dirs.is_empty() {
                let t = *rng.pick(&dirs);
                v["roots"] = json!([{"spell": str_to_json("."), "node": t}]);
                v["cwd_node"] = json!(t);
                v["implicit"] = json!(rng.chance(2, 3));
            }
        }
        if self.flavour == "C18" && rng.chance(1, 4) {
            v["cfg"]["xdev"] = json!(true);
        }
        if use_files0 {
            v["files0"] = json!(true);
            // a list that ends in an empty name needs its final NUL (otherwise the empty name is not there)
            let last_empty = roots_last_empty;
            v["final_nul"] = json!(last_empty || rng.chance(1, 2));
        }
        v
    }

    fn same(&self, exp: &Value, obs: &Value) -> bool {
        if obs.get("panic").is_some() {
            return false;
        }
        let ep: Vec<Vec<u8>> = arr(&exp["paths"]).iter().map(json_to_bytes).collect();
        let op: Vec<Vec<u8>> = arr(&obs["paths"]).iter().map(json_to_bytes).collect();
        let err = exp["errs"].as_u64().unwrap_or(0) > 0;
        let exit_ok = (obs["exit"].as_i64() == Some(0)) == !err;
        if exp["sorted"].as_bool().unwrap_or(true) {
            ep == op && exit_ok
        } else {
            let mut a = ep.clone();
            let mut b = op.clone();
            a.sort();
            b.sort();
            a == b && exit_ok
        }
    }

    fn corrupt(&self, obs: &Value) -> Option<Value> {
        let mut o = obs.clone();
        let mut p = arr(&o["paths"]);
        if p.len() >= 2 {
            let last = p.len() - 1;
            p.swap(0, last);
            p.pop();
        } else if p.len() == 1 {
            p.clear();
        } else {
            p.push(str_to_json("ghost"));
        }
        o["paths"] = Value::Array(p);
        Some(o)
    }
}
