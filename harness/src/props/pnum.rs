//! C14: numeric operands N / +N / -N and -size rounding.
//! Input (spec/Numeric.tla): {prim:"size"|"links"|"uid"|"gid"|"inum"|"mtime"|"atime"|"mmin"|"amin", unit, n:{v}|{huge:digits},
//!   files:[{bytes}|{k,d}|{v}]}; observation {eq:[idx..], gt:[..], lt:[..]}
use super::Prop;
use crate::findrun::*;
use crate::util::*;
use serde_json::{json, Value};
use std::collections::HashMap;
use std::os::unix::ffi::OsStrExt;
use std::path::PathBuf;

pub struct PNum {
    sb: Sandbox,
    counter: u64,
    cache: HashMap<String, PathBuf>,
}

impl Default for PNum {
    fn default() -> Self {
        PNum { sb: Sandbox::new("pnum"), counter: 0, cache: HashMap::new() }
    }
}

/// The clock injected for the time tests (seconds since the epoch; later than any status-change time of a fixture).
const TIME_NOW: i64 = 2_000_000_000;

fn is_time(prim: &str) -> bool {
    matches!(prim, "mtime" | "atime" | "mmin" | "amin")
}

pub fn unit_bytes(u: &str) -> u64 {
    match u {
        "c" => 1,
        "w" => 2,
        "k" => 1 << 10,
        "M" => 1 << 20,
        "G" => 1 << 30,
        _ => 512,
    }
}

fn chown(p: &std::path::Path, uid: u32, gid: u32) {
    let c = std::ffi::CString::new(p.as_os_str().as_bytes()).unwrap();
    unsafe {
        libc::chown(c.as_ptr(), uid, gid);
    }
}

impl PNum {
    fn fixture(&mut self, prim: &str, unit: &str, files: &[Value]) -> PathBuf {
        let key = format!("{}|{}|{}", prim, unit, serde_json::to_string(files).unwrap());
        if let Some(d) = self.cache.get(&key) {
            return d.clone();
        }
        if self.cache.len() > 100 {
            self.cache.clear();
        }
        self.counter += 1;
        let dir = self.sb.path().join(format!("n{}", self.counter)).join("w");
        std::fs::create_dir_all(dir.join("R")).unwrap();
        std::fs::create_dir_all(dir.join("X")).unwrap();
        for (i, f) in files.iter().enumerate() {
            let p = dir.join("R").join(format!("f{:04}", i + 1));
            let fh = std::fs::File::create(&p).unwrap();
            match prim {
                "size" => {
                    let bytes = if let Some(b) = f.get("bytes").and_then(|b| b.as_u64()) {
                        b
                    } else {
                        (f["k"].as_u64().unwrap_or(0) * unit_bytes(unit)).wrapping_add(f["d"].as_i64().unwrap_or(0) as u64)
                    };
                    fh.set_len(bytes).unwrap();
                }
                "links" => {
                    for l in 1..f["v"].as_u64().unwrap_or(1) {
                        std::fs::hard_link(&p, dir.join("X").join(format!("l{}_{}", i, l))).unwrap();
                    }
                }
                "uid" => chown(&p, f["v"].as_u64().unwrap_or(0) as u32, 0),
                "gid" => chown(&p, 0, f["v"].as_u64().unwrap_or(0) as u32),
                "mtime" | "atime" | "mmin" | "amin" => {
                    // measured value v = whole periods between the timestamp and the injected clock; below zero: a
                    // timestamp in the future.  The timestamp is put in the middle of its period.
                    let period: i64 = if prim.ends_with("time") { 86400 } else { 60 };
                    let v = f["v"].as_i64().unwrap_or(0);
                    let t = TIME_NOW - v * period - period / 2;
                    let far = TIME_NOW - 500 * 86400;
                    let (a, m) = if prim.starts_with('a') { (t, far) } else { (far, t) };
                    let c = std::ffi::CString::new(p.as_os_str().as_bytes()).unwrap();
                    let ts = [libc::timespec { tv_sec: a, tv_nsec: 0 }, libc::timespec { tv_sec: m, tv_nsec: 0 }];
                    unsafe { libc::utimensat(libc::AT_FDCWD, c.as_ptr(), ts.as_ptr(), 0) };
                }
                _ => {}
            }
        }
        self.cache.insert(key, dir.clone());
        dir
    }
}

impl Prop for PNum {
    fn run(&mut self, input: &Value) -> Value {
        let prim = input["prim"].as_str().unwrap_or("size").to_string();
        let unit = input["unit"].as_str().unwrap_or("").to_string();
        let files = arr(&input["files"]);
        let dir = self.fixture(&prim, &unit, &files);
        let n = if let Some(h) = input["n"].get("huge").and_then(|h| h.as_str()) { h.to_string() } else { input["n"]["v"].as_u64().unwrap_or(0).to_string() };
        let errf = dir.parent().unwrap().join("stderr.txt");
        let mut o = json!({});
        for (form, sign) in [("eq", ""), ("gt", "+"), ("lt", "-")] {
            let operand = format!("{}{}{}", sign, n, if prim == "size" { unit.as_str() } else { "" });
            let args: Vec<String> = vec!["R".into(), "-mindepth".into(), "1".into(), format!("-{}", prim), operand, "-print0".into()];
            let now = if is_time(&prim) { Some(std::time::UNIX_EPOCH + std::time::Duration::new(TIME_NOW as u64, 0)) } else { None };
            let r = run_find_inproc(&dir, &args, now, &errf);
            if r.panicked {
                return json!({"panic": true, "args": args});
            }
            if r.exit != 0 {
                o["exit"] = json!(r.exit);
            }
            let mut idx: Vec<u64> = split_nul(&r.out)
                .iter()
                .map(|p| String::from_utf8_lossy(p).strip_prefix("R/f").and_then(|x| x.parse::<u64>().ok()).unwrap_or(0))
                .collect();
            idx.sort();
            // the same test with the starting point given twice: every selected file is selected both times (what one
            // entry was measured as says nothing about the next one, even if it is the same file)
            if !is_time(&prim) {
                let mut a2 = args.clone();
                a2.insert(0, "R".into());
                let r2 = run_find_inproc(&dir, &a2, None, &errf);
                if r2.panicked {
                    return json!({"panic": true, "args": a2});
                }
                let mut idx2: Vec<u64> = split_nul(&r2.out)
                    .iter()
                    .map(|p| String::from_utf8_lossy(p).strip_prefix("R/f").and_then(|x| x.parse::<u64>().ok()).unwrap_or(0))
                    .collect();
                idx2.sort();
                let doubled: Vec<u64> = idx.iter().flat_map(|k| [*k, *k]).collect();
                if idx2 != doubled {
                    o["twice_differs"] = json!(form);
                }
            }
            o[form] = json!(idx);
        }
        o
    }

    fn gen(&mut self, rng: &mut Rng, _idx: usize, _tier: &str) -> Value {
        let prim = *rng.pick(&["size", "size", "size", "links", "uid", "gid", "inum", "mtime", "mmin", "atime", "amin"]);
        let nf = 3 + rng.below(8);
        let mut files = vec![];
        let mut unit = "";
        let n;
        if prim == "size" {
            unit = *rng.pick(&["c", "w", "b", "k", "M", "G", ""]);
            let ub = unit_bytes(unit);
            let nn = rng.below(6) as u64;
            for _ in 0..nf {
                if rng.chance(1, 2) {
                    // around a multiple of the unit, symbolically
                    let kmax = if unit == "G" { 5 } else { 2000 };
                    let mut k = if rng.chance(1, 2) { nn + rng.below(3) as u64 } else { rng.below(kmax) as u64 };
                    k = k.saturating_sub(if rng.chance(1, 4) { 1 } else { 0 });
                    let d = rng.range(-1, 1);
                    let d = if k == 0 && d < 0 { 0 } else if ub == 1 { 0 } else { d };
                    files.push(json!({"k": k, "d": d}));
                } else {
                    let b = match rng.below(4) {
                        0 => rng.below(3000) as u64,
                        1 => (nn * ub).saturating_add(rng.below(3) as u64).saturating_sub(1).min(2147483000),
                        2 => rng.below(2147483000) as u64,
                        _ => (rng.below(5) as u64) * ub.min(1 << 20) + rng.below(2) as u64,
                    };
                    files.push(json!({"bytes": b.min(2147483000)}));
                }
            }
            n = if rng.chance(1, 12) { json!({"huge": *rng.pick(&["9223372036854775807", "9223372036854775808", "18446744073709551615"])}) } else { json!({"v": nn}) };
        } else if prim == "inum" {
            // the inode numbers are whatever the file system hands out: the files are created here and measured
            self.counter += 1;
            let dir = self.sb.path().join(format!("i{}", self.counter)).join("w");
            std::fs::create_dir_all(dir.join("R")).unwrap();
            let mut inos = vec![];
            for i in 0..nf {
                let p = dir.join("R").join(format!("f{:04}", i + 1));
                std::fs::write(&p, b"").unwrap();
                use std::os::unix::fs::MetadataExt;
                let ino = std::fs::symlink_metadata(&p).unwrap().ino();
                inos.push(ino);
                files.push(json!({"v": ino}));
            }
            let pickn = (*rng.pick(&inos) as i64 + rng.range(-1, 1)).max(0) as u64;
            n = json!({"v": pickn});
            let key = format!("{}|{}|{}", prim, unit, serde_json::to_string(&files).unwrap());
            self.cache.insert(key, dir);
        } else if is_time(prim) {
            // ages in whole periods, also below zero (timestamps in the future)
            for _ in 0..nf {
                files.push(json!({"v": rng.range(-2, 6)}));
            }
            // now and then a timestamp from before 1970 (the injected clock stands at 2 000 000 000 s): an age like any other
            if rng.chance(1, 4) {
                let before_epoch: i64 = if prim.ends_with("time") { 23150 + rng.below(4000) as i64 } else { 33_340_000 + rng.below(1_000_000) as i64 };
                files.push(json!({"v": before_epoch}));
            }
            let fv = files[rng.below(files.len())]["v"].as_i64().unwrap();
            // (now and then an operand near 2^63 / 2^64: an age of -1 is not 18446744073709551615)
            n = if rng.chance(1, 8) { json!({"huge": *rng.pick(&["9223372036854775807", "9223372036854775808", "18446744073709551615", "18446744073709551614"])}) }
                else { json!({"v": (fv + rng.range(-1, 1)).max(0)}) };
        } else {
            for _ in 0..nf {
                files.push(json!({"v": if prim == "links" { 1 + rng.below(5) } else if rng.chance(1, 3) { rng.below(3) } else { rng.below(70000) }}));
            }
            let fv = files[rng.below(files.len())]["v"].as_u64().unwrap();
            n = if rng.chance(1, 12) { json!({"huge": "18446744073709551615"}) } else { json!({"v": (fv as i64 + rng.range(-1, 1)).max(0)}) };
        }
        json!({"prim": prim, "unit": unit, "n": n, "files": files})
    }

    fn same(&self, exp: &Value, obs: &Value) -> bool {
        obs.get("panic").is_none() && obs.get("exit").is_none() && obs.get("twice_differs").is_none() && ["eq", "gt", "lt"].iter().all(|f| arr(&exp[*f]) == arr(&obs[*f]))
    }

    fn corrupt(&self, obs: &Value) -> Option<Value> {
        let mut o = obs.clone();
        let mut l = arr(&o["gt"]);
        if l.is_empty() {
            l.push(json!(1));
        } else {
            l.pop();
        }
        o["gt"] = Value::Array(l);
        Some(o)
    }
}
