//! C20: xargs -I. Input {opts:[{o:"I",r:bytes,form}|{o:"n",k}|{o:"L",k}], init:[bytes], lines:[bytes], final_nl}
//! Observation: {argvs:[[bytes..]], exit}
use super::Prop;
use crate::util::*;
use crate::xrun::*;
use serde_json::{json, Value};

pub struct P20 {
    sb: Sandbox,
}

impl Default for P20 {
    fn default() -> Self {
        P20 { sb: Sandbox::new("p20") }
    }
}

impl Prop for P20 {
    fn run(&mut self, input: &Value) -> Value {
        let mut opts: Vec<String> = vec![];
        for o in arr(&input["opts"]) {
            match o["o"].as_str().unwrap_or("") {
                "I" => {
                    let r = json_to_string(&o["r"]);
                    match o.get("form").and_then(|f| f.as_str()).unwrap_or("I") {
                        "replace=" => opts.push(format!("--replace={}", r)),
                        "replace" if r == "{}" => opts.push("--replace".into()),
                        "i" if r == "{}" => opts.push("-i".into()),
                        _ => {
                            opts.push("-I".into());
                            opts.push(r);
                        }
                    }
                }
                "n" => {
                    opts.push("-n".into());
                    opts.push(o["k"].as_u64().unwrap().to_string());
                }
                "L" => {
                    opts.push("-L".into());
                    opts.push(o["k"].as_u64().unwrap().to_string());
                }
                _ => {}
            }
        }
        let init: Vec<Vec<u8>> = arr(&input["init"]).iter().map(json_to_bytes).collect();
        let lines: Vec<Vec<u8>> = arr(&input["lines"]).iter().map(json_to_bytes).collect();
        let final_nl = input.get("final_nl").and_then(|v| v.as_bool()).unwrap_or(true);
        let mut stdin = vec![];
        for (k, l) in lines.iter().enumerate() {
            stdin.extend(l);
            if k + 1 < lines.len() || final_nl {
                stdin.push(b'\n');
            }
        }
        let mut o = XOpts::new(&stdin);
        o.opts = opts;
        o.init = init;
        let r = run_xargs(&self.sb, &o);
        if looks_like_panic(&r) {
            return json!({"panic": true, "exit": r.exit});
        }
        json!({"argvs": r.execs.iter().map(|e| Value::Array(e.iter().map(|a| bytes_to_json(a)).collect())).collect::<Vec<_>>(),
               "exit": r.exit})
    }

    fn gen(&mut self, rng: &mut Rng, _idx: usize, _tier: &str) -> Value {
        let rs: [&str; 6] = ["{}", "R", "%", "@@", "{}", "XX"];
        let mut opts = vec![];
        let nopts = match rng.below(10) {
            0 => 0,
            1..=5 => 1,
            6..=8 => 2,
            _ => 3,
        };
        let mut the_r = "{}".to_string();
        for _ in 0..nopts {
            match rng.below(if nopts == 1 { 2 } else { 4 }) {
                0 | 1 => {
                    let r = *rng.pick(&rs);
                    the_r = r.to_string();
                    let form = if r == "{}" { *rng.pick(&["I", "i", "replace", "replace="]) } else { *rng.pick(&["I", "replace="]) };
                    opts.push(json!({"o": "I", "r": str_to_json(r), "form": form}));
                }
                2 => opts.push(json!({"o": "n", "k": 1 + rng.below(3)})),
                _ => opts.push(json!({"o": "L", "k": 1 + rng.below(3)})),
            }
        }
        // now and then all three of -I, -L and -n 1 (the one given last decides; -n 1 is "no conflict" only next to -I alone)
        if rng.chance(1, 8) {
            let r = *rng.pick(&rs);
            the_r = r.to_string();
            let i_opt = json!({"o": "I", "r": str_to_json(r), "form": if r == "{}" { *rng.pick(&["I", "i", "replace="]) } else { "I" }});
            let l_opt = json!({"o": "L", "k": 2});
            let n_opt = json!({"o": "n", "k": *rng.pick(&[1usize, 1, 2])});
            opts = match rng.below(6) {
                0 => vec![i_opt, l_opt, n_opt],
                1 => vec![i_opt, n_opt, l_opt],
                2 => vec![l_opt, i_opt, n_opt],
                3 => vec![l_opt, n_opt, i_opt],
                4 => vec![n_opt, i_opt, l_opt],
                _ => vec![n_opt, l_opt, i_opt],
            };
        }
        // also a proper prefix of R right in front of R ("{{}", "aab" for R = "ab")
        let partial: String = the_r.chars().take(the_r.chars().count().saturating_sub(1).max(1)).collect();
        let pieces: Vec<String> = vec![the_r.clone(), "x".into(), "-".into(), "é".into(), "/".into(), "=".into(), the_r.clone(), "ab".into(), " ".into(), partial];
        // now and then many initial arguments, every one of them with R in it
        let ninit = if rng.chance(1, 6) { 6 + rng.below(4) } else { rng.below(4) };
        let many = ninit >= 6;
        let init: Vec<Value> = (0..ninit)
            .map(|_| {
                let mut s = String::new();
                for _ in 0..rng.below(4) {
                    let p: &String = rng.pick(&pieces[..]); s.push_str(p);
                }
                if s.is_empty() {
                    s.push('z');
                }
                if many && !s.contains(the_r.as_str()) {
                    s.push_str(&the_r);
                }
                str_to_json(&s)
            })
            .collect();
        // lines are bytes: also bytes that are not valid UTF-8 (a Latin-1 name, a lone continuation byte)
        let mut lp: Vec<Vec<u8>> = ["a", "b c", "é", "*", "x y  z", "$(w)", "-n", "", "0", "q", "t ", "u\t", "_", "_"].iter().map(|s| s.as_bytes().to_vec()).collect();
        lp.push(the_r.as_bytes().to_vec());
        lp.push(vec![b'c', b'a', b'f', 0xe9]);
        lp.push(vec![0xff, 0xfe]);
        lp.push(vec![0xa0]);
        let nlines = rng.below(6);
        let lines: Vec<Value> = (0..nlines)
            .map(|_| {
                let mut s: Vec<u8> = vec![];
                for _ in 0..rng.below(3) {
                    let p: &Vec<u8> = rng.pick(&lp[..]);
                    s.extend(p);
                }
                bytes_to_json(&s)
            })
            .collect();
        let mut lines = lines;
        // now and then thousands of empty lines in a row (more than any read buffer holds): still no line at all
        if _idx % 23 == 5 {
            let gap = 8180 + rng.below(40);
            let mut l2: Vec<Value> = vec![str_to_json("first")];
            l2.extend(std::iter::repeat(json!([])).take(gap));
            l2.push(str_to_json("x y"));
            l2.extend(std::iter::repeat(json!([])).take(3 + rng.below(20)));
            l2.extend(lines.iter().cloned());
            lines = l2;
        }
        // now and then the first line is the replace string itself (substituting it changes nothing - for that line)
        if lines.len() >= 2 && rng.chance(1, 5) {
            lines[0] = str_to_json(&the_r);
        }
        json!({"opts": opts, "init": init, "lines": lines, "final_nl": rng.chance(3, 4)})
    }

    fn same(&self, exp: &Value, obs: &Value) -> bool {
        if obs.get("panic").is_some() {
            return false;
        }
        let ea: Vec<Vec<Vec<u8>>> = arr(&exp["argvs"]).iter().map(|v| arr(v).iter().map(json_to_bytes).collect()).collect();
        let oa: Vec<Vec<Vec<u8>>> = arr(&obs["argvs"]).iter().map(|v| arr(v).iter().map(json_to_bytes).collect()).collect();
        ea == oa && exp["exit"] == obs["exit"]
    }

    fn corrupt(&self, obs: &Value) -> Option<Value> {
        let mut o = obs.clone();
        let mut a = arr(&o["argvs"]);
        if a.is_empty() {
            a.push(json!([[120]]));
        } else {
            a.pop();
        }
        o["argvs"] = Value::Array(a);
        Some(o)
    }
}
