//! C15: time tests.  Inputs (spec/Time.tla):
//!  vectors  {mode:"age", kind:"a"|"m"|"c", unit:"day"|"min", age:[s,ns], n}           -> {eq,gt,lt: bool}
//!           {mode:"newer", x, y, delta:[s,ns]}  (entry.X - reference.Y)               -> {sel: bool}
//!  recorded {now:[s,ns], ent:{a,m,c}, rf:{a,m,c}, tests:[{t:"age",kind,unit,form,n}|{t:"newer",x,y,alias}]} -> {res:[bool..]}
//! a/m are set with utimensat; ctime cannot be set, so `now` (ages) or the other file's timestamp
//! (-newerXY) is chosen relative to the ctime read back with lstat.  find runs in-process with now() injected.
use super::Prop;
use crate::findrun::*;
use crate::tree::fresh_case_dir;
use crate::util::*;
use serde_json::{json, Value};
use std::os::unix::ffi::OsStrExt;
use std::os::unix::fs::MetadataExt;
use std::path::Path;
use std::time::{Duration, SystemTime, UNIX_EPOCH};

pub struct PTime {
    sb: Sandbox,
    counter: u64,
}

impl Default for PTime {
    fn default() -> Self {
        PTime { sb: Sandbox::new("ptime"), counter: 0 }
    }
}

type Ts = (i64, i64);

fn norm(t: Ts) -> Ts {
    let mut s = t.0;
    let mut n = t.1;
    while n < 0 {
        n += 1_000_000_000;
        s -= 1;
    }
    while n >= 1_000_000_000 {
        n -= 1_000_000_000;
        s += 1;
    }
    (s, n)
}
fn add(t: Ts, d: Ts) -> Ts {
    norm((t.0 + d.0, t.1 + d.1))
}
fn sub(t: Ts, d: Ts) -> Ts {
    norm((t.0 - d.0, t.1 - d.1))
}

fn set_times(p: &Path, a: Ts, m: Ts) {
    let c = std::ffi::CString::new(p.as_os_str().as_bytes()).unwrap();
    let ts = [libc::timespec { tv_sec: a.0, tv_nsec: a.1 }, libc::timespec { tv_sec: m.0, tv_nsec: m.1 }];
    let r = unsafe { libc::utimensat(libc::AT_FDCWD, c.as_ptr(), ts.as_ptr(), 0) };
    assert_eq!(r, 0, "utimensat");
}

fn stamps(p: &Path) -> (Ts, Ts, Ts) {
    let m = std::fs::symlink_metadata(p).expect("lstat");
    ((m.atime(), m.atime_nsec()), (m.mtime(), m.mtime_nsec()), (m.ctime(), m.ctime_nsec()))
}

fn real_now() -> Ts {
    let d = SystemTime::now().duration_since(UNIX_EPOCH).unwrap();
    (d.as_secs() as i64, d.subsec_nanos() as i64)
}

fn to_system_time(t: Ts) -> SystemTime {
    if t.0 < 0 {
        // before 1970: seconds below zero, nanoseconds counted forward from there
        UNIX_EPOCH - Duration::new((-t.0) as u64, 0) + Duration::new(0, t.1 as u32)
    } else {
        UNIX_EPOCH + Duration::new(t.0 as u64, t.1 as u32)
    }
}

fn ts_json(t: Ts) -> Value {
    json!([t.0, t.1])
}
fn json_ts(v: &Value) -> Ts {
    (v[0].as_i64().unwrap_or(0), v[1].as_i64().unwrap_or(0))
}

fn age_prim(kind: &str, unit: &str) -> String {
    format!("-{}{}", kind, if unit == "day" { "time" } else { "min" })
}

fn selected(dir: &Path, now: Ts, test: &[String]) -> Result<bool, Value> {
    selected_mode(dir, now, "", test)
}

fn selected_mode(dir: &Path, now: Ts, mode: &str, test: &[String]) -> Result<bool, Value> {
    let mut args: Vec<String> = vec![];
    if !mode.is_empty() {
        args.push(format!("-{}", mode));
    }
    args.push("R/e".into());
    args.extend(test.iter().cloned());
    args.push("-print0".into());
    let errf = dir.parent().unwrap().join("stderr.txt");
    let r = run_find_inproc(dir, &args, Some(to_system_time(now)), &errf);
    if r.panicked {
        return Err(json!({"panic": true, "args": args}));
    }
    if r.exit != 0 {
        return Err(json!({"exit": r.exit, "args": args, "stderr": String::from_utf8_lossy(&r.stderr[..r.stderr.len().min(200)])}));
    }
    Ok(!r.out.is_empty())
}

impl Prop for PTime {
    fn run(&mut self, input: &Value) -> Value {
        let dir = fresh_case_dir(&self.sb, &mut self.counter);
        std::fs::create_dir(dir.join("R")).unwrap();
        let e = dir.join("R").join("e");
        let f = dir.join("F");
        std::fs::write(&e, b"e").unwrap();
        std::fs::write(&f, b"f").unwrap();
        let far: Ts = (400 * 86400, 7);
        match input.get("mode").and_then(|m| m.as_str()) {
            Some("age") => {
                let kind = input["kind"].as_str().unwrap_or("m");
                let unit = input["unit"].as_str().unwrap_or("day");
                let age = json_ts(&input["age"]);
                let n = input["n"].as_u64().unwrap_or(0);
                let now: Ts;
                if kind == "c" {
                    let rn = real_now();
                    set_times(&e, sub(rn, far), sub(rn, (far.0 * 2, 11)));
                    let (_, _, c) = stamps(&e);
                    now = add(c, age);
                } else {
                    let rn = real_now();
                    now = (rn.0 + 1000, (age.1 + 123) % 1_000_000_000);
                    let t = sub(now, age);
                    let other = sub(t, far);
                    if kind == "a" {
                        set_times(&e, t, other);
                    } else {
                        set_times(&e, other, t);
                    }
                }
                let mut o = json!({});
                for (form, sign) in [("eq", ""), ("gt", "+"), ("lt", "-")] {
                    match selected(&dir, now, &[age_prim(kind, unit), format!("{}{}", sign, n)]) {
                        Ok(b) => o[form] = json!(b),
                        Err(v) => return v,
                    }
                }
                let (a, m, c) = stamps(&e);
                o["raw"] = json!({"now": ts_json(now), "a": ts_json(a), "m": ts_json(m), "c": ts_json(c)});
                o
            }
            Some("newer") => {
                let x = input["x"].as_str().unwrap_or("m");
                let y = input["y"].as_str().unwrap_or("m");
                let delta = json_ts(&input["delta"]);
                let positive = delta.0 > 0 || (delta.0 == 0 && delta.1 > 0);
                // distractors: the timestamps that must NOT be consulted would give the opposite answer
                let dis: Ts = (7777, 0);
                let base = sub(real_now(), (50000, 0));
                let base = (base.0, 500_000);
                let set_kind = |p: &Path, kind: &str, t: Ts, other: Ts| {
                    if kind == "a" {
                        set_times(p, t, other)
                    } else {
                        set_times(p, other, t)
                    }
                };
                if y != "c" {
                    let ry = if x == "c" {
                        // entry first: its ctime is what it is; the reference is placed relative to it
                        set_times(&e, if positive { sub(base, dis) } else { add(real_now(), dis) }, if positive { sub(base, dis) } else { add(real_now(), dis) });
                        let (_, _, c) = stamps(&e);
                        sub(c, delta)
                    } else {
                        base
                    };
                    set_kind(&f, y, ry, if positive { add(ry, (99999, 0)) } else { sub(ry, (99999, 0)) });
                    if x != "c" {
                        let ex = add(ry, delta);
                        set_kind(&e, x, ex, if positive { sub(ry, dis) } else { add(ry, dis) });
                    }
                } else {
                    // reference's ctime: set its a/m to distractors, read the ctime, place the entry
                    let rn = real_now();
                    set_times(&f, if positive { add(rn, (99999, 0)) } else { sub(rn, (99999, 0)) }, if positive { add(rn, (99999, 0)) } else { sub(rn, (99999, 0)) });
                    let (_, _, c) = stamps(&f);
                    let ex = add(c, delta);
                    set_kind(&e, x, ex, if positive { sub(c, dis) } else { add(c, dis) });
                }
                let prim = match (x, y, input.get("form").and_then(|v| v.as_u64()).unwrap_or(0) % 2) {
                    ("m", "m", 1) => "-newer".to_string(),
                    ("a", "m", 1) => "-anewer".to_string(),
                    ("c", "m", 1) => "-cnewer".to_string(),
                    _ => format!("-newer{}{}", x, y),
                };
                let mut o = json!({});
                for p in [prim.clone(), format!("-newer{}{}", x, y)] {
                    match selected(&dir, add(real_now(), (100000, 0)), &[p.clone(), "F".into()]) {
                        Ok(b) => {
                            if o.get("sel").map(|s| s.as_bool() != Some(b)).unwrap_or(false) {
                                o["alias_differs"] = json!(p);
                            }
                            o["sel"] = json!(b)
                        }
                        Err(v) => return v,
                    }
                }
                let (a, m, c) = stamps(&e);
                let (ra, rm, rc) = stamps(&f);
                o["raw"] = json!({"ent": {"a": ts_json(a), "m": ts_json(m), "c": ts_json(c)}, "rf": {"a": ts_json(ra), "m": ts_json(rm), "c": ts_json(rc)}});
                o
            }
            Some("clock") => {
                // 'now' is fixed when find starts: the real binary with its real clock; a slow -exec runs before the
                // time test, and the entry's age crosses a minute boundary while it runs
                let margin_ms = input["margin_ms"].as_i64().unwrap_or(700);
                let sleep_ms = input["sleep_ms"].as_u64().unwrap_or(1500);
                let n = input["n"].as_u64().unwrap_or(0) as i64;
                let t0 = real_now();
                let m = add(sub(t0, ((n + 1) * 60, 0)), (0, margin_ms * 1_000_000));
                set_times(&e, m, m);
                let log = dir.parent().unwrap().join("vrec.log");
                let _ = std::fs::remove_file(&log);
                let env = vec![("VREC_LOG".to_string(), log.to_string_lossy().into_owned()), ("VREC_SLEEP_MS".to_string(), sleep_ms.to_string())];
                let t0 = real_now();
                let args: Vec<String> = vec!["R/e".into(), "-exec".into(), vrec_path().to_string_lossy().into_owned(), ";".into(),
                                             "-mmin".into(), n.to_string(), "-print0".into()];
                let r = run_find_bin(&dir, &args, None, &env, 30);
                let t2 = real_now();
                let t1 = std::fs::read_to_string(&log).ok().and_then(|l| serde_json::from_str::<Value>(l.lines().next().unwrap_or("")).ok()).map(|v| json_ts(&v["t"]));
                let (a, mm, c) = stamps(&e);
                let Some(t1) = t1 else { return json!({"exit": r.exit, "norecorder": true}) };
                if r.panicked {
                    return json!({"panic": true});
                }
                json!({"clock": true, "sel": !r.out.is_empty(), "t0": ts_json(t0), "t1": ts_json(t1), "t2": ts_json(t2),
                       "ent": {"a": ts_json(a), "m": ts_json(mm), "c": ts_json(c)}})
            }
            _ => {
                // recorded run: the input carries the plan (offsets); the observation carries the raw timestamps
                let plan = &input["plan"];
                let rn = real_now();
                let off = |k: &str| -> Ts { json_ts(&plan[k]) };
                set_times(&f, sub(rn, off("ra")), sub(rn, off("rm")));
                std::thread::sleep(Duration::from_micros(plan["gap_us"].as_u64().unwrap_or(0)));
                set_times(&e, sub(rn, off("ea")), sub(rn, off("em")));
                // the reference may be named through a symbolic link with timestamps of its own: it is resolved iff
                // -H or -L is in effect and it is not dangling
                let reflink = plan.get("reflink").and_then(|r| r.as_str()).unwrap_or("");
                let fl = dir.join("FL");
                if !reflink.is_empty() {
                    std::os::unix::fs::symlink(if reflink == "Ld" { "nowhere" } else { "F" }, &fl).unwrap();
                    let c = std::ffi::CString::new(fl.as_os_str().as_bytes()).unwrap();
                    let (la, lm) = (sub(rn, off("la")), sub(rn, off("lm")));
                    let ts = [libc::timespec { tv_sec: la.0, tv_nsec: la.1 }, libc::timespec { tv_sec: lm.0, tv_nsec: lm.1 }];
                    unsafe { libc::utimensat(libc::AT_FDCWD, c.as_ptr(), ts.as_ptr(), libc::AT_SYMLINK_NOFOLLOW) };
                }
                // the reference may be the entry itself: its X timestamp against its own Y timestamp
                let selfref = reflink.is_empty() && plan.get("selfref").and_then(|b| b.as_bool()).unwrap_or(false);
                let (a, m, c) = stamps(&e);
                let (ra, rm, rc) = if selfref { (a, m, c) } else { stamps(&f) };
                let now = match plan["now_rel"].as_str().unwrap_or("real") {
                    "c" => add(c, off("now_off")),
                    "m" => add(m, off("now_off")),
                    "a" => add(a, off("now_off")),
                    _ => add(rn, off("now_off")),
                };
                // optionally in a time zone whose daylight-saving time begins between the entry's modification time and 'now':
                // whole elapsed periods are about elapsed time, not about what the wall clock showed at the two moments
                let tz_before = std::env::var_os("TZ");
                if plan.get("dst").and_then(|b| b.as_bool()).unwrap_or(false) && now.0 - m.0 >= 2 {
                    let mid = m.0 + (now.0 - m.0) / 2;
                    let days = mid.div_euclid(86400);
                    let tod = mid.rem_euclid(86400);
                    // day of the year (0-based, leap days counted) from the civil-from-days algorithm
                    let z = days + 719468;
                    let era = z.div_euclid(146097);
                    let doe = z.rem_euclid(146097);
                    let yoe = (doe - doe / 1460 + doe / 36524 - doe / 146096) / 365;
                    let doy_mar = doe - (365 * yoe + yoe / 4 - yoe / 100); // 0 = March 1
                    let y = yoe + era * 400 + if doy_mar >= 306 { 1 } else { 0 };
                    let leap = (y % 4 == 0 && y % 100 != 0) || y % 400 == 0;
                    let doy = if doy_mar >= 306 { doy_mar - 306 } else { doy_mar + 59 + if leap { 1 } else { 0 } };
                    let end = (doy + 150).rem_euclid(365);
                    std::env::set_var("TZ", format!("XST0XDT,{}/{:02}:{:02}:{:02},{}", doy, tod / 3600, (tod / 60) % 60, tod % 60, end));
                }
                let mut res = vec![];
                for t in arr(&input["tests"]) {
                    let args: Vec<String> = if t["t"] == "age" {
                        let sign = match t["form"].as_str().unwrap_or("eq") {
                            "gt" => "+",
                            "lt" => "-",
                            _ => "",
                        };
                        vec![age_prim(t["kind"].as_str().unwrap_or("m"), t["unit"].as_str().unwrap_or("day")), format!("{}{}", sign, t["n"].as_u64().unwrap_or(0))]
                    } else {
                        vec![t["alias"].as_str().unwrap_or("-newer").to_string(), if selfref { "R/e".into() } else if reflink.is_empty() { "F".into() } else { "FL".into() }]
                    };
                    match selected_mode(&dir, now, &reflink[..reflink.len().min(1)], &args) {
                        Ok(b) => res.push(json!(b)),
                        Err(v) => return v,
                    }
                }
                // all the tests once more, in ONE evaluation of the entry: each on its own timestamp there as well
                // ("( T1 -printf 1 -o -printf 0 ) ( T2 ... ) ..." - every group is true, so all of them are reached)
                let mut all: Vec<String> = vec![];
                if !reflink.is_empty() {
                    all.push(format!("-{}", &reflink[..1]));
                }
                all.push("R/e".into());
                for t in arr(&input["tests"]) {
                    all.push("(".into());
                    if t["t"] == "age" {
                        let sign = match t["form"].as_str().unwrap_or("eq") {
                            "gt" => "+",
                            "lt" => "-",
                            _ => "",
                        };
                        all.push(age_prim(t["kind"].as_str().unwrap_or("m"), t["unit"].as_str().unwrap_or("day")));
                        all.push(format!("{}{}", sign, t["n"].as_u64().unwrap_or(0)));
                    } else {
                        all.push(t["alias"].as_str().unwrap_or("-newer").to_string());
                        all.push(if selfref { "R/e".into() } else if reflink.is_empty() { "F".into() } else { "FL".into() });
                    }
                    all.extend(["-printf", "1", "-o", "-printf", "0", ")"].iter().map(|x| x.to_string()));
                }
                let errf = dir.parent().unwrap().join("stderr.txt");
                let rall = run_find_inproc(&dir, &all, Some(to_system_time(now)), &errf);
                if rall.panicked {
                    return json!({"panic": true, "args": all});
                }
                match &tz_before {
                    Some(v) => std::env::set_var("TZ", v),
                    None => std::env::remove_var("TZ"),
                }
                let together: Vec<Value> = rall.out.iter().map(|b| json!(*b == b'1')).collect();
                let mut o = json!({"res": res, "together": together, "now": ts_json(now),
                       "ent": {"a": ts_json(a), "m": ts_json(m), "c": ts_json(c)}, "rf": {"a": ts_json(ra), "m": ts_json(rm), "c": ts_json(rc)}});
                if !reflink.is_empty() {
                    let (la, lm, lc) = stamps(&fl);
                    o["rfl"] = json!({"a": ts_json(la), "m": ts_json(lm), "c": ts_json(lc)});
                }
                o
            }
        }
    }

    fn gen(&mut self, rng: &mut Rng, idx: usize, _tier: &str) -> Value {
        if idx % 40 == 7 {
            return json!({"mode": "clock", "margin_ms": 500 + rng.below(300), "sleep_ms": 1300 + rng.below(400), "n": rng.below(3)});
        }
        // offsets into the past (seconds, nanoseconds) for the four settable timestamps
        let off = |rng: &mut Rng| -> Value {
            let unit = *rng.pick(&[60i64, 86400]);
            let k = rng.below(6) as i64;
            let (s, n) = match rng.below(6) {
                0 => (k * unit, 0),
                1 => (k * unit, 1),
                2 => ((k * unit - 1).max(0), 999_999_999),
                3 => (k * unit + rng.below(unit as usize) as i64, rng.below(1_000_000_000) as i64),
                4 => (rng.below(3) as i64, rng.below(1_000_000_000) as i64),
                _ => (k * unit + 1, 0),
            };
            json!([s, n])
        };
        let mut plan = json!({"ea": off(rng), "em": off(rng), "ra": off(rng), "rm": off(rng), "gap_us": rng.below(3) * 1500,
                          "now_rel": *rng.pick(&["real", "c", "m", "a", "c"]), "now_off": off(rng)});
        plan["dst"] = json!(rng.chance(1, 3));
        // now and then the entry or the reference was last modified / read before 1970
        if rng.chance(1, 6) {
            // (one of them, or all four: the order of two such timestamps is the order of any two)
            if rng.chance(1, 2) {
                for k in ["em", "rm", "ea", "ra"] {
                    plan[k] = json!([1_820_000_000i64 + rng.below(280_000_000) as i64, rng.below(1_000_000_000)]);
                }
            } else {
                let k = *rng.pick(&["em", "rm", "ea", "ra"]);
                plan[k] = json!([1_900_000_000i64 + rng.below(200_000_000) as i64, rng.below(1_000_000_000)]);
            }
            plan["dst"] = json!(false);
            plan["now_rel"] = json!("real");
        }
        if rng.chance(1, 6) {
            plan["selfref"] = json!(true);
        } else if rng.chance(1, 3) {
            plan["reflink"] = json!(*rng.pick(&["P", "H", "L", "Ld", "P"]));
            plan["la"] = off(rng);
            plan["lm"] = off(rng);
        }
        let mut tests = vec![];
        for kind in ["a", "m", "c"] {
            for unit in ["day", "min"] {
                tests.push(json!({"t": "age", "kind": kind, "unit": unit, "form": *rng.pick(&["eq", "gt", "lt"]), "n": rng.below(7)}));
            }
        }
        for x in ["a", "m", "c"] {
            for y in ["a", "m", "c"] {
                tests.push(json!({"t": "newer", "x": x, "y": y, "alias": format!("-newer{}{}", x, y)}));
            }
        }
        tests.push(json!({"t": "newer", "x": "m", "y": "m", "alias": "-newer"}));
        tests.push(json!({"t": "newer", "x": "a", "y": "m", "alias": "-anewer"}));
        tests.push(json!({"t": "newer", "x": "c", "y": "m", "alias": "-cnewer"}));
        json!({"plan": plan, "tests": tests})
    }

    fn same(&self, exp: &Value, obs: &Value) -> bool {
        if obs.get("panic").is_some() || obs.get("exit").is_some() || obs.get("alias_differs").is_some() {
            return false;
        }
        if exp.get("sel").is_some() {
            return exp["sel"] == obs["sel"];
        }
        ["eq", "gt", "lt"].iter().all(|f| exp[*f] == obs[*f])
    }

    fn corrupt(&self, obs: &Value) -> Option<Value> {
        let mut o = obs.clone();
        if obs.get("clock").is_some() {
            o["sel"] = json!(!obs["sel"].as_bool().unwrap_or(false));
            return Some(o);
        }
        let mut r = arr(&o["res"]);
        if r.is_empty() {
            return None;
        }
        let k = r.len() / 2;
        r[k] = json!(!r[k].as_bool().unwrap_or(false));
        o["res"] = Value::Array(r);
        Some(o)
    }
}
