//! C07: find -print0 | xargs -0.  Input (spec/FindActions.tla): {tree, roots, cfg, pre}
//! Observation: {stream:[bytes] find's stdout with -print0, pstream: the same run with -print,
//!   args:[[bytes]..] the arguments the recorder received from xargs -0 (all invocations, in order), nexec, exit_find, exit_xargs}
use super::pexec::pre_args;
use super::pprintf::{depth_args, mode_args};
use super::Prop;
use crate::findrun::*;
use crate::tree::*;
use crate::util::*;
use crate::xrun::*;
use serde_json::{json, Value};

pub struct PPipe {
    sb: Sandbox,
    xsb: Sandbox,
    counter: u64,
}

impl Default for PPipe {
    fn default() -> Self {
        PPipe { sb: Sandbox::new("ppipe"), xsb: Sandbox::new("ppipex"), counter: 0 }
    }
}

impl Prop for PPipe {
    fn run(&mut self, input: &Value) -> Value {
        let dir = fresh_case_dir(&self.sb, &mut self.counter);
        let tree = parse_tree(&input["tree"]);
        materialize(&dir, &tree);
        let cfg = &input["cfg"];
        let mut base: Vec<String> = vec![];
        mode_args(cfg, &mut base);
        for r in arr(&input["roots"]) {
            base.push(json_to_string(&r["spell"]));
        }
        depth_args(cfg, &mut base);
        base.push("-sorted".into());
        pre_args(&input["pre"], &mut base);
        let mut a0 = base.clone();
        a0.push("-print0".into());
        let r0 = run_find_bin(&dir, &a0, None, &[], 60);
        let mut a1 = base.clone();
        a1.push("-print".into());
        let r1 = run_find_bin(&dir, &a1, None, &[], 60);
        if r0.panicked || r1.panicked {
            return json!({"panic": true});
        }
        // the bytes find wrote go through a pipe into the real xargs -0
        let mut o = XOpts::new(&r0.out);
        o.opts = vec!["-0".into()];
        // optionally under a small stack limit: the paths then fill several command lines
        if let Some(l) = input.get("xrlim").and_then(|l| l.as_u64()) {
            o.rlimit_stack = Some(l);
        }
        let x = run_xargs(&self.xsb, &o);
        if looks_like_panic(&x) {
            return json!({"panic": true, "xargs": true});
        }
        let mut args: Vec<Value> = vec![];
        for e in &x.execs {
            for a in e {
                args.push(bytes_to_json(a));
            }
        }
        // ... and through xargs -0 -I{} CMD {}: every item is still one unmodified argument (one command each)
        let mut iargs: Option<Vec<Value>> = None;
        if input.get("irun").and_then(|b| b.as_bool()).unwrap_or(false) {
            let mut o2 = XOpts::new(&r0.out);
            o2.opts = vec!["-0".into(), "-I{}".into()];
            o2.init = vec![b"{}".to_vec()];
            let x2 = run_xargs(&self.xsb, &o2);
            if looks_like_panic(&x2) {
                return json!({"panic": true, "xargs": true});
            }
            iargs = Some(x2.execs.iter().flat_map(|e| e.iter().map(|a| bytes_to_json(a))).collect());
        }
        let mut res = json!({"stream": bytes_to_json(&r0.out), "pstream": bytes_to_json(&r1.out), "args": args, "nexec": x.execs.len(),
               "exit_find": r0.exit, "exit_xargs": x.exit});
        if let Some(ia) = iargs {
            res["iargs"] = json!(ia);
        }
        res
    }

    fn gen(&mut self, rng: &mut Rng, _idx: usize, tier: &str) -> Value {
        let pool: [&str; 38] = ["a", " ", "  ", "\n", "\t", "'", "\"", "\\", "*", "?", "[", "-", "-n", "--", "{}", "$(id)", "é", "日本", "😀", "a b", "x\ny", "'q'", "\"q\"", "a\\b",
                                "-print0", "é ", " é", "$HOME", ";", "|", "\r", "a\r", "\r\n", "x\u{b}", "(old)", "!x", ",v", ")z"];
        if _idx % 10 == 3 {
            // a stream longer than one read buffer, made of multi-byte characters: record boundaries and character
            // boundaries fall anywhere relative to the 4 KiB / 8 KiB read sizes
            let rootname = "d".repeat(1 + rng.below(5));
            let mut tree: Vec<Value> = vec![json!({"parent": 0, "name": str_to_json(&rootname), "kind": "d", "target": 0})];
            let cnt = if tier == "thorough" { 900 } else { 400 };
            let chars = ["\u{65e5}", "\u{e9}", "\u{1F600}", "\u{20ac}", "\u{672c}"];
            // every other such case: long names below two long directories, and xargs under a small stack limit - the
            // paths (a few hundred KiB of multi-byte text) have to be spread over several command lines
            let long = (_idx / 10) % 2 == 0 && _idx < 300;
            let mut parent = 1;
            if long {
                for l in 0..2 {
                    let name: String = (0..70).map(|k| chars[(k + l) % 2 * 3]).collect();
                    tree.push(json!({"parent": parent, "name": str_to_json(&name), "kind": "d", "target": 0}));
                    parent = tree.len();
                }
            }
            for j in 0..(if long && tier != "thorough" { 300 } else { cnt }) {
                let mut name = format!("{:03}", j);
                for k in 0..(if long { 50 } else { 3 }) + (j % 9) {
                    name.push_str(chars[(j + k) % chars.len()]);
                }
                tree.push(json!({"parent": parent, "name": str_to_json(&name), "kind": "f", "target": 0}));
            }
            let mut v = json!({"tree": tree, "roots": [{"spell": str_to_json(&rootname), "node": 1}],
                          "cfg": {"mode": "P", "min": 0, "max": super::pwalk::NOMAX, "depth": false, "sorted": true, "prune": []}, "pre": {"p": "none"}});
            if long {
                v["xrlim"] = json!(512 * 1024);
            }
            return v;
        }
        if _idx % 10 == 7 {
            // a newline in one component and a long tail after it (longer than stdout's line buffer)
            let mut tree: Vec<Value> = vec![json!({"parent": 0, "name": str_to_json("d"), "kind": "d", "target": 0}),
                                            json!({"parent": 1, "name": str_to_json(*rng.pick(&["x\ny", "\n", "a\n\nb", " \n "])), "kind": "d", "target": 0})];
            let levels = 3 + rng.below(4);
            for l in 0..levels {
                let len = 150 + rng.below(100);
                let name: String = std::iter::repeat((b'a' + l as u8) as char).take(len).collect();
                let parent = tree.len();
                tree.push(json!({"parent": parent, "name": str_to_json(&name), "kind": "d", "target": 0}));
            }
            let parent = tree.len();
            tree.push(json!({"parent": parent, "name": str_to_json("leaf"), "kind": "f", "target": 0}));
            tree.push(json!({"parent": 1, "name": str_to_json("z"), "kind": "f", "target": 0}));
            return json!({"tree": tree, "roots": [{"spell": str_to_json("d"), "node": 1}],
                          "cfg": {"mode": "P", "min": 0, "max": super::pwalk::NOMAX, "depth": rng.chance(1, 3), "sorted": true, "prune": []}, "pre": {"p": "none"}});
        }
        let n = 2 + rng.below(if tier == "thorough" { 14 } else { 8 });
        let rootname = if rng.chance(1, 3) { rng.pick(&pool).to_string() } else { "d".to_string() };
        let mut tree: Vec<Value> = vec![json!({"parent": 0, "name": str_to_json(&rootname), "kind": "d", "target": 0})];
        let mut dirs = vec![1usize];
        for i in 2..=n {
            let parent = *rng.pick(&dirs);
            let mut name = String::new();
            for _ in 0..1 + rng.below(3) {
                name.push_str(*rng.pick(&pool));
            }
            while name.len() > 40 || tree.iter().any(|t| t["parent"].as_u64() == Some(parent as u64) && json_to_string(&t["name"]) == name) {
                name = format!("{}z", &name[..name.len().min(20)].chars().filter(|c| c.is_ascii()).collect::<String>());
            }
            let kind = if rng.chance(1, 3) { "d" } else { "f" };
            if kind == "d" {
                dirs.push(i);
            }
            tree.push(json!({"parent": parent, "name": str_to_json(&name), "kind": kind, "target": 0}));
        }
        // "exactly the starting point as given": also with trailing or doubled slashes and "." components, in every
        // follow mode (there are no links in these trees, so the mode changes nothing)
        let mut spell = if rootname.starts_with('-') || rng.chance(1, 3) { format!("./{}", rootname) } else { rootname.clone() };
        if rng.chance(1, 3) {
            spell.push_str(*rng.pick(&["/", "//", "/.", "/./"]));
        }
        let roots = vec![json!({"spell": str_to_json(&spell), "node": 1})];
        let cfg = json!({"mode": *rng.pick(&["P", "P", "H", "L"]), "min": if rng.chance(1, 4) { 1 } else { 0 }, "max": super::pwalk::NOMAX, "depth": rng.chance(1, 5), "sorted": true, "prune": []});
        let pre = if rng.chance(1, 4) { json!({"p": "type", "c": "f"}) } else { json!({"p": "none"}) };
        // now and then the starting point is a symbolic link to the directory: what is printed is the link as spelled
        // (also under -H -depth, where find walks the link's target from another spelling of its own making)
        if rng.chance(1, 6) {
            let k = tree.len() + 1;
            tree.push(json!({"parent": 0, "name": str_to_json("the link"), "kind": "l", "target": 1}));
            let mut cfg = cfg.clone();
            cfg["mode"] = json!(*rng.pick(&["H", "H", "L", "P"]));
            // (with a trailing slash the operating system resolves the link itself, whatever the mode)
            let lspell = if cfg["mode"] == "P" { *rng.pick(&["the link", "./the link"]) } else { *rng.pick(&["the link", "./the link", "the link/"]) };
            cfg["depth"] = json!(rng.chance(1, 2));
            return json!({"tree": tree, "roots": [{"spell": str_to_json(lspell), "node": k}], "cfg": cfg, "pre": pre});
        }
        json!({"tree": tree, "roots": roots, "cfg": cfg, "pre": pre, "irun": rng.chance(1, 3)})
    }

    fn same(&self, exp: &Value, obs: &Value) -> bool {
        if obs.get("panic").is_some() {
            return false;
        }
        let p = |v: &Value| -> Vec<Vec<u8>> { arr(v).iter().map(json_to_bytes).collect() };
        json_to_bytes(&exp["stream"]) == json_to_bytes(&obs["stream"])
            && p(&exp["args"]) == p(&obs["args"])
            && (exp["pstream"].is_null() || json_to_bytes(&exp["pstream"]) == json_to_bytes(&obs["pstream"]))
            && obs["exit_find"].as_i64() == Some(0)
            && obs["exit_xargs"].as_i64() == Some(0)
    }

    fn corrupt(&self, obs: &Value) -> Option<Value> {
        let mut o = obs.clone();
        let mut a = arr(&o["args"]);
        if a.is_empty() {
            a.push(str_to_json("ghost"));
        } else {
            let k = a.len() / 2;
            let mut b = json_to_bytes(&a[k]);
            b.push(b' ');
            a[k] = bytes_to_json(&b);
        }
        o["args"] = json!(a);
        Some(o)
    }
}
