//! C11: malformed command lines are rejected before anything happens; never a panic.
//! Two input shapes (spec/FindCli.tla):
//!  (A) {kind, arg, form}            one primary with one operand (TLC-enumerated vectors)
//!  (B) {words:[..], hazard, form}   a whole command line (random, validated by TLC):
//!        {k:"op", t}                                   operator
//!        {k:"prim", prim, kind, okind, arg|args|name, exists, known}
//! Observation: {exit, diag, outlen, execs, intact, rejected, panic, hang}
use super::pexpr::*;
use super::Prop;
use crate::findrun::*;
use crate::tree::fresh_case_dir;
use crate::util::*;
use serde_json::{json, Value};
use std::ffi::OsString;
use std::os::unix::ffi::{OsStrExt, OsStringExt};
use std::path::Path;

pub struct PCli {
    sb: Sandbox,
    counter: u64,
}

impl Default for PCli {
    fn default() -> Self {
        PCli { sb: Sandbox::new("pcli"), counter: 0 }
    }
}

fn os(b: &[u8]) -> OsString {
    OsString::from_vec(b.to_vec())
}

fn exec_word(w: &str, vrec: &Path) -> OsString {
    match w {
        "cmd" => vrec.as_os_str().to_os_string(),
        "w" => OsString::from("zzarg"),
        other => OsString::from(other),
    }
}

fn prim_for_kind(kind: &str, form: u64) -> Vec<&'static str> {
    let pick = |xs: &[&'static str]| xs[(form as usize) % xs.len()];
    match kind {
        "num" => vec![pick(&["-links", "-inum", "-uid", "-gid"])],
        "timenum" => vec![pick(&["-mtime", "-atime", "-ctime", "-mmin", "-amin", "-cmin"])],
        "size" => vec!["-size"],
        "type" => vec![pick(&["-type", "-xtype"])],
        "perm" => vec!["-perm"],
        "printf" => {
            if form % 2 == 0 {
                vec!["-printf"]
            } else {
                vec!["-fprintf", "O/out"]
            }
        }
        "regextype" => vec!["-regextype"],
        "exec" => vec![pick(&["-exec", "-execdir"])],
        _ => vec!["-unknown-kind"],
    }
}

/// (relative path, type+mode, size, link text) of everything below `root`, sorted.
pub fn snapshot(root: &Path) -> Vec<(Vec<u8>, u32, u64, Vec<u8>)> {
    fn rec(base: &Path, p: &Path, out: &mut Vec<(Vec<u8>, u32, u64, Vec<u8>)>) {
        use std::os::unix::fs::MetadataExt;
        let Ok(m) = p.symlink_metadata() else { return };
        let rel = p.strip_prefix(base).unwrap_or(p).as_os_str().as_bytes().to_vec();
        let link = if m.file_type().is_symlink() { std::fs::read_link(p).map(|t| t.as_os_str().as_bytes().to_vec()).unwrap_or_default() } else { vec![] };
        out.push((rel, m.mode(), if m.is_dir() { 0 } else { m.size() }, link));
        if m.is_dir() {
            if let Ok(rd) = std::fs::read_dir(p) {
                let mut kids: Vec<_> = rd.filter_map(|e| e.ok()).map(|e| e.path()).collect();
                kids.sort();
                for k in kids {
                    rec(base, &k, out);
                }
            }
        }
    }
    let mut v = vec![];
    rec(root, root, &mut v);
    v
}

fn make_fixture(dir: &Path, hazard: bool) {
    let f = dir.join("F");
    std::fs::create_dir(&f).unwrap();
    std::fs::create_dir(dir.join("O")).unwrap();
    std::fs::write(f.join("a"), b"0123456789").unwrap();
    if !hazard {
        return;
    }
    use std::os::unix::fs::PermissionsExt;
    std::fs::create_dir(f.join("sub")).unwrap();
    std::fs::write(f.join("sub").join("x"), b"x").unwrap();
    std::fs::create_dir(f.join("sub").join("deep")).unwrap();
    std::fs::write(f.join("sub").join("deep").join("y"), b"").unwrap();
    let big = std::fs::File::create(f.join("big")).unwrap();
    big.set_len(5 * 1024 * 1024 * 1024 + 1).unwrap();
    std::fs::write(f.join("nouser"), b"n").unwrap();
    let c = std::ffi::CString::new(f.join("nouser").as_os_str().as_bytes()).unwrap();
    unsafe {
        libc::chown(c.as_ptr(), 54321, 54322);
    }
    let c = std::ffi::CString::new(f.join("fifo").as_os_str().as_bytes()).unwrap();
    unsafe {
        libc::mkfifo(c.as_ptr(), 0o644);
    }
    let _ = std::os::unix::net::UnixListener::bind(f.join("sock"));
    let _ = std::os::unix::fs::symlink("a", f.join("ln-a"));
    let _ = std::os::unix::fs::symlink("nowhere", f.join("ln-dangling"));
    let _ = std::os::unix::fs::symlink("ln-loop", f.join("ln-loop"));
    let _ = std::os::unix::fs::symlink("sub", f.join("ln-sub"));
    std::fs::write(f.join("m000"), b"m").unwrap();
    let _ = std::fs::set_permissions(f.join("m000"), std::fs::Permissions::from_mode(0));
    std::fs::write(f.join("é"), b"e").unwrap();
    std::fs::write(f.join("sp ace"), b"s").unwrap();
    std::fs::write(f.join("-dash"), b"d").unwrap();
    std::fs::write(f.join("nl\nx"), b"n").unwrap();
    let _ = std::fs::write(f.join(std::ffi::OsStr::from_bytes(b"\xff\xfe")), b"b");
    let _ = std::fs::set_permissions(f.join("sub"), std::fs::Permissions::from_mode(0o4755));
}

fn words_to_args(words: &[Value], vrec: &Path) -> Vec<OsString> {
    let mut a: Vec<OsString> = vec![];
    for w in words {
        if w["k"] == "op" {
            a.push(OsString::from(match w["t"].as_str().unwrap_or("") {
                "not" => "!",
                "and" => "-a",
                "or" => "-o",
                "comma" => ",",
                "lp" => "(",
                "rp" => ")",
                x => x,
            }));
            continue;
        }
        a.push(OsString::from(w["prim"].as_str().unwrap_or("-true")));
        match w["okind"].as_str().unwrap_or("none") {
            "none" | "unknown" | "missing" => {}
            // -fprintf FILE without its format: the first of two operands is there
            "missing1" => a.push(OsString::from("O/out")),
            // an unknown primary followed by the name of an existing file
            "unknown1" => a.push(OsString::from("F/a")),
            "exec" => {
                for x in arr(&w["args"]) {
                    a.push(exec_word(x.as_str().unwrap_or(""), vrec));
                }
            }
            "regextype" => a.push(OsString::from(w["name"].as_str().unwrap_or(""))),
            "fprint" => {
                a.push(OsString::from(if w.get("full").and_then(|b| b.as_bool()).unwrap_or(false) { "/dev/full" } else { "O/out" }));
                if w.get("arg").is_some() {
                    a.push(os(&json_to_bytes(&w["arg"])));
                }
            }
            _ => a.push(os(&json_to_bytes(&w["arg"]))),
        }
    }
    a
}

impl Prop for PCli {
    fn run(&mut self, input: &Value) -> Value {
        let dir = fresh_case_dir(&self.sb, &mut self.counter);
        let hazard = input.get("hazard").and_then(|h| h.as_bool()).unwrap_or(false);
        make_fixture(&dir, hazard);
        let vrec = vrec_path();
        let form = input.get("form").and_then(|f| f.as_u64()).unwrap_or(0);
        let mut args: Vec<OsString> = vec![];
        for o in arr(&input.get("pre").cloned().unwrap_or(Value::Null)) {
            args.push(OsString::from(o.as_str().unwrap_or("")));
        }
        args.push(OsString::from("F"));
        if let Some(kind) = input.get("kind").and_then(|k| k.as_str()) {
            for p in prim_for_kind(kind, form) {
                args.push(OsString::from(p));
            }
            if kind == "exec" {
                for x in arr(&input["arg"]) {
                    args.push(exec_word(x.as_str().unwrap_or(""), &vrec));
                }
            } else if kind == "regextype" {
                args.push(OsString::from(input["arg"].as_str().unwrap_or("")));
            } else {
                args.push(os(&json_to_bytes(&input["arg"])));
            }
        } else {
            // "nest": the whole expression inside that many pairs of parentheses (they change nothing)
            let nest = input.get("nest").and_then(|n| n.as_u64()).unwrap_or(0) as usize;
            args.extend(std::iter::repeat(OsString::from("(")).take(nest));
            args.extend(words_to_args(&arr(&input["words"]), &vrec));
            args.extend(std::iter::repeat(OsString::from(")")).take(nest));
        }
        let before = snapshot(&dir.join("F"));
        let log = dir.parent().unwrap().join("vrec.log");
        let _ = std::fs::remove_file(&log);
        let mut env = vec![("VREC_LOG".to_string(), log.to_string_lossy().into_owned())];
        // standard output on a device that is full: whatever is printed cannot be written - an error, never a panic
        if input.get("outfull").and_then(|b| b.as_bool()).unwrap_or(false) {
            env.push(("VH_STDOUT".to_string(), "/dev/full".to_string()));
        }
        let r = run_find_bin_os(&dir, &args, None, &env, 20);
        let after = snapshot(&dir.join("F"));
        let execs = std::fs::read(&log).map(|c| c.iter().filter(|b| **b == b'\n').count()).unwrap_or(0);
        let intact = before == after;
        let diag = !r.stderr.is_empty();
        let rejected = r.exit != 0 && diag && r.out.is_empty() && execs == 0 && intact && !r.panicked && r.exit >= 0 && r.exit < 1000;
        let mut o = json!({"exit": r.exit, "diag": diag, "outlen": r.out.len(), "execs": execs, "intact": intact, "rejected": rejected});
        if r.panicked || r.exit >= 1000 {
            o["panic"] = json!(true);
            o["stderr"] = json!(String::from_utf8_lossy(&r.stderr[..r.stderr.len().min(300)]));
        }
        if r.exit == -1 {
            o["hang"] = json!(true);
        }
        o
    }

    fn gen(&mut self, rng: &mut Rng, _idx: usize, tier: &str) -> Value {
        // the shape of the expression comes from the C01 generator; leaves become real primaries
        let mut toks: Vec<String> = vec![];
        let budget = 1 + rng.below(if tier == "thorough" { 10 } else { 6 });
        // every third command line is short - one or two primaries - so that what it names is actually evaluated
        // (a long random line is nearly always rejected for some other word before anything runs)
        let short = _idx % 3 == 1;
        if short {
            toks.push(if rng.chance(1, 2) { "a1".into() } else { "t1".into() });
            if rng.chance(1, 3) {
                toks.push(if rng.chance(1, 2) { "a2".into() } else { "t2".into() });
            }
        } else {
            gen_list(rng, &mut toks, budget, 0, 3, 3);
        }
        if !short && rng.chance(1, 5) && !toks.is_empty() {
            let k = rng.below(toks.len());
            match rng.below(3) {
                0 => {
                    toks.remove(k);
                }
                1 => {
                    let t = toks[k].clone();
                    toks.insert(k, t);
                }
                _ => toks.insert(k, rng.pick(&["not", "and", "or", "comma", "lp", "rp"]).to_string()),
            }
        }
        let n = toks.len();
        let mut words: Vec<Value> = vec![];
        for (i, t) in toks.iter().enumerate() {
            match t.as_str() {
                "not" | "and" | "or" | "comma" | "lp" | "rp" => words.push(json!({"k": "op", "t": t})),
                _ => words.push(gen_prim(rng, t.starts_with('a'), i + 1 == n)),
            }
        }
        if short && rng.chance(1, 5) {
            // a primary that takes operands as the only word of the expression, without them (or with the first of two)
            let p = *rng.pick(&["-fprintf", "-fprintf", "-fprint", "-fprint0", "-fls", "-printf", "-exec", "-execdir", "-name", "-newer", "-newermt", "-size",
                                "-perm", "-regex", "-regextype", "-samefile", "-user", "-files0-from", "-maxdepth", "-mmin", "-inum", "-lname"]);
            let half = p == "-fprintf" && rng.chance(1, 3);
            words = vec![json!({"k": "prim", "prim": p, "kind": "action", "okind": if half { "missing1" } else { "missing" }})];
        } else if short && rng.chance(1, 6) {
            // a field as wide as (or wider than) what a formatting routine may be prepared for
            let f = *rng.pick(&["%70000p\\n", "%-65536f|", "%65535d", "%65536s\\n", "%-99999y"]);
            words = vec![json!({"k": "prim", "prim": "-printf", "kind": "action", "okind": "printf", "arg": bytes_to_json(f.as_bytes())})];
        }
        let mut v = json!({"words": words, "hazard": true, "form": rng.below(1000), "outfull": short && rng.chance(1, 6)});
        if short && _idx % 30 == 1 {
            // parentheses nest to any depth
            v["nest"] = json!(*rng.pick(&[40u64, 150, 1500]));
        }
        if rng.chance(1, 4) {
            v["pre"] = json!([*rng.pick(&["-P", "-H", "-L", "-O2"])]);
        }
        v
    }

    fn same(&self, exp: &Value, obs: &Value) -> bool {
        if obs.get("panic").is_some() || obs.get("hang").is_some() {
            return false;
        }
        match exp["cls"].as_str().unwrap_or("unspec") {
            "invalid" => obs["rejected"].as_bool() == Some(true),
            "valid" => obs["exit"].as_i64() == Some(0),
            _ => true,
        }
    }

    fn corrupt(&self, obs: &Value) -> Option<Value> {
        // whether "not rejected" contradicts the specification depends on the verdict, which only the
        // specification knows; a panic or a hang contradicts it for every command line
        let mut o = obs.clone();
        if obs["rejected"].as_bool() == Some(true) {
            o["hang"] = json!(true);
        } else {
            o["panic"] = json!(true);
        }
        Some(o)
    }
}

const JUNK: [&[u8]; 53] = [
    b"", b"\xc3\xa9", b"%", b"\\", b"[", b"[[:", b"[[:alpha:", b"99999999999999999999999", b"-1", b"+", b"a b", b"*", b"{}", b";", b"'", b"%\xc3\xa9",
    b"%99999999999999999999d", b"\\1\xc3\xa9", b"[a-", b"[!", b"\\", b"x\xff",
    // numbers in other clothes, flags and escapes a printf might know, operators as operands
    b"-", b"+0", b"-0", b"0x10", b"1e3", b"1.5", b" 7", b"7 ", b"\xd9\xa3", b"\xef\xbc\x91\xef\xbc\x92", b"\xc2\xb2", b"18446744073709551616", b"-9223372036854775809",
    b"%.5p", b"%#p", b"%+5d", b"% d", b"%05d", b"%-", b"%5", b"\\c", b"\\x41", b"\\N", b"%%%", b"%{", b"%(", b"%Tz", b"%A@x", b"(", b")", b"!",
];

fn pick_bytes(rng: &mut Rng, good: &[&[u8]], near: &[&[u8]]) -> Vec<u8> {
    match rng.below(10) {
        0..=4 => rng.pick(good).to_vec(),
        5..=7 => rng.pick(near).to_vec(),
        _ => rng.pick(&JUNK).to_vec(),
    }
}

fn gen_prim(rng: &mut Rng, action: bool, last: bool) -> Value {
    let b = |x: Vec<u8>| bytes_to_json(&x);
    if last && rng.chance(1, 8) {
        let p = *rng.pick(&["-name", "-size", "-perm", "-type", "-printf", "-newer", "-user", "-regex", "-mtime", "-exec", "-fprint", "-links", "-maxdepth", "-regextype", "-samefile", "-newermt",
                            "-fprintf", "-fprint0", "-fls", "-iname", "-lname", "-path", "-iregex", "-group", "-uid", "-inum", "-newermm", "-anewer", "-execdir", "-xtype", "-mmin", "-mindepth", "-files0-from"]);
        return json!({"k": "prim", "prim": p, "kind": if action { "action" } else { "test" }, "okind": "missing"});
    }
    if last && action && rng.chance(1, 12) {
        return json!({"k": "prim", "prim": "-fprintf", "kind": "action", "okind": "missing1"});
    }
    if rng.chance(1, 25) {
        if rng.chance(1, 3) {
            // an unknown word that merely contains the name of a -newerXY test, followed by what would be its operand
            let p = *rng.pick(&["-newermmzz", "-xnewermm", "-newerac1", "-follow-newermm", "-neweramm"]);
            return json!({"k": "prim", "prim": p, "kind": "test", "okind": "unknown1"});
        }
        let p = *rng.pick(&["-foo", "-newerxm", "-newerzz", "-nam", "--print", "-Print", "-exe", "-size1k", "-é"]);
        return json!({"k": "prim", "prim": p, "kind": "test", "okind": "unknown"});
    }
    if action {
        return match rng.below(9) {
            0 => json!({"k": "prim", "prim": "-print", "kind": "action", "okind": "none"}),
            1 => json!({"k": "prim", "prim": "-print0", "kind": "action", "okind": "none"}),
            2 => json!({"k": "prim", "prim": "-ls", "kind": "action", "okind": "none"}),
            3 => json!({"k": "prim", "prim": "-delete", "kind": "action", "okind": "none"}),
            4 | 5 => json!({"k": "prim", "prim": "-printf", "kind": "action", "okind": "printf",
                        "arg": b(pick_bytes(rng, &[b"%p\\n", b"%f %s %m %y\\0", b"%-10p|%5d\\n", b"%%x", b"%h/%f %l", b"%P %H %U %G %n %i %Y", b"%70000p\\n", b"%-65536f|", b"%65535d"],
                                            &[b"%", b"%5", b"%-", b"x%", b"\\", b"%z", b"\\q", b"%A", b"%-5", b"a\\", b"%TQ", b"%AE", b"%CO", b"%Ti", b"%TN\\n", b"%Ak%TJ", b"%T@ %TL"]))}),
            // an output file (now and then one that cannot be written to: /dev/full)
            6 => match rng.below(4) {
                0 => json!({"k": "prim", "prim": "-fprintf", "kind": "action", "okind": "fprint", "arg": b(b"%p %s\\n".to_vec()), "full": rng.chance(1, 2)}),
                1 => json!({"k": "prim", "prim": *rng.pick(&["-fprint0", "-fls"]), "kind": "action", "okind": "fprint", "full": rng.chance(1, 2)}),
                _ => json!({"k": "prim", "prim": "-fprint", "kind": "action", "okind": "fprint", "full": rng.chance(1, 3)}),
            },
            _ => {
                let shapes: [&[&str]; 12] = [&["cmd", "{}", ";"], &["cmd", "{}", "+"], &["cmd", "w", "{}", ";"], &["cmd", ";"], &["cmd", "x{}", ";"],
                    &["cmd", "{}"], &["cmd"], &[";"], &["cmd", "{}", "{}", "+"], &["cmd", "w", "+"], &["cmd", "{}", "w", "+"], &[]];
                let mut s = *rng.pick(&shapes);
                if !last && !(s.last() == Some(&";") || (s.len() >= 2 && s[s.len() - 1] == "+" && s[s.len() - 2] == "{}")) {
                    s = shapes[0]; // an unterminated -exec would swallow the following words
                }
                json!({"k": "prim", "prim": *rng.pick(&["-exec", "-execdir"]), "kind": "action", "okind": "exec", "args": s})
            }
        };
    }
    match rng.below(16) {
        0 => json!({"k": "prim", "prim": *rng.pick(&["-true", "-false", "-prune", "-empty", "-nouser", "-nogroup", "-readable", "-writable", "-executable", "-depth", "-daystart", "-xdev", "-noleaf", "-follow"]), "kind": "test", "okind": "none"}),
        1 => json!({"k": "prim", "prim": *rng.pick(&["-name", "-iname", "-path", "-ipath", "-lname", "-ilname", "-wholename"]), "kind": "test", "okind": "any",
                    "arg": b(pick_bytes(rng, &[b"a", b"*", b"[a-z]*", b"s?b", b"*\xc3\xa9*", b"(", b")", b"!", b"-o", b",", b"-name", b"-print"], &[b"[", b"[[:", b"[[:alpha:", b"a\\", b"[!", b"[a-", b"[[.", b"[[=a", b"[]", b"[[:x:]]", b"[[.a.]]", b"[z-a]"]))}),
        2 | 3 => json!({"k": "prim", "prim": "-size", "kind": "test", "okind": "size",
                    "arg": b(pick_bytes(rng, &[b"1", b"+1k", b"-2M", b"0c", b"10w", b"1G", b"+0b"], &[b"1x", b"k", b"1kk", b"foo10k", b"+", b"1.5k", b"x1", b" 1", b"1 "]))}),
        4 => json!({"k": "prim", "prim": *rng.pick(&["-links", "-inum", "-uid", "-gid"]), "kind": "test", "okind": "num",
                    "arg": b(pick_bytes(rng, &[b"1", b"+0", b"-5", b"54321"], &[b"x", b"1x", b"+", b"1.5", b"0x10"]))}),
        5 => json!({"k": "prim", "prim": *rng.pick(&["-mtime", "-atime", "-ctime", "-mmin", "-amin", "-cmin"]), "kind": "test", "okind": "timenum",
                    "arg": b(pick_bytes(rng, &[b"1", b"+0", b"-5", b"0"], &[b"x", b"1x", b"+", b"1d"]))}),
        6 => json!({"k": "prim", "prim": *rng.pick(&["-type", "-xtype"]), "kind": "test", "okind": "type",
                    "arg": b(pick_bytes(rng, &[b"f", b"d", b"l", b"p", b"s", b"b", b"c"], &[b"x", b"ff", b"", b"F", b"dd"]))}),
        7 | 8 => json!({"k": "prim", "prim": "-perm", "kind": "test", "okind": "perm",
                    "arg": b(pick_bytes(rng, &[b"644", b"-u+r", b"/022", b"u=rwx,g=rx,o=", b"-4000", b"a+x", b"ug=o", b"7777"],
                                        &[b"8", b"77777", b"u+7", b"u", b"a", b",u+r", b"u+r,", b"-", b"/", b"0644x", b"rwx", b"u+rwz", b"7 ", b" 7", b"7\t", b"64 4", b"-7 ", b"/ 7"]))}),
        9 => json!({"k": "prim", "prim": "-regextype", "kind": "test", "okind": "regextype",
                    "name": *rng.pick(&["emacs", "posix-basic", "posix-extended", "grep", "ed", "sed", "foo", "", "posix", "EMACS", "posix-egrep"])}),
        10 => json!({"k": "prim", "prim": *rng.pick(&["-regex", "-iregex"]), "kind": "test", "okind": "regex",
                     "arg": b(pick_bytes(rng, &[b".*a", b"F/[a-z]*", b".*\\(a\\|b\\)"], &[b"[", b"\\(", b"\\)", b"*", b"a\\{1", b"\\"]))}),
        11 => {
            let exists = rng.chance(2, 3);
            json!({"k": "prim", "prim": *rng.pick(&["-newer", "-samefile", "-anewer", "-cnewer", "-neweram", "-newermc", "-newercc", "-newerac"]), "kind": "test", "okind": "fileref",
                   "arg": b(if exists { b"F/a".to_vec() } else { b"F/nonexistent".to_vec() }), "exists": exists})
        }
        12 => {
            let (arg, known): (&[u8], bool) = *rng.pick(&[(b"root" as &[u8], true), (b"0", true), (b"54321", true), (b"nosuch_user_x", false), (b"", false), (b"\xc3\xa9", false),
                                                           (b"-5", false), (b"-0", false), (b"5x", false), (b"1.5", false), (b"+0", false), (b"+5", false), (b"+54321", false)]);
            json!({"k": "prim", "prim": *rng.pick(&["-user", "-group"]), "kind": "test", "okind": "user", "arg": b(arg.to_vec()), "known": known})
        }
        13 => json!({"k": "prim", "prim": *rng.pick(&["-maxdepth", "-mindepth"]), "kind": "test", "okind": "depthnum",
                     "arg": b(pick_bytes(rng, &[b"0", b"1", b"5", b"100"], &[b"-1", b"x", b"1.5", b"+1", b""]))}),
        14 => json!({"k": "prim", "prim": "-newermt", "kind": "test", "okind": "date",
                     "arg": b(pick_bytes(rng, &[b"jan 01, 2025 00:00:01", b"jan 01, 2025"],
                                         &[b"garbage", b"", b"99999", "jan 01, \u{662}\u{660}\u{662}\u{665}".as_bytes(), "jan \u{661}\u{662}, 2025".as_bytes(), "jan 01, 2025 \u{661}\u{662}:00:00".as_bytes(),
                                           b"jan 01, 99999", b"feb 30, 2025", b"jan 01, 2025 25:61:61"]))}),
        _ => json!({"k": "prim", "prim": "-name", "kind": "test", "okind": "any", "arg": b(rng.pick(&JUNK).to_vec())}),
    }
}
