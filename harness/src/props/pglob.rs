//! C12: -name / -path / -lname (and -i forms) = fnmatch on the whole string.
//! Vector input (spec/mc/MC_Glob.tla): {pat:[code points], fold}, expectation {dom, m:[indices into the
//!   subject universe]}; the universe is given to the harness in the file named by VH_SUBJECTS
//!   (one JSON array of code points per line, in index order).
//! Trace input: {pat, fold, subjects:[[code points]..]}; observation {lname:[idx..], name:[idx..], path:[idx..]}
//! Fixtures: directory L of symbolic links whose targets are the subjects (-lname), directory N of files
//! named after the subjects that can be file names (-name, -path with the pattern prefixed by "N/").
use super::Prop;
use crate::findrun::*;
use crate::tree::fresh_case_dir;
use crate::util::*;
use serde_json::{json, Value};
use std::collections::HashMap;
use std::path::PathBuf;

pub struct PGlob {
    sb: Sandbox,
    counter: u64,
    universe: Option<(PathBuf, Fixture)>,
}

pub struct Fixture {
    links: HashMap<Vec<u8>, usize>, // path as printed -> subject index (1-based)
    names: HashMap<Vec<u8>, usize>,
    name_ok: Vec<bool>,
}

impl Default for PGlob {
    fn default() -> Self {
        PGlob { sb: Sandbox::new("pglob"), counter: 0, universe: None }
    }
}

pub fn cps_to_string(v: &Value) -> String {
    arr(v).iter().filter_map(|c| c.as_u64()).filter_map(|c| char::from_u32(c as u32)).collect()
}

fn build_fixture(dir: &std::path::Path, subjects: &[String]) -> Fixture {
    let l = dir.join("L");
    let n = dir.join("N");
    std::fs::create_dir_all(&l).unwrap();
    std::fs::create_dir_all(&n).unwrap();
    let mut fx = Fixture { links: HashMap::new(), names: HashMap::new(), name_ok: vec![] };
    for (i, s) in subjects.iter().enumerate() {
        let ln = format!("l{:05}", i + 1);
        if !s.is_empty() && !s.contains('\0') {
            std::os::unix::fs::symlink(s, l.join(&ln)).expect("symlink");
            fx.links.insert(format!("L/{}", ln).into_bytes(), i + 1);
        }
        let ok = !s.is_empty() && !s.contains('/') && !s.contains('\0') && s != "." && s != ".." && s.len() < 200 && !fx.names.contains_key(format!("N/{}", s).as_bytes());
        if ok {
            std::fs::write(n.join(s), b"").expect("name file");
            fx.names.insert(format!("N/{}", s).into_bytes(), i + 1);
        }
        fx.name_ok.push(ok);
    }
    fx
}

fn run_one(dir: &std::path::Path, fx: &Fixture, pat: &str, fold: bool) -> Value {
    let errf = dir.parent().unwrap().join("stderr.txt");
    let mut res = json!({});
    let specs: [(&str, &str, &str, String); 3] = [
        ("lname", "L", if fold { "-ilname" } else { "-lname" }, pat.to_string()),
        ("name", "N", if fold { "-iname" } else { "-name" }, pat.to_string()),
        // -wholename is another spelling of -path
        ("path", "N", match (fold, pat.len() % 2 == 0) { (true, false) => "-ipath", (true, true) => "-iwholename", (false, false) => "-path", (false, true) => "-wholename" }, format!("N/{}", pat)),
    ];
    for (key, root, prim, p) in specs.iter() {
        let args: Vec<String> = vec![root.to_string(), "-mindepth".into(), "1".into(), prim.to_string(), p.clone(), "-print0".into()];
        let r = run_find_inproc(dir, &args, None, &errf);
        if r.panicked {
            return json!({"panic": true, "args": args});
        }
        let map = if *root == "L" { &fx.links } else { &fx.names };
        let mut idx: Vec<usize> = split_nul(&r.out).iter().map(|p| map.get(p).copied().unwrap_or(0)).collect();
        idx.sort();
        res[*key] = json!(idx);
        if r.exit != 0 {
            res["exit"] = json!(r.exit);
        }
    }
    res
}

impl Prop for PGlob {
    fn run(&mut self, input: &Value) -> Value {
        let pat = cps_to_string(&input["pat"]);
        let fold = input["fold"].as_bool().unwrap_or(false);
        if let Some(sj) = input.get("subjects") {
            // a trace case with its own subjects
            let dir = fresh_case_dir(&self.sb, &mut self.counter);
            let subjects: Vec<String> = arr(sj).iter().map(cps_to_string).collect();
            let fx = build_fixture(&dir, &subjects);
            let mut o = run_one(&dir, &fx, &pat, fold);
            o["name_ok"] = json!(fx.name_ok);
            // the same pattern under both letter-case rules in ONE expression: each test keeps its own rule
            if input.get("both").and_then(|b| b.as_bool()).unwrap_or(false) {
                let errf = dir.parent().unwrap().join("stderr.txt");
                let (first, second) = if fold { ("-iname", "-name") } else { ("-name", "-iname") };
                let args: Vec<String> = vec!["N".into(), "-mindepth".into(), "1".into(), "(".into(), first.into(), pat.clone(), "-printf".into(), "1%p\\0".into(), ",".into(),
                                             second.into(), pat.clone(), "-printf".into(), "2%p\\0".into(), ")".into()];
                let r = run_find_inproc(&dir, &args, None, &errf);
                if r.panicked {
                    return json!({"panic": true, "args": args});
                }
                let recs = split_nul(&r.out);
                let pick = |tag: u8| -> Vec<usize> {
                    let mut v: Vec<usize> = recs.iter().filter(|x| x.first() == Some(&tag)).map(|x| fx.names.get(&x[1..].to_vec()).copied().unwrap_or(0)).collect();
                    v.sort();
                    v
                };
                o["n1"] = json!(pick(b'1'));
                o["n2"] = json!(pick(b'2'));
            }
            // the subject of -name for a starting point is the last component of its spelling
            if let Some(sp) = input.get("spells") {
                std::fs::create_dir_all(dir.join("R").join("sub")).unwrap();
                let errf = dir.parent().unwrap().join("stderr.txt");
                let mut hits = vec![];
                for spell in arr(sp) {
                    let args: Vec<String> = vec![cps_to_string(&spell), "-maxdepth".into(), "0".into(), (if fold { "-iname" } else { "-name" }).to_string(), pat.clone(), "-print0".into()];
                    let r = run_find_inproc(&dir, &args, None, &errf);
                    if r.panicked {
                        return json!({"panic": true, "args": args});
                    }
                    hits.push(!split_nul(&r.out).is_empty());
                }
                o["rootname"] = json!(hits);
            }
            return o;
        }
        if self.universe.is_none() {
            let f = std::env::var("VH_SUBJECTS").expect("VH_SUBJECTS");
            let subjects: Vec<String> = std::fs::read_to_string(&f)
                .expect("subjects file")
                .lines()
                .map(|l| cps_to_string(&serde_json::from_str::<Value>(l).expect("subject json")))
                .collect();
            let dir = self.sb.path().join("universe").join("w");
            std::fs::create_dir_all(&dir).unwrap();
            let fx = build_fixture(&dir, &subjects);
            self.universe = Some((dir, fx));
        }
        let (dir, fx) = self.universe.as_ref().unwrap();
        let mut o = run_one(dir, fx, &pat, fold);
        o["name_ok"] = json!(fx.name_ok);
        o
    }

    fn gen(&mut self, rng: &mut Rng, idx: usize, tier: &str) -> Value {
        if idx % 60 == 13 {
            // case folding is per character: "ss" is not "\u{df}", "s" is not "\u{17f}" (long s), "k" is not the Kelvin sign
            let (pat, subjects): (&str, Vec<&str>) = match (idx / 60) % 3 {
                0 => ("ss", vec!["\u{df}", "ss", "SS", "sS", "s", "\u{1e9e}"]),
                1 => ("s", vec!["\u{17f}", "s", "S", "ss"]),
                _ => ("*k*", vec!["\u{212a}", "k", "K", "ak\u{e9}", "x"]),
            };
            let cps = |x: &str| x.chars().map(|c| c as u32).collect::<Vec<u32>>();
            return json!({"pat": cps(pat), "fold": true, "subjects": subjects.iter().map(|x| cps(x)).collect::<Vec<_>>()});
        }
        let lits: [u32; 14] = [97, 98, 99, 65, 66, 46, 47, 45, 33, 93, 10, 32, 233, 0x1F600];
        let maxp = if tier == "thorough" { 12 } else { 8 };
        let np = 1 + rng.below(maxp);
        let mut pat: Vec<u32> = vec![];
        while pat.len() < np {
            match rng.below(12) {
                0 | 1 => pat.push(42),
                2 => pat.push(63),
                3 => {
                    pat.push(92);
                    pat.push(*rng.pick(&[42, 63, 91, 92, 97, 46, 93]));
                }
                4 | 5 => {
                    // a bracket expression, mostly well-formed
                    pat.push(91);
                    if rng.chance(1, 3) {
                        pat.push(33);
                    }
                    if rng.chance(1, 6) {
                        pat.push(93);
                    }
                    for _ in 0..1 + rng.below(3) {
                        match rng.below(6) {
                            0 => pat.extend([97, 45, 99]),
                            1 => pat.extend([65, 45, 67]),
                            2 => {
                                let n = *rng.pick(&["alpha", "digit", "upper", "lower", "alnum", "space", "punct", "xdigit"]);
                                pat.extend([91, 58]);
                                pat.extend(n.chars().map(|c| c as u32));
                                pat.extend([58, 93]);
                            }
                            3 => pat.push(45),
                            // a literal '[' as a member (it does not open anything unless ':' follows)
                            4 if rng.chance(1, 2) => pat.push(91),
                            _ => pat.push(*rng.pick(&lits)),
                        }
                    }
                    if !rng.chance(1, 8) {
                        pat.push(93);
                    }
                }
                6 => pat.push(*rng.pick(&[91, 93, 33, 45, 94, 123, 125, 40, 41, 124, 43, 36])),
                _ => pat.push(*rng.pick(&lits)),
            }
        }
        // one case in four is about the names of starting points ("R", ".", "..", "sub"): short patterns around them
        let rootcase = rng.chance(1, 4);
        if rootcase {
            let pool = [".", "..", "R", "r", "?", "??", "*", ".*", "[.]", "[!.]", "\\.", "sub", "s*", "*.", "R/", "R/.", "???", "[.][.]", "*[!.]", "SUB"];
            pat = rng.pick(&pool).chars().map(|c| c as u32).collect();
        }
        let mut subjects: Vec<Vec<u32>> = vec![];
        let ns = 6 + rng.below(10);
        for _ in 0..ns {
            let mut s: Vec<u32> = vec![];
            let mut i = 0;
            while i < pat.len() {
                let c = pat[i];
                match c {
                    42 => {
                        for _ in 0..rng.below(3) {
                            s.push(*rng.pick(&lits));
                        }
                    }
                    63 => s.push(*rng.pick(&lits)),
                    92 if i + 1 < pat.len() => {
                        i += 1;
                        s.push(pat[i]);
                    }
                    91 => {
                        // skip to the closing bracket if there is one, emit some plausible member
                        if let Some(off) = pat[i + 1..].iter().rposition(|x| *x == 93) {
                            let _ = off;
                        }
                        s.push(*rng.pick(&[97, 98, 99, 65, 66, 67, 45, 93, 33, 49, 46, 91]));
                        let mut j = i + 1;
                        if j < pat.len() && pat[j] == 33 {
                            j += 1;
                        }
                        if j < pat.len() && pat[j] == 93 {
                            j += 1;
                        }
                        while j < pat.len() && pat[j] != 93 {
                            if pat[j] == 91 && j + 1 < pat.len() && pat[j + 1] == 58 {
                                while j + 1 < pat.len() && !(pat[j] == 58 && pat[j + 1] == 93) {
                                    j += 1;
                                }
                                j += 1;
                            }
                            j += 1;
                        }
                        if j < pat.len() && rng.chance(4, 5) {
                            i = j;
                        }
                    }
                    _ => s.push(if rng.chance(1, 10) { *rng.pick(&lits) } else { c }),
                }
                i += 1;
            }
            if rng.chance(1, 6) {
                s.push(*rng.pick(&lits));
            }
            if rng.chance(1, 6) && !s.is_empty() {
                s.remove(0);
            }
            if rng.chance(1, 8) {
                for c in s.iter_mut() {
                    if (97..=122).contains(c) {
                        *c -= 32;
                    } else if (65..=90).contains(c) {
                        *c += 32;
                    }
                }
            }
            if !s.is_empty() && !subjects.contains(&s) {
                subjects.push(s);
            }
        }
        // which non-ASCII characters are in [:alpha:] etc. is a matter of locale: keep such cases ASCII
        let has_class = pat.windows(2).any(|w| w == [91, 58]);
        if has_class {
            for s in subjects.iter_mut() {
                for c in s.iter_mut() {
                    if *c >= 128 {
                        *c = 122;
                    }
                }
            }
            subjects.dedup();
            let mut seen: Vec<Vec<u32>> = vec![];
            subjects.retain(|s| {
                if seen.contains(s) {
                    false
                } else {
                    seen.push(s.clone());
                    true
                }
            });
        }
        let mut v = json!({"pat": pat, "fold": rng.chance(1, 3), "subjects": subjects, "both": rng.chance(1, 3)});
        if rootcase {
            let spells = ["R", "R/", "R/.", "R/..", "./R", "R/./", ".", "./", "R/sub", "R/sub/", "R/sub/..", "R/sub/.", "R//sub", "..", "R/./sub"];
            v["spells"] = json!(spells.iter().map(|x| str_to_json(x)).collect::<Vec<_>>());
        }
        v
    }

    fn same(&self, exp: &Value, obs: &Value) -> bool {
        if obs.get("panic").is_some() {
            return false;
        }
        let m: Vec<u64> = arr(&exp["m"]).iter().filter_map(|x| x.as_u64()).collect();
        let ok: Vec<bool> = arr(&obs["name_ok"]).iter().map(|b| b.as_bool().unwrap_or(false)).collect();
        let names: Vec<u64> = m.iter().copied().filter(|k| ok.get(*k as usize - 1).copied().unwrap_or(false)).collect();
        let get = |k: &str| -> Vec<u64> { arr(&obs[k]).iter().filter_map(|x| x.as_u64()).collect() };
        obs.get("exit").is_none() && get("lname") == m && get("name") == names && get("path") == names
    }

    fn corrupt(&self, obs: &Value) -> Option<Value> {
        let mut o = obs.clone();
        let mut l = arr(&o["lname"]);
        if l.is_empty() {
            l.push(json!(1));
        } else {
            l.pop();
        }
        o["lname"] = Value::Array(l);
        Some(o)
    }
}
