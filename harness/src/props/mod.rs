use crate::util::Rng;
use serde_json::Value;

pub mod p04;
pub mod p05;
pub mod p06;
pub mod p19;
pub mod p20;
pub mod pcli;
pub mod pdelete;
pub mod pexec;
pub mod pexpr;
pub mod pglob;
pub mod ppipe;
pub mod pnum;
pub mod pprintf;
pub mod psem;
pub mod pstat;
pub mod ptime;
pub mod pregex;
pub mod pwalk;
pub mod pwloop;
pub mod pxeloop;
pub mod pxloop;
pub mod pxsem;

/// One property's binding to the real code.
pub trait Prop {
    /// Run the real code on `input` and return what was observed.
    fn run(&mut self, input: &Value) -> Value;
    /// Generate the idx-th random input of a recording session.
    fn gen(&mut self, rng: &mut Rng, idx: usize, tier: &str) -> Value;
    /// Compare the specification's expectation with an observation (replay direction).
    fn same(&self, exp: &Value, obs: &Value) -> bool {
        exp == obs
    }
    /// Self-test: corrupt an observation so that the specification must reject it.
    fn corrupt(&self, _obs: &Value) -> Option<Value> {
        None
    }
}

pub fn get(name: &str) -> Option<Box<dyn Prop>> {
    match name {
        "C02" => Some(Box::new(pwalk::PWalk::new("C02"))),
        "C03" => Some(Box::new(pwalk::PWalk::new("C03"))),
        "C18" => Some(Box::new(pwalk::PWalk::new("C18"))),
        "C01" => Some(Box::new(pexpr::PExpr::new("C01"))),
        "C11" => Some(Box::new(pexpr::PExpr::new("C11"))),
        "C11o" => Some(Box::new(pcli::PCli::default())),
        "C12" => Some(Box::new(pglob::PGlob::default())),
        "C17" => Some(Box::new(pregex::PRegex::default())),
        "C14" => Some(Box::new(pnum::PNum::default())),
        "C15" => Some(Box::new(ptime::PTime::default())),
        "C16" => Some(Box::new(pprintf::PPrintf::default())),
        "C13" => Some(Box::new(pstat::PStat::default())),
        "C09" => Some(Box::new(pexec::PExec::new("C09"))),
        "C08" => Some(Box::new(pexec::PExec::new("C08"))),
        "C10" => Some(Box::new(pdelete::PDelete::default())),
        "C07" => Some(Box::new(ppipe::PPipe::default())),
        "C06" => Some(Box::new(p06::P06::default())),
        "SEM" => Some(Box::new(psem::PSem::default())),
        "XSEM" => Some(Box::new(pxsem::PXSem::default())),
        "XLOOP" => Some(Box::new(pxloop::PXLoop::default())),
        "WLOOP" => Some(Box::new(pwloop::PWLoop::default())),
        "ELOOP" => Some(Box::new(pxeloop::PXELoop::default())),
        "C04" => Some(Box::new(p04::P04::default())),
        "C05" => Some(Box::new(p05::P05::default())),
        "C19" => Some(Box::new(p19::P19::default())),
        "C20" => Some(Box::new(p20::P20::default())),
        _ => None,
    }
}
