//! Whole runs of xargs against the composed specification (spec/XargsSem.tla).
//! Input: {stdin:[bytes], delim (-1 default, else the byte; 0 is given as -0), n, L, s (0 = absent; counted as the
//!   specification counts: command word + initial arguments + appended arguments, each + 1), x, r, init:[bytes..],
//!   cmdlen, script:[outcome..], afile (input given with -a FILE), echo (no command)}
//! Observation: {argvs:[[bytes..]..], exit, stdout:[bytes]}
use super::Prop;
use crate::util::*;
use crate::xrun::*;
use serde_json::{json, Value};

pub struct PXSem {
    sb: Sandbox,
}

impl Default for PXSem {
    fn default() -> Self {
        PXSem { sb: Sandbox::new("pxsem") }
    }
}

impl Prop for PXSem {
    fn run(&mut self, input: &Value) -> Value {
        let stdin = json_to_bytes(&input["stdin"]);
        let mut o = XOpts::new(&stdin);
        let delim = input["delim"].as_i64().unwrap_or(-1);
        if delim == 0 {
            o.opts.push("-0".into());
        } else if delim > 0 {
            o.opts.push("-d".into());
            o.opts.push(match delim as u8 {
                b'\n' => "\\n".to_string(),
                b'\t' => "\\t".to_string(),
                b'\\' => "\\\\".to_string(),
                c => (c as char).to_string(),
            });
        }
        // -I R: one run per line, R replaced in the initial arguments
        let repl = input.get("repl").map(json_to_bytes).unwrap_or_default();
        if !repl.is_empty() {
            match input.get("replform").and_then(|f| f.as_u64()).unwrap_or(0) % 3 {
                1 if repl == b"{}" => o.opts.push("-i".into()),
                2 => o.opts.push(format!("--replace={}", String::from_utf8_lossy(&repl))),
                _ => {
                    o.opts.push("-I".into());
                    o.opts.push(String::from_utf8_lossy(&repl).into_owned());
                }
            }
        }
        for (k, flag) in [("n", "-n"), ("L", "-L"), ("s", "-s")] {
            let v = input[k].as_u64().unwrap_or(0);
            if v > 0 {
                o.opts.push(flag.into());
                o.opts.push(v.to_string());
            }
        }
        if input["x"].as_bool().unwrap_or(false) {
            o.opts.push("-x".into());
        }
        if input["r"].as_bool().unwrap_or(false) {
            o.opts.push("-r".into());
        }
        o.init = arr(&input["init"]).iter().map(json_to_bytes).collect();
        let script: Vec<i64> = arr(&input["script"]).iter().filter_map(|x| x.as_i64()).collect();
        if !script.is_empty() {
            o.script = Some(script);
        }
        if input.get("t").and_then(|b| b.as_bool()).unwrap_or(false) {
            o.opts.push("-t".into());
        }
        let procs = input.get("P").and_then(|p| p.as_u64()).unwrap_or(0);
        if procs > 0 {
            o.opts.push("-P".into());
            o.opts.push(procs.to_string());
        }
        o.arg_file = input.get("afile").and_then(|b| b.as_bool()).unwrap_or(false);
        o.no_cmd = input.get("echo").and_then(|b| b.as_bool()).unwrap_or(false);
        let r = run_xargs(&self.sb, &o);
        if looks_like_panic(&r) {
            return json!({"panic": true, "exit": r.exit});
        }
        json!({"argvs": r.execs.iter().map(|e| Value::Array(e.iter().map(|a| bytes_to_json(a)).collect())).collect::<Vec<_>>(), "exit": r.exit,
               "stdout": bytes_to_json(&r.stdout),
               // lines of the form [env -i VAR="..".. ]"COMMAND" "ARG".. on standard error: the command lines announced by -t
               "tlines": r.stderr.split(|b| *b == b'\n').filter(|l| l.first() == Some(&b'"') || l.starts_with(b"env -i ")).count()})
    }

    fn gen(&mut self, rng: &mut Rng, idx: usize, tier: &str) -> Value {
        // the input bytes come from the C05 generator (quotes, escapes, multi-byte, separators)
        let mut p5 = super::p05::P05::default();
        let v5 = p5.gen(rng, idx * 3 + 1, tier);
        let mut stdin = json_to_bytes(&v5["bytes"]);
        stdin.truncate(if tier == "thorough" { 300 } else { 120 });
        let delim = match rng.below(5) {
            0 => 0,
            1 => *rng.pick(&[10i64, 58, 9]),
            _ => -1,
        };
        if delim == 0 {
            for b in stdin.iter_mut() {
                if *b == b'\n' && rng.chance(1, 2) {
                    *b = 0;
                }
            }
        } else {
            // a NUL inside an argument could not be passed to the command
            for b in stdin.iter_mut() {
                if *b == 0 {
                    *b = b'0';
                }
            }
        }
        let mut init: Vec<Value> = vec![];
        for _ in 0..rng.below(3) {
            init.push(str_to_json(*rng.pick(&["-x", "lit", "a b", "é", "--"])));
        }
        let cmdlen = vrec_path().as_os_str().len();
        let base: usize = cmdlen + 1 + init.iter().map(|a| json_to_bytes(a).len() + 1).sum::<usize>();
        let n = if rng.chance(1, 3) { 1 + rng.below(4) } else { 0 };
        let l = if n == 0 && rng.chance(1, 3) { 1 + rng.below(3) } else { 0 };
        let s = if rng.chance(1, 4) { base + rng.below(30) } else { 0 };
        let mut script = vec![];
        if rng.chance(1, 2) {
            for _ in 0..rng.below(8) {
                script.push(*rng.pick(&[0i64, 0, 0, 1, 2, 125, 255, 1009, 1013]));
            }
        }
        let mut v = json!({"stdin": bytes_to_json(&stdin), "delim": delim, "n": n, "L": l, "s": s, "x": rng.chance(1, 5), "r": rng.chance(1, 4),
               "init": init, "cmdlen": cmdlen, "script": script, "afile": false, "echo": false, "t": false, "P": 0});
        if idx % 6 == 5 {
            // -I: lines (blanks inside do not split them), the replace string once, twice or not at all in each initial argument
            let r = *rng.pick(&["{}", "{}", "X", "%%", "{"]);
            let words = ["a", "b c", "d  e", "é", "x{y", "-n", "*", "{}", "z	w", "$HOME", "a;b"];
            let mut text = vec![];
            for _ in 0..rng.below(7) {
                text.extend(rng.pick(&words).as_bytes());
                text.extend(*rng.pick(&[b"\n" as &[u8], b"\n", b"\n\n", b"\n"]));
            }
            if rng.chance(1, 4) && !text.is_empty() {
                text.pop(); // the last line without its newline
            }
            let mut init: Vec<Value> = vec![];
            for _ in 0..1 + rng.below(3) {
                let pieces = ["", "p", "=", "--opt=", " ", r, r, r];
                let mut a = String::new();
                for _ in 0..1 + rng.below(3) {
                    a.push_str(*rng.pick(&pieces));
                }
                init.push(str_to_json(&a));
            }
            let d = if rng.chance(1, 4) { 0i64 } else { -1 };
            if d == 0 {
                for b in text.iter_mut() {
                    if *b == b'\n' {
                        *b = 0;
                    }
                }
            }
            v = json!({"stdin": bytes_to_json(&text), "delim": d, "n": 0, "L": 0, "s": 0, "x": false, "r": rng.chance(1, 3),
                       "init": init, "cmdlen": cmdlen, "script": v["script"].clone(), "afile": false, "echo": false, "t": false, "P": 0,
                       "repl": str_to_json(r), "replform": rng.below(3)});
            return v;
        }
        // one run in five uses what XargsSem describes beyond the listed properties (-a FILE, -t, -P, no command)
        let beyond = rng.chance(1, 5);
        if beyond {
            v["afile"] = json!(rng.chance(1, 2));
            v["t"] = json!(rng.chance(1, 2));
            v["P"] = json!(if rng.chance(1, 2) { 1 + rng.below(4) } else { 0 });
        }
        if beyond && rng.chance(1, 3) {
            // no command: xargs echoes (plain ASCII input, no -s, no initial arguments, nothing to fail)
            let ascii: Vec<u8> = stdin.iter().map(|b| if *b >= 128 { b'z' } else { *b }).collect();
            v["stdin"] = bytes_to_json(&ascii);
            v["echo"] = json!(true);
            v["init"] = json!([]);
            v["script"] = json!([]);
            v["s"] = json!(0);
        }
        v
    }

    fn corrupt(&self, obs: &Value) -> Option<Value> {
        let mut o = obs.clone();
        let mut out = json_to_bytes(&obs["stdout"]);
        if out.len() > 1 && obs["exit"].as_i64() == Some(0) {
            // what xargs echoed: one byte less
            out.remove(out.len() / 2);
            o["stdout"] = bytes_to_json(&out);
            return Some(o);
        }
        o["exit"] = json!(if obs["exit"].as_i64() == Some(0) { 123 } else { 0 });
        Some(o)
    }
}
