//! C10: -delete.  Input (spec/FindActions.tla): {tree, roots, cfg, pre}
//! Observation: {matched:[paths] (twin tree: find ROOTS -depth EXPR -print0), deleted:[paths] (-delete -printf after it),
//!   left:[bool per node] (lstat after the run), exit, diag}
use super::pexec::pre_args;
use super::pprintf::{depth_args, mode_args};
use super::Prop;
use crate::findrun::*;
use crate::tree::*;
use crate::util::*;
use serde_json::{json, Value};

pub struct PDelete {
    sb: Sandbox,
    counter: u64,
}

impl Default for PDelete {
    fn default() -> Self {
        PDelete { sb: Sandbox::new("pdelete"), counter: 0 }
    }
}

impl Prop for PDelete {
    fn run(&mut self, input: &Value) -> Value {
        let tree = parse_tree(&input["tree"]);
        let cfg = &input["cfg"];
        let mut base: Vec<String> = vec![];
        mode_args(cfg, &mut base);
        for r in arr(&input["roots"]) {
            base.push(json_to_string(&r["spell"]));
        }
        depth_args(cfg, &mut base);
        base.push("-sorted".into());
        let mut pre: Vec<String> = vec![];
        pre_args(&input["pre"], &mut pre);
        // "TEST -o -delete": the action is reached where the test is false (and -delete still implies -depth)
        if input["pre"].get("neg").and_then(|n| n.as_bool()).unwrap_or(false) && !pre.is_empty() {
            // "TEST -prune -o -delete": -delete implies -depth for the whole expression, also for a -prune written before
            // it - which therefore changes nothing
            if input.get("prune").and_then(|p| p.as_bool()).unwrap_or(false) {
                pre.push("-prune".into());
            }
            pre.push("-o".into());
        }
        // twin A: what -depth EXPR -print reports
        let dir_a = fresh_case_dir(&self.sb, &mut self.counter);
        materialize(&dir_a, &tree);
        let mut a = base.clone();
        a.push("-depth".into());
        a.extend(pre.clone());
        a.push("-print0".into());
        let errf = dir_a.parent().unwrap().join("stderr.txt");
        let ra = run_find_inproc(&dir_a, &a, None, &errf);
        if ra.panicked {
            return json!({"panic": true, "args": a});
        }
        // twin B: the deletion
        let dir_b = fresh_case_dir(&self.sb, &mut self.counter);
        materialize(&dir_b, &tree);
        let mut b = base.clone();
        b.extend(pre);
        // "alt": what could not be removed is printed by another action of the same expression (-delete is false there);
        // the failure still decides find's exit status
        let alt = input.get("alt").and_then(|a| a.as_bool()).unwrap_or(false);
        let side = dir_b.parent().unwrap().join("notdeleted.nul");
        let _ = std::fs::remove_file(&side);
        if alt {
            b.push("(".into());
        }
        b.push("-delete".into());
        b.push("-printf".into());
        b.push("%p\\0".into());
        let altquit = input.get("altquit").and_then(|a| a.as_bool()).unwrap_or(false);
        if alt && altquit {
            // ( -delete -printf .. -o -quit ): the first removal that fails ends the run - with its failure counted
            b.extend(["-o".to_string(), "-quit".to_string(), ")".to_string()]);
        } else if alt {
            b.extend(["-o".to_string(), "-fprint0".to_string(), side.to_string_lossy().into_owned(), ")".to_string()]);
        }
        let errf = dir_b.parent().unwrap().join("stderr.txt");
        let rb = run_find_inproc(&dir_b, &b, None, &errf);
        if rb.panicked {
            return json!({"panic": true, "args": b});
        }
        let left: Vec<bool> = (1..=tree.len()).map(|i| dir_b.join(node_path(&tree, i)).symlink_metadata().is_ok()).collect();
        // nothing but the tree's own nodes may exist or have appeared
        let extra = count_entries(&dir_b) as i64 - left.iter().filter(|x| **x).count() as i64;
        let notdel = if alt && !altquit { Some(std::fs::read(&side).unwrap_or_default()) } else { None };
        let mut o = json!({"matched": split_nul(&ra.out).iter().map(|p| bytes_to_json(&unlossy(p, &tree))).collect::<Vec<_>>(),
               "deleted": split_nul(&rb.out).iter().map(|p| bytes_to_json(&unlossy(p, &tree))).collect::<Vec<_>>(),
               "left": left, "exit": rb.exit, "diag": !rb.stderr.is_empty(), "extra": extra, "exit_twin": ra.exit});
        if let Some(nd) = notdel {
            o["notdel"] = json!(split_nul(&nd).iter().map(|p| bytes_to_json(&unlossy(p, &tree))).collect::<Vec<_>>());
        }
        o
    }

    fn gen(&mut self, rng: &mut Rng, idx: usize, tier: &str) -> Value {
        let mut w = super::pwalk::PWalk::new("C02");
        let mut v = w.gen(rng, idx, tier);
        v["cfg"]["sorted"] = json!(true);
        v["cfg"]["prune"] = json!([]);
        // unreadable directories belong to C02 (they need the binary run as an unprivileged user)
        for t in v["tree"].as_array_mut().unwrap() {
            if let Some(o) = t.as_object_mut() {
                o.remove("noread");
            }
        }
        v["cfg"]["depth"] = json!(false);
        v.as_object_mut().unwrap().remove("form");
        if v["cfg"].get("modeflag").is_some() {
            v["cfg"].as_object_mut().unwrap().remove("modeflag");
        }
        // no starting point spelled through "..": the twin comparison needs paths inside the sandbox only
        let tree_copy = v["tree"].clone();
        for r in v["roots"].as_array_mut().unwrap() {
            let s = json_to_string(&r["spell"]);
            if s.contains("..") || s.is_empty() {
                let n = r["node"].as_u64().unwrap_or(0);
                if n > 0 {
                    let name = json_to_string(&tree_copy[n as usize - 1]["name"]);
                    r["spell"] = str_to_json(&if name.starts_with('-') { format!("./{}", name) } else { name });
                }
            }
        }
        v["pre"] = match rng.below(6) {
            0 => json!({"p": "type", "c": *rng.pick(&["f", "d", "l"])}),
            1 | 2 => json!({"p": "name", "pat": *rng.pick(&[vec![42u32], vec![97, 42], vec![63], vec![42, 98, 42], vec![91, 97, 45, 99, 93, 42], vec![101]])}),
            _ => json!({"p": "none"}),
        };
        if v["pre"]["p"] != "none" && rng.chance(1, 3) {
            v["pre"]["neg"] = json!(true);
        }
        v["alt"] = json!(rng.chance(1, 2));
        v["altquit"] = json!(v["alt"] == true && rng.chance(1, 3));
        v["prune"] = json!(rng.chance(1, 2));
        // names that are not valid UTF-8 are removed like any other (the test before -delete then looks at types only)
        if rng.chance(1, 4) && add_raw_names(&mut v, rng) && v["pre"]["p"] == "name" {
            v["pre"] = json!({"p": "none"});
        }
        v
    }

    fn same(&self, exp: &Value, obs: &Value) -> bool {
        if obs.get("panic").is_some() {
            return false;
        }
        let p = |v: &Value| -> Vec<Vec<u8>> { arr(v).iter().map(json_to_bytes).collect() };
        p(&exp["matched"]) == p(&obs["matched"])
            && p(&exp["deleted"]) == p(&obs["deleted"])
            && arr(&exp["left"]) == arr(&obs["left"])
            && obs["extra"].as_i64() == Some(0)
            && (obs["exit"].as_i64() != Some(0)) == exp["fail"].as_bool().unwrap_or(false)
            && (exp["fail"].as_bool() != Some(true) || obs["diag"].as_bool() == Some(true))
    }

    fn corrupt(&self, obs: &Value) -> Option<Value> {
        let mut o = obs.clone();
        let mut l = arr(&o["left"]);
        if l.is_empty() {
            return None;
        }
        let k = l.len() - 1;
        l[k] = json!(!l[k].as_bool().unwrap_or(false));
        o["left"] = json!(l);
        Some(o)
    }
}

fn count_entries(dir: &std::path::Path) -> usize {
    let mut n = 0;
    if let Ok(rd) = std::fs::read_dir(dir) {
        for e in rd.flatten() {
            n += 1;
            if e.file_type().map(|t| t.is_dir()).unwrap_or(false) {
                n += count_entries(&e.path());
            }
        }
    }
    n
}
