//! C17: -regex / -iregex select a path iff the whole path is in the pattern's language.
//! Input (spec/Regex.tla): {words:[{w:"rt",rt}|{w:"RE"}|{w:"lp"}..], pattern:[code points], icase,
//!   names:[[code points]..]  (entries below the starting point "r"; a name that is a proper prefix
//!   "x/" of another is a directory), and for recorded runs {ast, syn} from which `pattern` was rendered}
//! Observation: {m:[indices into <<"r">> \o names, 1-based]}
use super::pglob::cps_to_string;
use super::Prop;
use crate::findrun::*;
use crate::util::*;
use serde_json::{json, Value};
use std::collections::HashMap;
use std::path::PathBuf;

pub struct PRegex {
    sb: Sandbox,
    counter: u64,
    cache: HashMap<String, (PathBuf, HashMap<Vec<u8>, usize>)>,
}

impl Default for PRegex {
    fn default() -> Self {
        PRegex { sb: Sandbox::new("pregex"), counter: 0, cache: HashMap::new() }
    }
}

fn canon(syn: &str) -> &str {
    match syn {
        "ed" | "sed" => "posix-basic",
        s => s,
    }
}

fn lit(c: u32, syn: &str, out: &mut Vec<u32>) {
    let ext = canon(syn) == "posix-extended";
    let emacs = canon(syn) == "emacs";
    let special = [46, 91, 92, 42, 94, 36].contains(&c) || (ext && [43, 63, 40, 41, 124, 123, 125].contains(&c)) || (emacs && [43, 63].contains(&c));
    if special {
        out.push(92);
    }
    out.push(c);
}

fn tok(syn: &str, plain_in: &[&str], c: u32, out: &mut Vec<u32>) {
    if !plain_in.contains(&canon(syn)) {
        out.push(92);
    }
    out.push(c);
}

/// The harness's own rendering of a pattern tree; the trace specification re-renders the tree
/// (Concrete) and only judges records where both agree.
pub fn render(e: &Value, syn: &str, out: &mut Vec<u32>) {
    let t = e["t"].as_str().unwrap_or("");
    let is_atom = |x: &Value| matches!(x["t"].as_str().unwrap_or(""), "c" | "any" | "set" | "grp");
    let par = |x: &Value, out: &mut Vec<u32>| {
        if is_atom(x) {
            render(x, syn, out);
        } else {
            tok(syn, &["posix-extended"], 40, out);
            render(x, syn, out);
            tok(syn, &["posix-extended"], 41, out);
        }
    };
    match t {
        "c" => lit(e["c"].as_u64().unwrap_or(97) as u32, syn, out),
        "any" => out.push(46),
        "set" => {
            out.push(91);
            if e["neg"].as_bool().unwrap_or(false) {
                out.push(94);
            }
            let mut cs: Vec<u32> = arr(&e["cs"]).iter().filter_map(|c| c.as_u64()).map(|c| c as u32).collect();
            cs.sort();
            cs.dedup();
            // a '-' goes last so that it is a member, not a range operator
            let dash = cs.contains(&45);
            cs.retain(|c| *c != 45);
            out.extend(cs);
            if dash {
                out.push(45);
            }
            out.push(93);
        }
        "cat" => {
            for k in ["a", "b"] {
                if e[k]["t"] == "alt" {
                    tok(syn, &["posix-extended"], 40, out);
                    render(&e[k], syn, out);
                    tok(syn, &["posix-extended"], 41, out);
                } else {
                    render(&e[k], syn, out);
                }
            }
        }
        "alt" => {
            render(&e["a"], syn, out);
            tok(syn, &["posix-extended"], 124, out);
            render(&e["b"], syn, out);
        }
        "grp" => {
            tok(syn, &["posix-extended"], 40, out);
            render(&e["a"], syn, out);
            tok(syn, &["posix-extended"], 41, out);
        }
        "star" => {
            par(&e["a"], out);
            out.push(42);
        }
        "plus" => {
            par(&e["a"], out);
            tok(syn, &["posix-extended", "emacs"], 43, out);
        }
        "opt" => {
            par(&e["a"], out);
            tok(syn, &["posix-extended", "emacs"], 63, out);
        }
        _ => {
            par(&e["a"], out);
            tok(syn, &["posix-extended"], 123, out);
            out.extend(e["lo"].as_u64().unwrap_or(0).to_string().chars().map(|c| c as u32));
            out.push(44);
            out.extend(e["hi"].as_u64().unwrap_or(0).to_string().chars().map(|c| c as u32));
            tok(syn, &["posix-extended"], 125, out);
        }
    }
}

pub fn gen_ast(rng: &mut Rng, size: usize, alpha: &[u32], apo: bool, rep: bool) -> Value {
    if size <= 1 {
        return match rng.below(8) {
            0 => json!({"t": "any"}),
            1 => {
                let mut cs = vec![];
                for _ in 0..1 + rng.below(3) {
                    cs.push(*rng.pick(alpha));
                }
                cs.sort();
                cs.dedup();
                json!({"t": "set", "cs": cs, "neg": rng.chance(1, 3)})
            }
            _ => json!({"t": "c", "c": *rng.pick(alpha)}),
        };
    }
    match rng.below(10) {
        0 => json!({"t": "star", "a": gen_ast(rng, size - 1, alpha, apo, rep)}),
        1 if apo => json!({"t": "plus", "a": gen_ast(rng, size - 1, alpha, apo, rep)}),
        2 if apo => json!({"t": "opt", "a": gen_ast(rng, size - 1, alpha, apo, rep)}),
        3 => json!({"t": "grp", "a": gen_ast(rng, size - 1, alpha, apo, rep)}),
        4 if size <= 4 && rep => {
            let lo = rng.below(3);
            json!({"t": "rep", "a": gen_ast(rng, size - 1, alpha, apo, rep), "lo": lo, "hi": lo + rng.below(3)})
        }
        5 | 6 if apo => {
            let l = 1 + rng.below(size - 1);
            json!({"t": "alt", "a": gen_ast(rng, l, alpha, apo, rep), "b": gen_ast(rng, size - 1 - l.min(size - 2), alpha, apo, rep)})
        }
        _ => {
            let l = 1 + rng.below(size - 1);
            json!({"t": "cat", "a": gen_ast(rng, l, alpha, apo, rep), "b": gen_ast(rng, size - 1 - l.min(size - 2), alpha, apo, rep)})
        }
    }
}

/// A random member of (roughly) the language of `e`.
fn sample(rng: &mut Rng, e: &Value, alpha: &[u32], out: &mut Vec<u32>) {
    match e["t"].as_str().unwrap_or("") {
        "c" => out.push(e["c"].as_u64().unwrap() as u32),
        "any" => out.push(*rng.pick(alpha)),
        "set" => {
            let cs: Vec<u32> = arr(&e["cs"]).iter().filter_map(|c| c.as_u64()).map(|c| c as u32).collect();
            if e["neg"].as_bool().unwrap_or(false) {
                out.push(*rng.pick(alpha));
            } else {
                out.push(*rng.pick(&cs));
            }
        }
        "cat" => {
            sample(rng, &e["a"], alpha, out);
            sample(rng, &e["b"], alpha, out);
        }
        "alt" => {
            let left = rng.chance(1, 2);
            sample(rng, if left { &e["a"] } else { &e["b"] }, alpha, out)
        }
        "grp" => sample(rng, &e["a"], alpha, out),
        "star" => {
            for _ in 0..rng.below(3) {
                sample(rng, &e["a"], alpha, out);
            }
        }
        "plus" => {
            for _ in 0..1 + rng.below(2) {
                sample(rng, &e["a"], alpha, out);
            }
        }
        "opt" => {
            if rng.chance(1, 2) {
                sample(rng, &e["a"], alpha, out);
            }
        }
        _ => {
            let lo = e["lo"].as_u64().unwrap_or(0) as usize;
            let hi = e["hi"].as_u64().unwrap_or(0) as usize;
            for _ in 0..lo + rng.below(hi - lo + 1) {
                sample(rng, &e["a"], alpha, out);
            }
        }
    }
}

impl Prop for PRegex {
    fn run(&mut self, input: &Value) -> Value {
        let names: Vec<String> = arr(&input["names"]).iter().map(cps_to_string).collect();
        let key = serde_json::to_string(&input["names"]).unwrap();
        if !self.cache.contains_key(&key) {
            if self.cache.len() > 200 {
                self.cache.clear();
            }
            self.counter += 1;
            let dir = self.sb.path().join(format!("f{}", self.counter)).join("w");
            let _ = std::fs::remove_dir_all(&dir);
            std::fs::create_dir_all(dir.join("r")).unwrap();
            let mut index: HashMap<Vec<u8>, usize> = HashMap::new();
            index.insert(b"r".to_vec(), 1);
            for (k, n) in names.iter().enumerate() {
                let is_dir = names.iter().any(|o| o.starts_with(&format!("{}/", n)));
                let p = dir.join("r").join(n);
                if is_dir {
                    let _ = std::fs::create_dir_all(&p);
                } else {
                    if let Some(par) = p.parent() {
                        let _ = std::fs::create_dir_all(par);
                    }
                    let _ = std::fs::write(&p, b"");
                }
                index.insert(format!("r/{}", n).into_bytes(), k + 2);
            }
            self.cache.insert(key.clone(), (dir, index));
        }
        let (dir, index) = self.cache.get(&key).unwrap();
        let pattern = cps_to_string(&input["pattern"]);
        let icase = input["icase"].as_bool().unwrap_or(false);
        // the starting point as spelled: "r", "r/" or "r//" (the path the expression sees is the path as printed)
        let slashes = input.get("rootslash").and_then(|r| r.as_u64()).unwrap_or(0) as usize;
        let spell = format!("r{}", "/".repeat(slashes));
        let mut args: Vec<String> = vec![spell.clone()];
        for w in arr(&input["words"]) {
            match w["w"].as_str().unwrap_or("") {
                "rt" => {
                    args.push("-regextype".into());
                    args.push(w["rt"].as_str().unwrap_or("").to_string());
                }
                "RE" => {
                    args.push(if icase { "-iregex" } else { "-regex" }.into());
                    args.push(pattern.clone());
                }
                "lp" => args.push("(".into()),
                "rp" => args.push(")".into()),
                "or" => args.push("-o".into()),
                "true" => args.push("-true".into()),
                _ => {}
            }
        }
        args.push("-print0".into());
        let errf = dir.parent().unwrap().join("stderr.txt");
        let r = run_find_inproc(dir, &args, None, &errf);
        if r.panicked {
            return json!({"panic": true, "args": args});
        }
        // printed paths back to indices: "r//x" and "r/x" are the entry r/x, "r/" and "r//" the starting point
        let canon = |p: &Vec<u8>| -> Vec<u8> {
            if slashes == 0 {
                return p.clone();
            }
            let sp = spell.as_bytes();
            if p.as_slice() == sp {
                b"r".to_vec()
            } else if p.starts_with(sp) {
                let mut v = b"r/".to_vec();
                v.extend(&p[sp.len()..]);
                v
            } else {
                b"<not below the starting point as spelled>".to_vec()
            }
        };
        let mut m: Vec<usize> = split_nul(&r.out).iter().map(|p| index.get(&canon(p)).copied().unwrap_or(0)).collect();
        m.sort();
        let mut o = json!({"m": m});
        // both forms of the test on the same pattern in one expression: each keeps its own letter-case rule
        // ("-regex P -o -iregex P" selects what -iregex P selects; "! -iregex P -o -regex P" ... what is not only a
        // case variant) - only for the plain word sequences (one RE, optional -regextype in front)
        let plain = arr(&input["words"]).iter().all(|w| w["w"] == "rt" || w["w"] == "RE");
        if plain && input.get("both").and_then(|b| b.as_bool()).unwrap_or(false) {
            let mut a2: Vec<String> = vec![spell.clone()];
            for w in arr(&input["words"]) {
                if w["w"] == "rt" {
                    a2.push("-regextype".into());
                    a2.push(w["rt"].as_str().unwrap_or("").to_string());
                }
            }
            let (first, second) = if icase { ("-iregex", "-regex") } else { ("-regex", "-iregex") };
            a2.extend(["(".to_string(), first.to_string(), pattern.clone(), "-printf".to_string(), "1%p\\0".to_string(), ",".to_string(),
                       second.to_string(), pattern.clone(), "-printf".to_string(), "2%p\\0".to_string(), ")".to_string()]);
            let r2 = run_find_inproc(dir, &a2, None, &errf);
            if r2.panicked {
                return json!({"panic": true, "args": a2});
            }
            let recs = split_nul(&r2.out);
            let pick = |tag: u8| -> Vec<usize> {
                let mut v: Vec<usize> = recs.iter().filter(|r| r.first() == Some(&tag)).map(|r| index.get(&canon(&r[1..].to_vec())).copied().unwrap_or(0)).collect();
                v.sort();
                v
            };
            // m1: selected by the form the record asks for; m2: by the other form
            o["m1"] = json!(pick(b'1'));
            o["m2"] = json!(pick(b'2'));
        }
        if r.exit != 0 {
            o["exit"] = json!(r.exit);
            o["stderr"] = json!(String::from_utf8_lossy(&r.stderr[..r.stderr.len().min(200)]));
        }
        o
    }

    fn gen(&mut self, rng: &mut Rng, _idx: usize, tier: &str) -> Value {
        if _idx % 100 == 57 {
            // repetitions nested five deep: a backtracking engine gives up on short names (the recorded open finding;
            // before repair d01f5a8 it brought find down)
            let b = json!({"t": "c", "c": 66});
            let body = json!({"t": "star", "a": {"t": "plus", "a": {"t": "cat",
                "a": {"t": "plus", "a": {"t": "rep", "lo": 2, "hi": 4, "a": {"t": "plus", "a": {"t": "star", "a": b}}}},
                "b": {"t": "c", "c": 97}}}});
            let ast = json!({"t": "cat", "a": {"t": "c", "c": 114}, "b": {"t": "cat", "a": {"t": "c", "c": 47}, "b": body}});
            let mut pat = vec![];
            render(&ast, "posix-extended", &mut pat);
            let names: Vec<Vec<u32>> = ["BBBBBaBBBBBBBa", "BA", "BBBBBBBBBBBa", "BBBBBBBAA", "a"].iter().map(|n| n.chars().map(|c| c as u32).collect()).collect();
            return json!({"words": [{"w": "rt", "rt": "posix-extended"}, {"w": "RE"}], "ast": ast, "syn": "posix-extended", "pattern": pat, "icase": false,
                          "names": names, "rootslash": 0, "both": false});
        }
        let mut alpha: Vec<u32> = vec![97, 98, 99, 65, 66, 45, 95, 46, 43, 114];
        // one case in three over an alphabet with characters of two and three bytes: '.', a bracket expression and a
        // repetition are about characters, not bytes (no upper-case partners: -iregex stays about ASCII letters here)
        if rng.chance(1, 3) {
            alpha.extend([233u32, 26085, 233]);
        }
        // ... and one in five with a newline among the characters: '.' matches it in every syntax but emacs, a negated
        // bracket expression in all of them
        if rng.chance(1, 5) {
            alpha.extend([10u32, 10]);
        }
        let size = 1 + rng.below(if tier == "thorough" { 12 } else { 8 });
        let syn = *rng.pick(&["emacs", "posix-basic", "posix-extended", "grep", "ed", "sed", "none"]);
        let eff = if syn == "none" { "emacs" } else { syn };
        // mostly stay within what the syntax defines (the specification skips the rest)
        let strict = !rng.chance(1, 10);
        let apo = !strict || canon(eff) != "posix-basic";
        let rep = !strict || canon(eff) != "emacs";
        let body = gen_ast(rng, size, &alpha, apo, rep);
        let anchored = rng.chance(3, 4);
        let ast = if anchored { json!({"t": "cat", "a": {"t": "c", "c": 114}, "b": {"t": "cat", "a": {"t": "c", "c": 47}, "b": body.clone()}}) } else { body.clone() };
        let mut pat = vec![];
        render(&ast, eff, &mut pat);
        let mut names: Vec<Vec<u32>> = vec![];
        for _ in 0..4 + rng.below(10) {
            let mut s = vec![];
            sample(rng, &body, &alpha, &mut s);
            match rng.below(6) {
                0 => s.push(*rng.pick(&alpha)),
                1 if !s.is_empty() => {
                    s.remove(0);
                }
                2 => s.insert(0, *rng.pick(&alpha)),
                3 => {
                    for c in s.iter_mut() {
                        if (97..=122).contains(c) {
                            *c -= 32;
                        }
                    }
                }
                _ => {}
            }
            s.truncate(40);
            let st: String = s.iter().filter_map(|c| char::from_u32(*c)).collect();
            if !s.is_empty() && st != "." && st != ".." && !names.contains(&s) {
                names.push(s);
            }
        }
        // one case in ten: "anything, then this text" (.*TEXT) over paths with a newline in front of the text - whether
        // the anything may contain the newline is the syntax's business
        let (ast, pat, names) = if _idx % 10 == 4 {
            let tail: Vec<u32> = (0..1 + rng.below(3)).map(|_| *rng.pick(&[97u32, 98, 95, 45])).collect();
            let mut e = json!({"t": "c", "c": tail[tail.len() - 1]});
            for c in tail[..tail.len() - 1].iter().rev() {
                e = json!({"t": "cat", "a": {"t": "c", "c": c}, "b": e});
            }
            let ast = json!({"t": "cat", "a": {"t": "star", "a": {"t": "any"}}, "b": e});
            let mut pat = vec![];
            render(&ast, eff, &mut pat);
            let mut names: Vec<Vec<u32>> = vec![];
            for pre in [vec![], vec![120u32], vec![120, 10, 121], vec![10], vec![97, 98]] {
                let mut n = pre.clone();
                n.extend(&tail);
                if !names.contains(&n) {
                    names.push(n);
                }
            }
            names.push(vec![122]);
            (ast, pat, names)
        } else {
            (ast, pat, names)
        };
        let words = if syn == "none" { json!([{"w": "RE"}]) } else { json!([{"w": "rt", "rt": syn}, {"w": "RE"}]) };
        let mut v = json!({"words": words, "ast": ast, "syn": eff, "pattern": pat, "icase": rng.chance(1, 4), "names": names, "rootslash": 0, "both": rng.chance(1, 3)});
        if rng.chance(1, 6) {
            // the starting point spelled "r/" or "r//": the pattern is matched against exactly that
            let r = json!({"t": "c", "c": 114});
            let sl = json!({"t": "c", "c": 47});
            let ast = match rng.below(6) {
                0 => r.clone(),
                1 => json!({"t": "cat", "a": r, "b": sl}),
                2 => json!({"t": "cat", "a": r, "b": {"t": "star", "a": sl}}),
                3 => json!({"t": "cat", "a": {"t": "star", "a": {"t": "any"}}, "b": sl}),
                4 => json!({"t": "cat", "a": r, "b": {"t": "cat", "a": sl, "b": sl}}),
                _ => json!({"t": "set", "cs": [114, 47], "neg": false}),
            };
            let mut pat = vec![];
            render(&ast, eff, &mut pat);
            v["ast"] = ast;
            v["pattern"] = json!(pat);
            v["rootslash"] = json!(1 + rng.below(2));
        }
        v
    }

    fn same(&self, exp: &Value, obs: &Value) -> bool {
        if obs.get("panic").is_some() {
            return false;
        }
        obs.get("exit").is_none() && arr(&obs["m"]) == arr(&exp["m"])
    }

    fn corrupt(&self, obs: &Value) -> Option<Value> {
        let mut o = obs.clone();
        let mut l = arr(&o["m"]);
        if l.is_empty() {
            l.push(json!(1));
        } else {
            l.pop();
        }
        o["m"] = Value::Array(l);
        Some(o)
    }
}
