//! C13: tests that are functions of the entry's status record.
//! (A) {tree, roots, cfg, test:{p:"type"|"xtype",c} | {p:"perm",kind,m} | {p:"uid"|"gid"|"links"|"inum"|"size",form,n | nfrom,off}
//!      | {p:"empty"} | {p:"samefile",ref} | {p:"lname",pat}}            -> {paths, exit, attrs, n}
//! (B) {modes:"cover"|"all", cover:[..], kind, m, text}   (-perm over a directory of files carrying the modes)
//!                                                                       -> {octal:[modes selected], text:[modes selected]}
use super::pglob::cps_to_string;
use super::pprintf::{depth_args, measure, mode_args};
use super::Prop;
use crate::findrun::*;
use crate::tree::*;
use crate::util::*;
use serde_json::{json, Value};
use std::path::PathBuf;

pub struct PStat {
    sb: Sandbox,
    counter: u64,
    permdir: Option<(String, PathBuf)>,
}

impl Default for PStat {
    fn default() -> Self {
        PStat { sb: Sandbox::new("pstat"), counter: 0, permdir: None }
    }
}

/// The first name /etc/passwd (or /etc/group) gives for a numeric id.
fn name_of_id(user: bool, id: u64) -> Option<String> {
    let txt = std::fs::read_to_string(if user { "/etc/passwd" } else { "/etc/group" }).ok()?;
    txt.lines().find_map(|l| {
        let f: Vec<&str> = l.split(':').collect();
        if f.len() > 2 && f[2].parse::<u64>().ok() == Some(id) && !f[0].is_empty() && !f[0].chars().all(|c| c.is_ascii_digit()) {
            Some(f[0].to_string())
        } else {
            None
        }
    })
}

fn sign(form: &str) -> &'static str {
    match form {
        "gt" => "+",
        "lt" => "-",
        _ => "",
    }
}

impl PStat {
    fn run_perm(&mut self, input: &Value) -> Value {
        use std::os::unix::fs::PermissionsExt;
        let which = input["modes"].as_str().unwrap_or("cover").to_string();
        if self.permdir.as_ref().map(|p| p.0 != which).unwrap_or(true) {
            self.counter += 1;
            let dir = self.sb.path().join(format!("perm{}", self.counter)).join("w");
            std::fs::create_dir_all(dir.join("M")).unwrap();
            let modes: Vec<u64> = if which == "all" { (0..4096).collect() } else { arr(&input["cover"]).iter().filter_map(|m| m.as_u64()).collect() };
            std::fs::create_dir_all(dir.join("D")).unwrap();
            for m in modes {
                let p = dir.join("M").join(format!("m{:04}", m));
                std::fs::write(&p, b"").unwrap();
                std::fs::set_permissions(&p, std::fs::Permissions::from_mode(m as u32)).unwrap();
                // ... and a directory with the same mode (a symbolic X is x for directories)
                let d = dir.join("D").join(format!("m{:04}", m));
                std::fs::create_dir(&d).unwrap();
                std::fs::set_permissions(&d, std::fs::Permissions::from_mode(m as u32)).unwrap();
            }
            self.permdir = Some((which, dir));
        }
        let dir = self.permdir.as_ref().unwrap().1.clone();
        let prefix = match input["kind"].as_str().unwrap_or("exact") {
            "all" => "-",
            "any" => "/",
            _ => "",
        };
        let m = input["m"].as_u64().unwrap_or(0);
        let text = json_to_string(&input["text"]);
        let errf = dir.parent().unwrap().join("stderr.txt");
        let mut o = json!({});
        let mut operands = vec![("octal", format!("{}{:o}", prefix, m))];
        if !text.is_empty() {
            operands.push(("text", format!("{}{}", prefix, text)));
        }
        for (key, operand) in operands {
            let args: Vec<String> = vec!["M".into(), "-mindepth".into(), "1".into(), "-perm".into(), operand, "-print0".into()];
            let r = run_find_inproc(&dir, &args, None, &errf);
            if r.panicked {
                return json!({"panic": true, "args": args});
            }
            if r.exit != 0 {
                o["exit"] = json!(r.exit);
                o["args"] = json!(args);
            }
            let mut sel: Vec<u64> = split_nul(&r.out).iter().map(|p| String::from_utf8_lossy(p).strip_prefix("M/m").and_then(|x| x.parse().ok()).unwrap_or(99999)).collect();
            sel.sort();
            o[key] = json!(sel);
            // the same operand over the directories
            let args: Vec<String> = vec!["D".into(), "-mindepth".into(), "1".into(), "-maxdepth".into(), "1".into(), "-perm".into(), args[4].clone(), "-print0".into()];
            let r = run_find_inproc(&dir, &args, None, &errf);
            if r.panicked {
                return json!({"panic": true, "args": args});
            }
            let mut sel: Vec<u64> = split_nul(&r.out).iter().map(|p| String::from_utf8_lossy(p).strip_prefix("D/m").and_then(|x| x.parse().ok()).unwrap_or(99999)).collect();
            sel.sort();
            o[format!("{}_d", key)] = json!(sel);
        }
        o
    }
}

impl Prop for PStat {
    fn run(&mut self, input: &Value) -> Value {
        if input.get("modes").is_some() {
            return self.run_perm(input);
        }
        let dir = crate::tree::fresh_case_dir(&self.sb, &mut self.counter);
        let tree = parse_tree(&input["tree"]);
        materialize(&dir, &tree);
        let attrs = measure(&dir, &tree);
        let cfg = &input["cfg"];
        let t = &input["test"];
        let mut args: Vec<String> = vec![];
        mode_args(cfg, &mut args);
        for r in arr(&input["roots"]) {
            args.push(json_to_string(&r["spell"]));
        }
        depth_args(cfg, &mut args);
        args.push("-sorted".into());
        let p = t["p"].as_str().unwrap_or("");
        let mut n_used = json!(0);
        match p {
            "type" | "xtype" => {
                args.push(format!("-{}", p));
                args.push(t["c"].as_str().unwrap_or("f").into());
            }
            "perm" => {
                args.push("-perm".into());
                let prefix = match t["kind"].as_str().unwrap_or("exact") {
                    "all" => "-",
                    "any" => "/",
                    _ => "",
                };
                args.push(format!("{}{:o}", prefix, t["m"].as_u64().unwrap_or(0)));
            }
            "uid" | "gid" | "links" | "inum" | "size" => {
                let n = if let Some(k) = t.get("nfrom").and_then(|k| k.as_u64()) {
                    let key = match p {
                        "links" => "nlink",
                        "inum" => "ino",
                        x => x,
                    };
                    (attrs[k as usize - 1][key].as_i64().unwrap_or(0) + t["off"].as_i64().unwrap_or(0)).max(0) as u64
                } else {
                    t["n"].as_u64().unwrap_or(0)
                };
                n_used = json!(n);
                let form = t["form"].as_str().unwrap_or("eq");
                let by_name = if (p == "uid" || p == "gid") && form == "eq" && tree.len() % 2 == 0 { name_of_id(p == "uid", n) } else { None };
                if let Some(name) = by_name {
                    // the name the system's database gives for this id: the same test
                    args.push(if p == "uid" { "-user".into() } else { "-group".into() });
                    args.push(name);
                } else if (p == "uid" || p == "gid") && form == "eq" && n % 2 == 0 {
                    // the name form with a numeric operand is the same test
                    args.push(if p == "uid" { "-user".into() } else { "-group".into() });
                    args.push(n.to_string());
                } else {
                    args.push(format!("-{}", p));
                    args.push(format!("{}{}{}", sign(form), n, if p == "size" { "c" } else { "" }));
                }
            }
            "empty" => args.push("-empty".into()),
            "samefile" => {
                args.push("-samefile".into());
                args.push(node_path(&tree, t["ref"].as_u64().unwrap_or(1) as usize).to_string_lossy().into_owned());
            }
            "lname" => {
                args.push("-lname".into());
                args.push(cps_to_string(&t["pat"]));
            }
            _ => {}
        }
        args.push("-print0".into());
        let errf = dir.parent().unwrap().join("stderr.txt");
        let r = run_find_inproc(&dir, &args, None, &errf);
        if r.panicked {
            return json!({"panic": true, "args": args});
        }
        json!({"paths": split_nul(&r.out).iter().map(|p| bytes_to_json(p)).collect::<Vec<_>>(), "exit": r.exit, "attrs": attrs, "n": n_used})
    }

    fn gen(&mut self, rng: &mut Rng, idx: usize, tier: &str) -> Value {
        let mut w = super::pprintf::PPrintf::default();
        let mut v = w.gen(rng, idx, tier);
        v.as_object_mut().unwrap().remove("fmt");
        let n = arr(&v["tree"]).len();
        // other file types and hard links
        let mut files: Vec<usize> = vec![];
        for i in 0..n {
            v["tree"][i]["hl"] = json!(0);
            if v["tree"][i]["kind"] == "f" {
                match rng.below(8) {
                    0 => v["tree"][i]["kind"] = json!("p"),
                    1 => v["tree"][i]["kind"] = json!("s"),
                    2 if !files.is_empty() => {
                        let k = *rng.pick(&files);
                        v["tree"][i]["hl"] = json!(k + 1);
                        for key in ["size", "mode", "uid", "gid"] {
                            let x = v["tree"][k].get(key).cloned().unwrap_or(Value::Null);
                            if x.is_null() {
                                v["tree"][i].as_object_mut().unwrap().remove(key);
                            } else {
                                v["tree"][i][key] = x;
                            }
                        }
                    }
                    _ => {}
                }
                if v["tree"][i]["kind"] == "f" && v["tree"][i]["hl"] == 0 {
                    files.push(i);
                }
            }
        }
        let node = 1 + rng.below(n);
        let form = *rng.pick(&["eq", "gt", "lt"]);
        let test = match rng.below(12) {
            0 | 1 => json!({"p": "type", "c": *rng.pick(&["d", "f", "l", "p", "s"])}),
            2 | 3 => json!({"p": "xtype", "c": *rng.pick(&["d", "f", "l", "p", "s"])}),
            4 | 5 => json!({"p": "perm", "kind": *rng.pick(&["exact", "all", "any"]), "m": *rng.pick(&[0u64, 0o644, 0o755, 0o4000, 0o4755, 0o2750, 0o1777, 0o600, 0o7777, 0o7, 0o70, 0o700, 0o500, 0o111, 0o22, 0o777])}),
            6 => json!({"p": *rng.pick(&["uid", "gid"]), "form": form, "n": *rng.pick(&[0u64, 1, 1, 5, 100, 1000, 54321, 54322])}),
            7 => json!({"p": "links", "form": form, "nfrom": node, "off": rng.range(-1, 1)}),
            8 => json!({"p": "inum", "form": form, "nfrom": node, "off": rng.range(-1, 1)}),
            9 => json!({"p": "empty"}),
            10 => json!({"p": "samefile", "ref": node}),
            _ => json!({"p": "lname", "pat": *rng.pick(&[vec![42u32], vec![42, 97, 42], vec![110, 111, 42], vec![63, 63, 63, 42], vec![46, 46, 42], vec![42, 47, 42]])}),
        };
        v["test"] = test;
        v
    }

    fn same(&self, exp: &Value, obs: &Value) -> bool {
        if obs.get("panic").is_some() {
            return false;
        }
        if exp.get("sel").is_some() {
            let ok_text = obs.get("text").map(|t| arr(t) == arr(&exp["sel"])).unwrap_or(true);
            // directories: the octal operand selects the same modes, the symbolic one those of its value for a directory
            let ok_dirs = exp.get("seld").map(|sd| arr(&obs["octal_d"]) == arr(&exp["sel"]) && obs.get("text_d").map(|t| arr(t) == arr(sd)).unwrap_or(true)).unwrap_or(true);
            return obs.get("exit").is_none() && arr(&obs["octal"]) == arr(&exp["sel"]) && ok_text && ok_dirs;
        }
        let ep: Vec<Vec<u8>> = arr(&exp["paths"]).iter().map(json_to_bytes).collect();
        let op: Vec<Vec<u8>> = arr(&obs["paths"]).iter().map(json_to_bytes).collect();
        ep == op && obs["exit"].as_i64() == Some(0)
    }

    fn corrupt(&self, obs: &Value) -> Option<Value> {
        let mut o = obs.clone();
        let mut p = arr(&o["paths"]);
        if p.is_empty() {
            p.push(str_to_json("ghost"));
        } else {
            p.pop();
        }
        o["paths"] = Value::Array(p);
        Some(o)
    }
}
