//! Event-level traces of the xargs batching loop (spec/trace/T_XLoop.tla): the binary built with the verification
//! hook logs one event per step of process_input to FINDUTILS_VERIF_TRACE.
//! Input: as C04 (spec/XargsBatch.tla) {args:[{len,hard}], n, L, s, cmd, x, r, ninit, sepstyle, mb [, argmax] [, rlim: stack limit]} + script
//! Observation: {real:{cmd, s, rlim, envc, envbytes, fname} (bytes of command + initial arguments, the -s actually passed, the stack limit and
//!   the environment xargs was given), events:[..], exit}
use super::p04::synth_stdin;
use super::Prop;
use crate::util::*;
use crate::xrun::*;
use serde_json::{json, Value};

pub struct PXLoop {
    sb: Sandbox,
}

impl Default for PXLoop {
    fn default() -> Self {
        PXLoop { sb: Sandbox::new("pxloop") }
    }
}

impl Prop for PXLoop {
    fn run(&mut self, input: &Value) -> Value {
        let args: Vec<(usize, bool)> = arr(&input["args"]).iter().map(|a| (a["len"].as_u64().unwrap() as usize, a["hard"].as_bool().unwrap())).collect();
        let n = input["n"].as_u64().unwrap_or(0);
        let l = input["L"].as_u64().unwrap_or(0);
        let s = input["s"].as_i64().unwrap_or(0);
        let cmd = input["cmd"].as_i64().unwrap_or(0);
        let style = input.get("sepstyle").and_then(|v| v.as_u64()).unwrap_or(0);
        let ninit = input.get("ninit").and_then(|v| v.as_u64()).unwrap_or(1) as usize;
        let mut init: Vec<Vec<u8>> = (0..ninit).map(|i| format!("init{}", i).into_bytes()).collect();
        // -I: the initial arguments are templates - lit literal bytes and occ occurrences of {}
        let tmpl = input.get("tmpl").filter(|t| t.is_array());
        if let Some(t) = tmpl {
            init = arr(t).iter().map(|x| format!("{}{}", "a".repeat(x["lit"].as_u64().unwrap_or(0) as usize), "{}".repeat(x["occ"].as_u64().unwrap_or(0) as usize)).into_bytes()).collect();
        }
        let real_cmd: i64 = (vrec_path().as_os_str().len() as i64 + 1) + init.iter().map(|a| a.len() as i64 + 1).sum::<i64>();
        let mb = input.get("mb").and_then(|v| v.as_bool()).unwrap_or(false);
        let (stdin, _contents) = synth_stdin(&args, style, mb);
        let mut o = XOpts::new(&stdin);
        o.init = init;
        o.hooked = true;
        let mut real_s = 0;
        if tmpl.is_some() {
            o.opts.push("-I{}".into());
        } else if n > 0 {
            o.opts.push("-n".into());
            o.opts.push(n.to_string());
        }
        if l > 0 {
            o.opts.push("-L".into());
            o.opts.push(l.to_string());
        }
        if s > 0 {
            // (with templates the value is the one to pass, not relative to an abstract command size)
            real_s = if tmpl.is_some() { s } else { real_cmd + (s - cmd) };
            if real_s <= 0 {
                return json!({"unrepresentable": true, "events": [], "real": {"cmd": real_cmd, "cmd0": 0, "s": 0, "rlim": 0, "envc": 0, "envbytes": 0, "fname": 0}});
            }
            o.opts.push("-s".into());
            o.opts.push(real_s.to_string());
        }
        if input["x"].as_bool().unwrap_or(false) {
            o.opts.push("-x".into());
        }
        if input["r"].as_bool().unwrap_or(false) {
            o.opts.push("-r".into());
        }
        let script: Vec<i64> = arr(&input["script"]).iter().filter_map(|x| x.as_i64()).collect();
        if !script.is_empty() {
            o.script = Some(script);
        }
        // a known environment and a known stack limit: what the system grants is then a function of the input
        let rlim = input.get("rlim").and_then(|r| r.as_u64()).unwrap_or(8 << 20);
        o.rlimit_stack = Some(rlim);
        o.clear_env = true;
        for k in 0..input.get("envn").and_then(|r| r.as_u64()).unwrap_or(0) {
            o.env.push((format!("V{:04}", k), "x".repeat(10 + (k as usize % 7))));
        }
        let tracef = self.sb.path().join("events.ndjson");
        let _ = std::fs::remove_file(&tracef);
        o.env.push(("FINDUTILS_VERIF_TRACE".into(), tracef.to_string_lossy().into_owned()));
        let res = run_xargs(&self.sb, &o);
        if looks_like_panic(&res) {
            return json!({"panic": true, "exit": res.exit, "events": [], "real": {"cmd": real_cmd, "cmd0": 0, "s": real_s, "rlim": rlim, "envc": 0, "envbytes": 0, "fname": 0}});
        }
        let events: Vec<Value> = std::fs::read_to_string(&tracef).unwrap_or_default().lines().filter_map(|l| serde_json::from_str(l).ok()).collect();
        let (envc, envbytes) = res.env_stats.unwrap_or((0, 0));
        json!({"real": {"cmd": real_cmd, "cmd0": vrec_path().as_os_str().len() + 1, "s": real_s, "rlim": rlim, "envc": envc, "envbytes": envbytes, "fname": vrec_path().as_os_str().len() + 1}, "events": events, "exit": res.exit, "nexec": res.execs.len()})
    }

    fn gen(&mut self, rng: &mut Rng, idx: usize, tier: &str) -> Value {
        let mut p4 = super::p04::P04::default();
        let mut v = p4.gen(rng, idx, tier);
        if idx % 7 == 2 {
            // a small stack limit shrinks what the system grants: the system limiter is the one that cuts the lines
            let nargs = 1500 + rng.below(if tier == "thorough" { 6000 } else { 2000 });
            let maxlen = *rng.pick(&[100usize, 200, 300]);
            let args: Vec<Value> = (0..nargs).map(|_| json!({"len": 1 + rng.below(maxlen), "hard": rng.chance(1, 3)})).collect();
            v = json!({"args": args, "n": if rng.chance(1, 4) { 500 + rng.below(1500) } else { 0 }, "L": 0, "s": 0, "cmd": 100, "x": rng.chance(1, 4), "r": false,
                       "ninit": rng.below(3), "sepstyle": 0, "mb": false, "rlim": *rng.pick(&[512u64 * 1024, 1024 * 1024])});
        }
        if idx % 7 == 4 {
            // -I: every line is one command; what is measured before it is run is the command line after the substitution
            let vlen = vrec_path().as_os_str().len() as u64 + 1;
            let kind = rng.below(3);
            let (tmpl, lens, rlim, s): (Vec<(u64, u64)>, Vec<u64>, u64, u64) = match kind {
                0 => {
                    let t: Vec<(u64, u64)> = (0..1 + rng.below(3)).map(|_| (rng.below(6) as u64, *rng.pick(&[0u64, 1, 1, 2, 3]))).collect();
                    let raw: u64 = vlen + t.iter().map(|(l, o)| l + 2 * o + 1).sum::<u64>();
                    let s = if rng.chance(2, 3) { raw + 5 + rng.below(150) as u64 } else { 0 };
                    (t, (0..2 + rng.below(12)).map(|_| 1 + rng.below(60) as u64).collect(), 8 << 20, s)
                }
                1 => {
                    let t: Vec<(u64, u64)> = (0..1 + rng.below(2)).map(|_| (rng.below(3) as u64, *rng.pick(&[1u64, 1, 2, 3]))).collect();
                    (t, (0..2 + rng.below(5)).map(|_| *rng.pick(&[100u64, 20000, 40000, 42000, 43000, 64000, 126000])).collect(), 512 * 1024, 0)
                }
                _ => {
                    let t = vec![(*rng.pick(&[0u64, 1, 2]), *rng.pick(&[1u64, 2]))];
                    (t, (0..2 + rng.below(4)).map(|_| *rng.pick(&[100u64, 65534, 65535, 65536, 131069, 131070, 131071])).collect(), 8 << 20, 0)
                }
            };
            let args: Vec<Value> = lens.iter().map(|l| json!({"len": l, "hard": true})).collect();
            v = json!({"args": args, "n": 1, "L": 0, "s": s, "cmd": 0, "x": false, "r": rng.chance(1, 3), "ninit": tmpl.len(), "sepstyle": 0, "mb": false, "rlim": rlim,
                       "tmpl": tmpl.iter().map(|(l, o)| json!({"lit": l, "occ": o})).collect::<Vec<_>>()});
        }
        // outcomes of the successive invocations: mostly success, some failures, now and then a fatal one
        let mut script = vec![];
        if rng.chance(1, 2) {
            for _ in 0..rng.below(10) {
                script.push(*rng.pick(&[0i64, 0, 0, 0, 1, 2, 125, 126, 255, 1009, 1013]));
            }
        }
        v["script"] = json!(script);
        v["envn"] = json!(*rng.pick(&[0u64, 0, 3, 40, 400]));
        v
    }

    fn corrupt(&self, obs: &Value) -> Option<Value> {
        // one counter of one logged step is off by one, or the exit status is another one
        let mut o = obs.clone();
        let mut ev = arr(&o["events"]);
        // -I: the measurement of the substituted command line says something else
        if let Some(k) = ev.iter().rposition(|e| e["ev"] == "Subst") {
            if ev.len() % 3 != 0 {
                let sys = ev[k]["sys"].as_u64().unwrap_or(0);
                ev[k]["sys"] = json!(sys + 8);
                o["events"] = json!(ev);
                return Some(o);
            }
        }
        let k = ev.iter().rposition(|e| e["ev"] == "Accept" || e["ev"] == "Retry");
        match k {
            Some(k) if ev.len() % 2 == 0 => {
                let sys = ev[k]["sys"].as_u64().unwrap_or(0);
                ev[k]["sys"] = json!(sys + 1);
            }
            _ => {
                let last = ev.len().checked_sub(1)?;
                let code = ev[last]["code"].as_i64().unwrap_or(0);
                ev[last]["code"] = json!(if code == 0 { 123 } else { 0 });
            }
        }
        o["events"] = json!(ev);
        Some(o)
    }
}
