//! Event-level traces of find's -exec ... {} + command-line builder (spec/trace/T_ExecLoop.tla): the library is built
//! with the verification hook, which logs every entry handed to the expression, every path that joins the pending
//! command line, every dispatch (directory left / full / end) and how the command went.
//! Input: as C08's "multi" records (tree, roots, cfg, pre, fixed, execdir, script, quit), one action;
//! Observation: {events:[..], execs:[{argv, cwd}] as the recorder saw them, exit}
use super::pexec::{pre_args, PExec};
use super::pprintf::depth_args;
use super::Prop;
use crate::findrun::*;
use crate::tree::*;
use crate::util::*;
use crate::xrun::read_log;
use serde_json::{json, Value};
use std::os::unix::ffi::OsStrExt;

pub struct PXELoop {
    sb: Sandbox,
    counter: u64,
}

impl Default for PXELoop {
    fn default() -> Self {
        PXELoop { sb: Sandbox::new("pxeloop"), counter: 0 }
    }
}

fn rel_cwd(base: &std::path::Path, cwd: &[u8]) -> Vec<u8> {
    let b = base.as_os_str().as_bytes();
    if cwd == b {
        vec![]
    } else if cwd.starts_with(b) && cwd.get(b.len()) == Some(&b'/') {
        cwd[b.len() + 1..].to_vec()
    } else {
        let mut v = b"<outside>".to_vec();
        v.extend(cwd);
        v
    }
}

impl Prop for PXELoop {
    fn run(&mut self, input: &Value) -> Value {
        let dir = fresh_case_dir(&self.sb, &mut self.counter);
        let dir = dir.canonicalize().unwrap_or(dir);
        let tree = parse_tree(&input["tree"]);
        materialize(&dir, &tree);
        let execdir = input["execdir"].as_bool().unwrap_or(false);
        let log = dir.parent().unwrap().join("vrec.log");
        let _ = std::fs::remove_file(&log);
        let scriptf = dir.parent().unwrap().join("script.json");
        std::fs::write(&scriptf, serde_json::to_string(&input["script"]).unwrap()).unwrap();
        let mut args: Vec<String> = vec![];
        for r in arr(&input["roots"]) {
            args.push(json_to_string(&r["spell"]));
        }
        depth_args(&input["cfg"], &mut args);
        args.push("-sorted".into());
        pre_args(&input["pre"], &mut args);
        args.push(if execdir { "-execdir".into() } else { "-exec".into() });
        args.push(vrec_path().to_string_lossy().into_owned());
        for a in arr(&input["fixed"]) {
            args.push(json_to_string(&a));
        }
        args.push("{}".into());
        args.push("+".into());
        let q = json_to_string(&input["quit"]);
        if !q.is_empty() {
            args.push("-path".into());
            args.push(q);
            args.push("-quit".into());
        }
        // the recorder is started by find, which runs inside this process
        std::env::set_var("VREC_LOG", &log);
        std::env::set_var("VREC_SCRIPT", &scriptf);
        std::env::remove_var("VREC_MODE");
        std::env::remove_var("VREC_ECHO");
        let errf = dir.parent().unwrap().join("stderr.txt");
        findutils::find::verif::start();
        let r = run_find_inproc(&dir, &args, None, &errf);
        let events: Vec<Value> = findutils::find::verif::take()
            .iter()
            .filter_map(|l| serde_json::from_str::<Value>(l).ok())
            .map(|mut e| {
                if let Some(p) = e.get("path").and_then(|p| p.as_str()).map(unhex) {
                    e["path"] = bytes_to_json(&p);
                }
                if let Some(o) = e.as_object_mut() {
                    o.remove("id");
                }
                e
            })
            .collect();
        std::env::remove_var("VREC_SCRIPT");
        if r.panicked {
            return json!({"panic": true, "events": events});
        }
        let (execs, cwds, _) = read_log(&log);
        let ex: Vec<Value> = execs
            .iter()
            .zip(cwds.iter())
            .map(|(a, c)| json!({"argv": a.iter().map(|x| bytes_to_json(x)).collect::<Vec<_>>(), "cwd": bytes_to_json(&rel_cwd(&dir, c))}))
            .collect();
        json!({"events": events, "execs": ex, "exit": r.exit})
    }

    fn gen(&mut self, rng: &mut Rng, idx: usize, tier: &str) -> Value {
        // C08's generator, one action; the bulk cases (thousands of long names) are left to C08's own stage, the
        // cases with a few hundred long names under the default limits stay
        let mut p = PExec::new("C08");
        let mut k = idx * 3 + 1;
        loop {
            let mut v = p.gen(rng, k, tier);
            if v["mode"] == "multi" && v.get("rlimit_stack").is_none() && arr(&v["tree"]).len() <= 400 {
                v["two"] = json!(false);
                if v.get("quit").map(|q| q.is_null()).unwrap_or(true) {
                    v["quit"] = json!([]);
                }
                return v;
            }
            k += 1;
        }
    }

    fn corrupt(&self, obs: &Value) -> Option<Value> {
        // an event is missing, or an invocation lost its last argument
        let mut o = obs.clone();
        let mut ev = arr(&o["events"]);
        if let Some(k) = ev.iter().rposition(|e| e["ev"] == "XPush") {
            if ev.len() % 2 == 0 {
                ev.remove(k);
                o["events"] = json!(ev);
                return Some(o);
            }
        }
        let mut e = arr(&o["execs"]);
        if e.is_empty() {
            o["exit"] = json!(if obs["exit"].as_i64() == Some(0) { 1 } else { 0 });
        } else {
            let last = e.len() - 1;
            let mut argv = arr(&e[last]["argv"]);
            argv.pop();
            e[last]["argv"] = json!(argv);
            o["execs"] = json!(e);
        }
        Some(o)
    }
}
