//! C04: xargs batching. Input (see spec/XargsBatch.tla):
//!   {args:[{len,hard}], n, L, s, cmd, x, r [, ninit, sepstyle]}
//! Only s - cmd matters: the harness computes the real size of "recorder + initial
//! arguments" and passes -s real_cmd + (s - cmd).
//! Observation: {execs:[[index..]], exit, initial_ok}
use super::Prop;
use crate::util::*;
use crate::xrun::*;
use serde_json::{json, Value};

pub struct P04 {
    sb: Sandbox,
}

impl Default for P04 {
    fn default() -> Self {
        P04 { sb: Sandbox::new("p04") }
    }
}

/// Content of the k-th argument (1-based) with the given length: readable, and unique
/// whenever the length allows it.
pub fn arg_content(k: usize, len: usize, mb: bool) -> Vec<u8> {
    let id = format!("{}", k);
    let mut v: Vec<u8> = vec![];
    if mb && len >= 2 {
        // multi-byte characters: the byte length (what -s counts) differs from the
        // number of characters
        if len % 2 == 1 {
            v.push(b'a' + (k % 26) as u8);
        }
        while v.len() < len {
            v.extend(if (k + v.len()) % 3 == 0 { "é".as_bytes() } else { "ß".as_bytes() });
        }
        return v;
    }
    if len >= id.len() + 1 {
        v.push(b'a' + (k % 26) as u8);
        v.extend(id.as_bytes());
        while v.len() < len {
            v.push(b'x');
        }
    } else {
        for j in 0..len {
            v.push(b'a' + ((k + j * 7) % 26) as u8);
        }
    }
    v
}

pub fn synth_stdin(args: &[(usize, bool)], style: u64, mb: bool) -> (Vec<u8>, Vec<Vec<u8>>) {
    let mut out = vec![];
    let mut contents = vec![];
    let mut r = Rng::new(style);
    let n = args.len();
    for (k, (len, hard)) in args.iter().enumerate() {
        let c = arg_content(k + 1, *len, mb && k % 2 == 0);
        // leading junk before the very first argument sometimes
        if k == 0 && style != 0 && r.chance(1, 4) {
            out.extend(b" \n\t ");
        }
        out.extend(&c);
        contents.push(c);
        let last = k + 1 == n;
        if *hard {
            let seps: [&[u8]; 3] = [b"\n", b"\n\n", b"\n \n"];
            out.extend(if style == 0 { seps[0] } else { seps[r.below(3)] });
        } else if !last || style != 0 && r.chance(1, 2) {
            // soft: a blank (possibly followed by a newline: the line continues)
            let seps: [&[u8]; 4] = [b" ", b"\t", b"  ", b" \n"];
            out.extend(if style == 0 { seps[0] } else { seps[r.below(4)] });
        }
    }
    (out, contents)
}

impl Prop for P04 {
    fn run(&mut self, input: &Value) -> Value {
        let args: Vec<(usize, bool)> = arr(&input["args"])
            .iter()
            .map(|a| (a["len"].as_u64().unwrap() as usize, a["hard"].as_bool().unwrap()))
            .collect();
        let n = input["n"].as_u64().unwrap_or(0);
        let l = input["L"].as_u64().unwrap_or(0);
        let s = input["s"].as_i64().unwrap_or(0);
        let cmd = input["cmd"].as_i64().unwrap_or(0);
        let x = input["x"].as_bool().unwrap_or(false);
        let r = input["r"].as_bool().unwrap_or(false);
        let style = input.get("sepstyle").and_then(|v| v.as_u64()).unwrap_or(0);
        let ninit = input.get("ninit").and_then(|v| v.as_u64()).unwrap_or(1) as usize;
        let init: Vec<Vec<u8>> = (0..ninit).map(|i| format!("init{}", i).into_bytes()).collect();
        let real_cmd: i64 = (vrec_path().as_os_str().len() as i64 + 1) + init.iter().map(|a| a.len() as i64 + 1).sum::<i64>();
        let mb = input.get("mb").and_then(|v| v.as_bool()).unwrap_or_else(|| {
            (args.iter().map(|a| a.0).sum::<usize>() as u64 + n + l) % 2 == 1
        });
        let (stdin, contents) = synth_stdin(&args, style, mb);
        let mut o = XOpts::new(&stdin);
        o.init = init.clone();
        if n > 0 {
            o.opts.push("-n".into());
            o.opts.push(n.to_string());
        }
        if l > 0 {
            o.opts.push("-L".into());
            o.opts.push(l.to_string());
        }
        if s > 0 {
            let real_s = real_cmd + (s - cmd);
            if real_s <= 0 {
                return json!({"unrepresentable": true});
            }
            o.opts.push("-s".into());
            o.opts.push(real_s.to_string());
        }
        if x {
            o.opts.push("-x".into());
        }
        if r {
            o.opts.push("-r".into());
        }
        let res = run_xargs(&self.sb, &o);
        if looks_like_panic(&res) {
            return json!({"panic": true, "exit": res.exit, "stderr": String::from_utf8_lossy(&res.stderr)});
        }
        // identify appended arguments by position in the input sequence
        let mut initial_ok = true;
        let mut pos = 0usize;
        let mut execs = vec![];
        for e in &res.execs {
            if e.len() < init.len() || e[..init.len()] != init[..] {
                initial_ok = false;
                execs.push(json!([-1]));
                continue;
            }
            let mut b = vec![];
            for a in &e[init.len()..] {
                if pos < contents.len() && *a == contents[pos] {
                    b.push(json!(pos + 1));
                } else {
                    b.push(json!(-((pos + 1) as i64)));
                }
                pos += 1;
            }
            execs.push(Value::Array(b));
        }
        json!({"execs": execs, "exit": res.exit, "initial_ok": initial_ok})
    }

    fn gen(&mut self, rng: &mut Rng, idx: usize, tier: &str) -> Value {
        if idx % 23 == 5 {
            // one argument at the system's limit for a single string (131072 bytes with its terminator): the longest
            // one that fits is delivered, one byte more ends the run with status 1 - it is not handed to exec to fail there
            let long = *rng.pick(&[131070usize, 131071, 131071, 131072, 131072, 131073, 150000]);
            let mut args: Vec<Value> = (0..rng.below(4)).map(|_| json!({"len": 1 + rng.below(5), "hard": rng.chance(1, 2)})).collect();
            args.push(json!({"len": long, "hard": true}));
            for _ in 0..rng.below(3) {
                args.push(json!({"len": 1 + rng.below(5), "hard": rng.chance(1, 2)}));
            }
            return json!({"args": args, "n": *rng.pick(&[0u64, 0, 1, 2]), "L": 0, "s": 0, "cmd": 100, "x": false, "r": false,
                          "ninit": rng.below(2), "sepstyle": 0, "mb": false, "argmax": 131072});
        }
        let big = idx % 17 == 3;
        let nargs = if big { 200 + rng.below(if tier == "thorough" { 3000 } else { 800 }) } else { rng.below(40) };
        let maxlen = *rng.pick(&[1usize, 2, 3, 8, 20, 60]);
        let phard = *rng.pick(&[0u64, 1, 3, 5, 9, 10]);
        let args: Vec<Value> = (0..nargs)
            .map(|_| json!({"len": 1 + rng.below(maxlen), "hard": rng.chance(phard, 10)}))
            .collect();
        let total: usize = args.iter().map(|a| a["len"].as_u64().unwrap() as usize + 1).sum();
        let (mut n, mut l) = (0, 0);
        match rng.below(4) {
            0 => n = 1 + rng.below(if big { 300 } else { 6 }),
            1 => l = 1 + rng.below(if big { 50 } else { 4 }),
            _ => {}
        }
        let cmd = 100; // abstract; only s - cmd matters
        let s = match rng.below(4) {
            0 => 0,
            1 => cmd + 1 + rng.below(2 * maxlen + 4) as i64,
            2 => cmd + 1 + rng.below(total.max(2)) as i64,
            _ => cmd + 1 + rng.below(10 * maxlen + 20) as i64,
        };
        json!({"args": args, "n": n, "L": l, "s": s, "cmd": cmd, "x": rng.chance(1, 3), "r": rng.chance(1, 3),
               "ninit": rng.below(3), "sepstyle": 1 + rng.below(1000), "mb": rng.chance(1, 3)})
    }

    fn same(&self, exp: &Value, obs: &Value) -> bool {
        if obs.get("unrepresentable").is_some() {
            return true;
        }
        if obs["initial_ok"].as_bool() != Some(true) {
            return false;
        }
        arr(&exp["outcomes"]).iter().any(|o| arr(&o["execs"]) == arr(&obs["execs"]) && o["exit"] == obs["exit"])
    }

    fn corrupt(&self, obs: &Value) -> Option<Value> {
        let mut o = obs.clone();
        let mut ex = arr(&o["execs"]);
        // move the last argument of the first non-empty batch into a batch of its own
        for i in 0..ex.len() {
            let b = arr(&ex[i]);
            if b.len() >= 2 {
                let last = b[b.len() - 1].clone();
                ex[i] = Value::Array(b[..b.len() - 1].to_vec());
                ex.insert(i + 1, json!([last]));
                o["execs"] = Value::Array(ex);
                return Some(o);
            }
        }
        o["exit"] = json!(if obs["exit"] == json!(0) { 1 } else { 0 });
        Some(o)
    }
}
