//! Event-level traces of find's walk loop (spec/trace/T_WalkLoop.tla): the library is built with the verification
//! hook, which logs every entry handed to the expression, every walk error and every skip_current_dir().
//! Input: as C03 (tree, starting points, cfg with prune paths, -sorted); Observation: {events:[..], exit}
use super::pwalk::{walk_args, PWalk};
use super::Prop;
use crate::findrun::*;
use crate::tree::*;
use crate::util::*;
use serde_json::{json, Value};

pub struct PWLoop {
    sb: Sandbox,
    counter: u64,
}

impl Default for PWLoop {
    fn default() -> Self {
        PWLoop { sb: Sandbox::new("pwloop"), counter: 0 }
    }
}

impl Prop for PWLoop {
    fn run(&mut self, input: &Value) -> Value {
        let dir = fresh_case_dir(&self.sb, &mut self.counter);
        let tree = parse_tree(&input["tree"]);
        materialize(&dir, &tree);
        if mount_failed() {
            return json!({"nomount": true, "events": []});
        }
        let args = walk_args(input, None);
        let errf = dir.parent().unwrap().join("stderr.txt");
        findutils::find::verif::start();
        let r = run_find_inproc(&dir, &args, None, &errf);
        let events: Vec<Value> = findutils::find::verif::take()
            .iter()
            .filter_map(|l| serde_json::from_str::<Value>(l).ok())
            .map(|mut e| {
                if let Some(p) = e.get("path").and_then(|p| p.as_str()).map(unhex) {
                    e["path"] = bytes_to_json(&p);
                }
                e
            })
            .collect();
        if r.panicked {
            return json!({"panic": true, "events": events});
        }
        json!({"events": events, "exit": r.exit})
    }

    fn gen(&mut self, rng: &mut Rng, idx: usize, tier: &str) -> Value {
        // trees, follow modes, depth ranges, prune sets and mount points as for C03; one starting point, sorted
        let mut w = PWalk::new("C03");
        let mut v = w.gen(rng, idx * 4 + 2, tier);
        // several starting points, also one that does not exist; prune paths are per starting point spelling
        v["cfg"]["sorted"] = json!(true);
        if v.get("files0").is_some() {
            v.as_object_mut().unwrap().remove("files0");
            v.as_object_mut().unwrap().remove("final_nul");
        }
        let roots: Vec<Value> = arr(&v["roots"]).into_iter().filter(|r| !arr(&r["spell"]).is_empty()).collect();
        v["roots"] = json!(if roots.is_empty() { vec![json!({"spell": str_to_json("missing"), "node": 0})] } else { roots });
        if idx % 5 == 2 {
            let mut r = arr(&v["roots"]);
            r.insert(rng.below(r.len() + 1), json!({"spell": str_to_json("nonexistent"), "node": 0}));
            v["roots"] = json!(r);
        }
        v.as_object_mut().unwrap().remove("byino");
        v
    }

    fn corrupt(&self, obs: &Value) -> Option<Value> {
        // one evaluated entry less, or a skip that was not made
        let mut o = obs.clone();
        let mut ev = arr(&o["events"]);
        let k = ev.iter().rposition(|e| e["ev"] == "Eval")?;
        if ev.len() % 2 == 0 {
            ev.remove(k);
        } else {
            ev.insert(k + 1, json!({"ev": "Skip"}));
            if ev.get(k + 2).map(|e| e["ev"] == "Skip").unwrap_or(false) {
                ev.remove(k + 2);
                ev.remove(k + 1);
            }
        }
        o["events"] = json!(ev);
        Some(o)
    }
}
