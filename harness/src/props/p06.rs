//! C06: xargs never builds a command line the operating system rejects.
//! Input: {mode:"run", groups:[{count, len}..] (arguments in this order, contents deterministic), opts:[..],
//!         env:{count, size}, rlim (bytes; 0 = unlimited),
//!         cmdpath:{len, via_path} (optional: the recorder is reached through a path of about len bytes - given as the command,
//!                  or as a bare name found through a PATH directory of that length),
//!         repl:{pre, times} (optional: -I{} with the single initial argument "x"*pre ++ "{}"*times)}
//!     -> {execs:[{argc, argbytes, maxarg, envc, envbytes, fname}], exit, e2big, delivered, total, order_ok}
//!   or   {mode:"probe", argc, len, env:{count,size}, rlim}   one direct execve of the recorder
//!     -> {ok, x:{argc, argbytes, maxarg, envc, envbytes, fname}}
use super::Prop;
use crate::util::*;
use crate::xrun::*;
use serde_json::{json, Value};

pub struct P06 {
    sb: Sandbox,
}

impl Default for P06 {
    fn default() -> Self {
        P06 { sb: Sandbox::new("p06") }
    }
}

fn arg_bytes_mb(idx: usize, len: usize) -> Vec<u8> {
    // three-byte characters (len is in bytes; the remainder is filled with ASCII)
    let chars = ["\u{65e5}", "\u{672c}", "\u{8a9e}", "\u{20ac}"];
    let mut v = Vec::with_capacity(len);
    let mut k = idx;
    while v.len() + 3 <= len {
        v.extend(chars[k % 4].as_bytes());
        k += 1;
    }
    while v.len() < len {
        v.push(b'z');
    }
    v
}

fn arg_bytes(idx: usize, len: usize) -> Vec<u8> {
    // deterministic, never empty, no NUL/newline/quotes
    let mut v = Vec::with_capacity(len);
    let mut x = idx as u64 * 2654435761 + 12345;
    for _ in 0..len {
        x = x.wrapping_mul(6364136223846793005).wrapping_add(1442695040888963407);
        v.push(b'a' + ((x >> 33) % 26) as u8);
    }
    v
}

fn fnv(args: &[Vec<u8>]) -> String {
    let mut h: u64 = 0xcbf29ce484222325;
    for a in args {
        for b in a.iter().chain([0u8].iter()) {
            h ^= *b as u64;
            h = h.wrapping_mul(0x100000001b3);
        }
    }
    format!("{:016x}", h)
}

fn env_vars(e: &Value) -> Vec<(String, String)> {
    let count = e["count"].as_u64().unwrap_or(0) as usize;
    let size = e["size"].as_u64().unwrap_or(1) as usize;
    (0..count).map(|k| (format!("V{:06}", k), "x".repeat(size))).collect()
}

impl Prop for P06 {
    fn run(&mut self, input: &Value) -> Value {
        let rlim = input["rlim"].as_u64().unwrap_or(8 << 20);
        let rl = if rlim == 0 { libc::RLIM_INFINITY } else { rlim };
        let vrec = vrec_path();
        let vlen = vrec.as_os_str().len();
        if input["mode"] == "probe" {
            // one execve of the recorder itself, through std::process::Command, under the stack limit
            use std::os::unix::process::CommandExt;
            let argc = input["argc"].as_u64().unwrap_or(1) as usize;
            let len = input["len"].as_u64().unwrap_or(1) as usize;
            let log = self.sb.path().join("probe.log");
            let _ = std::fs::remove_file(&log);
            let mut c = std::process::Command::new(&vrec);
            c.env_clear();
            c.env("VREC_LOG", &log).env("VREC_MODE", "sum");
            for (k, v) in env_vars(&input["env"]) {
                c.env(k, v);
            }
            let a = "y".repeat(len);
            for _ in 0..argc {
                c.arg(&a);
            }
            unsafe {
                c.pre_exec(move || {
                    let r = libc::rlimit { rlim_cur: rl, rlim_max: rl };
                    libc::setrlimit(libc::RLIMIT_STACK, &r);
                    Ok(())
                });
            }
            c.stdout(std::process::Stdio::null()).stderr(std::process::Stdio::null());
            let res = c.status();
            let ok = res.map(|s| s.success()).unwrap_or(false);
            let (_, _, sums) = read_log(&log);
            let (envc, envbytes) = sums.first().map(|s| (s["envc"].as_u64().unwrap_or(0), s["envbytes"].as_u64().unwrap_or(0))).unwrap_or_else(|| {
                let ev = env_vars(&input["env"]);
                let extra = [("VREC_LOG", log.to_string_lossy().len()), ("VREC_MODE", 3)];
                ((ev.len() + 2) as u64, (ev.iter().map(|(k, v)| k.len() + v.len() + 2).sum::<usize>() + extra.iter().map(|(k, l)| k.len() + l + 2).sum::<usize>()) as u64)
            });
            return json!({"ok": ok, "x": {"argc": argc + 1, "argbytes": vlen + 1 + argc * (len + 1), "maxarg": len.max(vlen), "envc": envc, "envbytes": envbytes, "fname": vlen + 1}});
        }
        // ---- a run of the real xargs
        let mut args: Vec<Vec<u8>> = vec![];
        for g in arr(&input["groups"]) {
            let (count, len) = (g["count"].as_u64().unwrap_or(0) as usize, g["len"].as_u64().unwrap_or(1) as usize);
            let mb = g.get("mb").and_then(|m| m.as_bool()).unwrap_or(false);
            for _ in 0..count {
                let k = args.len();
                args.push(if mb { arg_bytes_mb(k, len) } else { arg_bytes(k, len) });
            }
        }
        let mut stdin: Vec<u8> = Vec::new();
        for a in &args {
            stdin.extend(a);
            stdin.push(0);
        }
        let mut o = XOpts::new(&stdin);
        o.opts = vec!["-0".into()];
        // the recorder behind a long path: execve copies the name of the file it runs next to the arguments
        let mut vlen = vlen; // bytes of argv[0]
        let mut fname = vlen + 1; // bytes of the file name the kernel is given, with terminator
        let mut path_env: Option<String> = None;
        let want = input["cmdpath"]["len"].as_u64().unwrap_or(0) as usize;
        if want > 0 {
            let mut dir = self.sb.path().join("lp");
            let _ = std::fs::remove_dir_all(&dir);
            while dir.as_os_str().len() + 201 + 6 < want {
                dir = dir.join("d".repeat(200));
            }
            let rest = want.saturating_sub(dir.as_os_str().len() + 1 + 6);
            if rest > 1 {
                dir = dir.join("e".repeat((rest - 1).min(250)));
            }
            std::fs::create_dir_all(&dir).unwrap();
            let link = dir.join("vrecl");
            let _ = std::os::unix::fs::symlink(&vrec, &link);
            if input["cmdpath"]["via_path"].as_bool().unwrap_or(false) {
                o.cmd = Some("vrecl".into());
                vlen = 5;
                path_env = Some(dir.to_string_lossy().into_owned());
            } else {
                vlen = link.as_os_str().len();
                o.cmd = Some(link.clone());
            }
            fname = link.as_os_str().len() + 1;
        }
        let repl = input.get("repl").filter(|r| r.is_object()).map(|r| (r["pre"].as_u64().unwrap_or(0) as usize, r["times"].as_u64().unwrap_or(1) as usize));
        if repl.is_some() {
            o.opts.push("-I{}".into());
        }
        for x in arr(&input["opts"]) {
            o.opts.push(x.as_str().unwrap_or("").to_string());
        }
        // fixed initial arguments of the command: they are part of every command line
        let ninit = input["init"]["count"].as_u64().unwrap_or(0) as usize;
        let init: Vec<Vec<u8>> = (0..ninit).map(|k| format!("I{:04}{}", k, "i".repeat((input["init"]["len"].as_u64().unwrap_or(5) as usize).saturating_sub(5))).into_bytes()).collect();
        let init: Vec<Vec<u8>> = match repl {
            Some((pre, times)) => vec![format!("{}{}", "x".repeat(pre), "{}".repeat(times)).into_bytes()],
            None => init,
        };
        o.init = init.clone();
        o.sum_mode = true;
        o.clear_env = true;
        o.env = env_vars(&input["env"]);
        if let Some(p) = path_env {
            o.env.push(("PATH".into(), p));
        }
        o.rlimit_stack = Some(rl);
        o.timeout_s = 300;
        let r = run_xargs(&self.sb, &o);
        if r.exit == -3 {
            return json!({"nospawn": true});
        }
        if looks_like_panic(&r) {
            return json!({"panic": true, "exit": r.exit});
        }
        let mut execs = vec![];
        let mut pos = 0usize;
        let mut order_ok = true;
        for s in &r.sums {
            let nall = s["n"].as_u64().unwrap_or(0) as usize;
            if let Some((pre, times)) = repl {
                // one command per input item: the initial argument with every {} replaced by the item
                let mut one = "x".repeat(pre).into_bytes();
                if pos < args.len() {
                    for _ in 0..times {
                        one.extend(&args[pos]);
                    }
                }
                if nall != 1 || pos >= args.len() || fnv(&[one]) != s["h"].as_str().unwrap_or("") {
                    order_ok = false;
                }
                pos = (pos + 1).min(args.len());
                execs.push(json!({"argc": nall + 1, "argbytes": s["bytes"].as_u64().unwrap_or(0) as usize + vlen + 1, "maxarg": (s["maxlen"].as_u64().unwrap_or(0) as usize).max(vlen),
                                  "envc": s["envc"], "envbytes": s["envbytes"], "fname": fname}));
                continue;
            }
            let n = nall.saturating_sub(ninit);
            let end = (pos + n).min(args.len());
            let mut whole: Vec<Vec<u8>> = init.clone();
            whole.extend(args[pos..end].iter().cloned());
            if nall < ninit || pos + n > args.len() || fnv(&whole) != s["h"].as_str().unwrap_or("") {
                order_ok = false;
            }
            pos = end;
            execs.push(json!({"argc": nall + 1, "argbytes": s["bytes"].as_u64().unwrap_or(0) as usize + vlen + 1, "maxarg": (s["maxlen"].as_u64().unwrap_or(0) as usize).max(vlen),
                              "envc": s["envc"], "envbytes": s["envbytes"], "fname": fname}));
        }
        let stderr = String::from_utf8_lossy(&r.stderr);
        json!({"execs": execs, "exit": r.exit, "e2big": stderr.contains("too long") && stderr.contains("rgument list") || r.exit == 126,
               "delivered": pos, "total": args.len(), "order_ok": order_ok, "stderr": stderr.chars().take(200).collect::<String>()})
    }

    fn gen(&mut self, rng: &mut Rng, idx: usize, tier: &str) -> Value {
        let rlims: [u64; 5] = [512 * 1024, 8 << 20, 64 << 20, 0, 2 << 20];
        let envs = [json!({"count": 0, "size": 1}), json!({"count": 300, "size": 10}), json!({"count": 5000, "size": 10}), json!({"count": 40, "size": 20000}), json!({"count": 1000, "size": 1})];
        if idx % 4 == 3 {
            // a direct probe of the kernel, near the model's boundary for this configuration
            let rlim = *rng.pick(&rlims);
            let len = *rng.pick(&[1usize, 7, 100, 4095, 131071, 131072]);
            let limit: u64 = (if rlim == 0 { u64::MAX } else { rlim / 4 }).min(6 << 20).max(128 << 10);
            let per = (len + 1 + 8) as u64;
            let base = limit / per;
            let argc = ((base as i64) + *rng.pick(&[-3000i64, -600, 600, 3000, -(base as i64) / 2])).max(1) as u64;
            return json!({"mode": "probe", "argc": argc, "len": len, "env": envs[rng.below(2)], "rlim": rlim});
        }
        let scenario = idx / 4;
        let big = tier == "thorough";
        let groups = match scenario % 13 {
            0 => json!([{"count": *rng.pick(&[1u64, 10, 1000]), "len": 1}]),
            1 => json!([{"count": if big { 600000 } else { 300000 }, "len": 1}]),
            2 => json!([{"count": 150000, "len": 2}, {"count": 100, "len": 4095}]),
            3 => json!([{"count": 40, "len": 131071}]),
            4 => json!([{"count": 5, "len": 100}, {"count": 1, "len": 131072}, {"count": 5, "len": 100}]),
            5 => json!([{"count": 2000, "len": 4095}]),
            6 => json!([{"count": 100000, "len": 7}, {"count": 100000, "len": 1}]),
            7 => json!([{"count": 20, "len": 65536}, {"count": 50000, "len": 1}]),
            8 => json!([{"count": 1, "len": 200000}]),
            9 => json!([{"count": if big { 400000 } else { 200000 }, "len": 6, "mb": true}]),
            10 => json!([{"count": 3, "len": 9, "mb": true}, {"count": 1, "len": 131073, "mb": true}]),
            11 => json!([{"count": 60, "len": 90000, "mb": true}]),
            _ => json!([{"count": 1 + rng.below(200000), "len": 1 + rng.below(12)}]),
        };
        let longest = arr(&groups).iter().map(|g| g["len"].as_u64().unwrap_or(0)).max().unwrap_or(0);
        let opts = match rng.below(6) {
            0 => json!(["-n", "1000"]),
            1 if longest < 90000 => json!(["-s", "100000"]),
            // a user limit far above what the system grants must not switch the system's own limit off
            2 => json!(["-s", "30000000"]),
            _ => json!([]),
        };
        // an environment that leaves (almost) nothing of a 128 KiB budget: xargs says so, or manages with what is left -
        // it does not build command lines exec has no room for
        if idx % 16 == 9 {
            // (what is left after the headroom: nothing at all, a few hundred bytes, a little more - in turn)
            let d = [-400i64, 300, 1200, 0, 900, 2600][(idx / 16) % 6] + rng.below(100) as i64;
            let total = 131072 - 2048 - 48 - d;          // bytes and pointers of four variables V000000=xxxx..
            let size = (total / 4 - 17).max(1) as u64;
            return json!({"mode": "run", "groups": [{"count": 400, "len": 3}], "opts": [], "env": {"count": 4, "size": size}, "rlim": 512 * 1024,
                          "init": {"count": 0, "len": 0}});
        }
        // -I: what has to fit is the argument after the substitution (one item used once, twice, with a prefix)
        if scenario % 7 == 5 || idx % 8 == 5 {
            let (len, pre, times) = *rng.pick(&[(131071u64, 1u64, 1u64), (131071, 0, 1), (131070, 1, 1), (70000, 0, 2), (65535, 1, 2), (65535, 0, 2), (65536, 0, 2), (43690, 0, 3), (43691, 0, 3), (100, 3, 4), (131072, 0, 1)]);
            let groups = json!([{"count": 3, "len": 50}, {"count": 2, "len": len}, {"count": 3, "len": 10}]);
            return json!({"mode": "run", "groups": groups, "opts": [], "env": envs[rng.below(2)], "rlim": *rng.pick(&rlims), "init": {"count": 0, "len": 0},
                          "repl": {"pre": pre, "times": times}});
        }
        // the command behind a path longer than the 2048 bytes of headroom, with small arguments that fill every command line to the brim
        if scenario % 7 == 3 {
            let groups = match rng.below(3) {
                0 => json!([{"count": if big { 600000 } else { 300000 }, "len": 1}]),
                1 => json!([{"count": 120000, "len": 3}, {"count": 120000, "len": 1}]),
                _ => json!([{"count": 1 + rng.below(200000), "len": 1 + rng.below(6)}, {"count": 250000, "len": 1}]),
            };
            return json!({"mode": "run", "groups": groups, "opts": [], "env": envs[rng.below(3)], "rlim": *rng.pick(&[512u64 * 1024, 8 << 20, 2 << 20, 0]), "init": {"count": 0, "len": 0},
                          "cmdpath": {"len": 2200 + rng.below(1700), "via_path": rng.chance(1, 3)}});
        }
        // every third scenario with fixed initial arguments, several KiB of them
        let init = if scenario % 3 == 1 { *rng.pick(&[(60u64, 100u64), (300, 50), (5, 1000), (40, 400)]) } else { (0, 0) };
        json!({"mode": "run", "groups": groups, "opts": opts, "env": envs[rng.below(envs.len())], "rlim": *rng.pick(&rlims),
               "init": {"count": init.0, "len": init.1}})
    }

    fn corrupt(&self, obs: &Value) -> Option<Value> {
        let mut o = obs.clone();
        if obs.get("ok").is_some() {
            return None;
        }
        o["e2big"] = json!(true);
        Some(o)
    }
}
