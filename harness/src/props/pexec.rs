//! C09 (-exec/-execdir ... ;) and C08 (... {} +).  Input (spec/FindActions.tla):
//!  {mode:"single", tree, roots, cfg, pre:{p:"none"}|{p:"name",pat}|{p:"type",c}, template:[bytes..], execdir, script:[status..], nocmd}
//!      -> {execs:[{argv:[bytes..], cwd:bytes (relative to find's working directory)}], truth:[[bool, path]..], exit}
//!  {mode:"multi", tree|bulk:{n,namelen,dirs}, roots, cfg, pre, fixed:[bytes..], execdir, script, quit:bytes, rlimit_stack}
//!      -> {execs:[{argv, cwd}], exit}   (bulk runs: argv lists can be long; they are recorded in full)
use super::pglob::cps_to_string;
use super::pprintf::depth_args;
use super::Prop;
use crate::findrun::*;
use crate::tree::*;
use crate::util::*;
use crate::xrun::read_log;
use serde_json::{json, Value};
use std::os::unix::ffi::OsStrExt;

pub struct PExec {
    sb: Sandbox,
    counter: u64,
    flavour: &'static str,
}

impl PExec {
    pub fn new(flavour: &'static str) -> Self {
        PExec { sb: Sandbox::new("pexec"), counter: 0, flavour }
    }
}

pub fn pre_args(pre: &Value, a: &mut Vec<String>) {
    match pre["p"].as_str().unwrap_or("none") {
        "name" => {
            a.push("-name".into());
            a.push(cps_to_string(&pre["pat"]));
        }
        "type" => {
            a.push("-type".into());
            a.push(pre["c"].as_str().unwrap_or("f").into());
        }
        _ => {}
    }
}

fn rel_cwd(base: &std::path::Path, cwd: &[u8]) -> Vec<u8> {
    let b = base.as_os_str().as_bytes();
    if cwd == b {
        vec![]
    } else if cwd.starts_with(b) && cwd.get(b.len()) == Some(&b'/') {
        cwd[b.len() + 1..].to_vec()
    } else {
        let mut v = b"<outside>".to_vec();
        v.extend(cwd);
        v
    }
}

impl Prop for PExec {
    fn run(&mut self, input: &Value) -> Value {
        if input["mode"] == "rootdir" {
            // the starting point "/" has no parent directory: -execdir runs the command there, in both forms, and
            // a pending '{} +' command line is run before find exits like any other
            let dir = fresh_case_dir(&self.sb, &mut self.counter);
            let log = dir.parent().unwrap().join("vrec.log");
            let _ = std::fs::remove_file(&log);
            let plus = input["plus"].as_bool().unwrap_or(true);
            let start = input.get("start").and_then(|x| x.as_str()).unwrap_or("/").to_string();
            let mut args: Vec<String> = vec![start, "-maxdepth".into(), "0".into(), (if input["execdir"].as_bool().unwrap_or(true) { "-execdir" } else { "-exec" }).into(),
                                             vrec_path().to_string_lossy().into_owned(), "{}".into()];
            args.push(if plus { "+".into() } else { ";".into() });
            let env = vec![("VREC_LOG".to_string(), log.to_string_lossy().into_owned())];
            let r = run_find_bin(&dir, &args, None, &env, 60);
            if r.panicked {
                return json!({"panic": true, "args": args});
            }
            let (execs, cwds, _) = read_log(&log);
            return json!({"nexec": execs.len(), "exit": r.exit,
                          "argv": execs.first().map(|a| a.iter().map(|x| bytes_to_json(x)).collect::<Vec<_>>()).unwrap_or_default(),
                          "cwd": cwds.first().map(|c| bytes_to_json(c)).unwrap_or_else(|| json!([]))});
        }
        if input["mode"] == "reltool" {
            // the command is named relative to the directory it is run from (-execdir ./tool): whether it can be started is
            // a matter of each invocation - one directory has no such file, the next one has
            let dir = fresh_case_dir(&self.sb, &mut self.counter);
            let dir = dir.canonicalize().unwrap_or(dir);
            for d in ["d/a", "d/b", "d/c"] {
                std::fs::create_dir_all(dir.join(d)).unwrap();
            }
            for f in ["d/a/f1", "d/b/g1", "d/b/g2", "d/c/h1"] {
                std::fs::write(dir.join(f), b"").unwrap();
            }
            std::os::unix::fs::symlink(vrec_path(), dir.join("d/b/tool")).unwrap();
            let log = dir.parent().unwrap().join("vrec.log");
            let _ = std::fs::remove_file(&log);
            let plus = input["plus"].as_bool().unwrap_or(true);
            let mut args: Vec<String> = ["d/a", "d/b", "d/c", "-sorted", "-type", "f", "!", "-name", "tool", "-execdir", "./tool", "{}"].iter().map(|x| x.to_string()).collect();
            args.push(if plus { "+".into() } else { ";".into() });
            let env = vec![("VREC_LOG".to_string(), log.to_string_lossy().into_owned())];
            let r = run_find_bin(&dir, &args, None, &env, 60);
            if r.panicked {
                return json!({"panic": true, "args": args});
            }
            let (execs, cwds, _) = read_log(&log);
            let ex: Vec<Value> = execs
                .iter()
                .zip(cwds.iter())
                .map(|(a, c)| json!({"argv": a.iter().map(|x| bytes_to_json(x)).collect::<Vec<_>>(), "cwd": bytes_to_json(&rel_cwd(&dir, c))}))
                .collect();
            return json!({"execs": ex, "exit": r.exit});
        }
        let dir = fresh_case_dir(&self.sb, &mut self.counter);
        let dir = dir.canonicalize().unwrap_or(dir);
        let tree = parse_tree(&input["tree"]);
        materialize(&dir, &tree);
        let multi = input["mode"] == "multi";
        let execdir = input["execdir"].as_bool().unwrap_or(false);
        let log = dir.parent().unwrap().join("vrec.log");
        let _ = std::fs::remove_file(&log);
        let scriptf = dir.parent().unwrap().join("script.json");
        std::fs::write(&scriptf, serde_json::to_string(&input["script"]).unwrap()).unwrap();
        let cmd = if input["nocmd"].as_bool().unwrap_or(false) { "/nonexistent/verif-no-such-command".to_string() } else { vrec_path().to_string_lossy().into_owned() };
        let mut args: Vec<String> = vec![];
        for r in arr(&input["roots"]) {
            args.push(json_to_string(&r["spell"]));
        }
        depth_args(&input["cfg"], &mut args);
        args.push("-sorted".into());
        let mut pre: Vec<String> = vec![];
        pre_args(&input["pre"], &mut pre);
        args.extend(pre.clone());
        // single mode: a mark before the action, without a newline; the recorder adds its own mark to the same output
        let echo = !multi && input.get("echo").and_then(|e| e.as_bool()).unwrap_or(false);
        if echo {
            args.push("-printf".into());
            args.push("B|%p\\0".into());
        }
        args.push(if execdir { "-execdir".into() } else { "-exec".into() });
        args.push(cmd);
        let two = input.get("two").and_then(|t| t.as_bool()).unwrap_or(false);
        if multi {
            if two {
                args.push("A1".into());
            }
            for a in arr(&input["fixed"]) {
                args.push(json_to_string(&a));
            }
            args.push("{}".into());
            args.push("+".into());
            if two {
                args.extend([if execdir { "-execdir".to_string() } else { "-exec".to_string() }, vrec_path().to_string_lossy().into_owned(), "A2".into(), "{}".into(), "+".into()]);
            }
            // what stands after the action is evaluated on every entry ("the action itself is always true")
            args.push("-printf".into());
            args.push("%p\\0".into());
            let q = json_to_string(&input["quit"]);
            if !q.is_empty() {
                args.push("-path".into());
                args.push(q);
                args.push("-quit".into());
            }
        } else {
            for a in arr(&input["template"]) {
                args.push(json_to_string(&a));
            }
            args.push(";".into());
            args.push("-printf".into());
            args.push("T|%p\\0".into());
            args.push("-o".into());
            args.extend(pre);
            args.push("-printf".into());
            args.push("F|%p\\0".into());
        }
        let mut env = vec![("VREC_LOG".to_string(), log.to_string_lossy().into_owned()), ("VREC_SCRIPT".to_string(), scriptf.to_string_lossy().into_owned())];
        if let Some(l) = input.get("rlimit_stack").and_then(|l| l.as_u64()) {
            env.push(("VH_RLIMIT_STACK".to_string(), l.to_string()));
        }
        if echo {
            env.push(("VREC_ECHO".to_string(), "1".to_string()));
        }
        let r = run_find_bin(&dir, &args, None, &env, 120);
        if r.panicked {
            return json!({"panic": true, "args": args});
        }
        let (execs, cwds, _) = read_log(&log);
        let ex: Vec<Value> = execs
            .iter()
            .zip(cwds.iter())
            .map(|(a, c)| json!({"argv": a.iter().map(|x| bytes_to_json(x)).collect::<Vec<_>>(), "cwd": bytes_to_json(&rel_cwd(&dir, c))}))
            .collect();
        let mut o = json!({"execs": ex, "exit": r.exit});
        if multi {
            let recs = split_nul(&r.out);
            o["truthn"] = json!(recs.len());
            if recs.len() <= 200 {
                o["truth"] = json!(recs.iter().map(|p| bytes_to_json(&unlossy(p, &tree))).collect::<Vec<_>>());
            }
        } else {
            let recs = split_nul(&r.out);
            if echo {
                // the order of the marks: B (before the action), X (the command ran), T/F (after it)
                o["tags"] = json!(recs.iter().map(|rec| String::from_utf8_lossy(&rec[..rec.len().min(1)]).into_owned()).collect::<Vec<_>>());
            }
            let truth: Vec<Value> = recs
                .iter()
                .filter(|rec| !(rec.len() >= 2 && rec[1] == b'|' && (rec[0] == b'B' || rec[0] == b'X')))
                .map(|rec| if rec.len() >= 2 && rec[1] == b'|' { json!([rec[0] == b'T', bytes_to_json(&unlossy(&rec[2..], &tree))]) } else { json!([false, bytes_to_json(b"<junk>")]) })
                .collect();
            o["truth"] = json!(truth);
        }
        o
    }

    fn gen(&mut self, rng: &mut Rng, idx: usize, tier: &str) -> Value {
        if idx % 50 == 33 {
            return json!({"mode": "reltool", "plus": self.flavour == "C08"});
        }
        if idx % 50 == 17 {
            return json!({"mode": "rootdir", "execdir": !rng.chance(1, 4), "plus": if self.flavour == "C08" { true } else { false },
                          "start": *rng.pick(&["/", "/", "/usr", "/usr/", "//usr"])});
        }
        // a random tree with hostile names, -P, starting points that are not links
        let hostile: [&str; 16] = ["a", "b c", "{}", "-n", "q'\"", "x\ny", " ", "*", "$(id)", "é", "a{}b", "--", ";", "+", "\\", "{} {}"];
        let n = 2 + rng.below(if tier == "thorough" { 14 } else { 8 });
        let mut tree: Vec<Value> = vec![json!({"parent": 0, "name": str_to_json("d"), "kind": "d", "target": 0})];
        let mut dirs = vec![1usize];
        for i in 2..=n {
            let parent = *rng.pick(&dirs);
            let mut name = rng.pick(&hostile).to_string();
            while tree.iter().any(|t| t["parent"].as_u64() == Some(parent as u64) && json_to_string(&t["name"]) == name) {
                name.push('z');
            }
            // (C09: also symbolic links that point nowhere - an entry like any other, the command is run on it)
            let kind = if rng.chance(1, 3) { "d" } else if self.flavour == "C09" && rng.chance(1, 6) { "l" } else { "f" };
            if kind == "d" {
                dirs.push(i);
            }
            tree.push(json!({"parent": parent, "name": str_to_json(&name), "kind": kind, "target": 0}));
        }
        let spell = match rng.below(6) {
            0 | 1 => "./d",
            // "." is a component like any other: the entry d/. is "." in d
            2 => "d/.",
            _ => "d",
        };
        let mut roots = vec![json!({"spell": str_to_json(spell), "node": 1})];
        if rng.chance(1, 5) {
            roots.push(json!({"spell": str_to_json("d"), "node": 1}));
        }
        if rng.chance(1, 4) && n >= 2 {
            // a starting point with several path components (an entry below d)
            let k = 2 + rng.below(n - 1);
            let mut comps = vec![];
            let mut j = k;
            while j != 0 {
                comps.push(json_to_string(&tree[j - 1]["name"]));
                j = tree[j - 1]["parent"].as_u64().unwrap() as usize;
            }
            comps.reverse();
            let p = comps.join("/");
            if !comps.iter().any(|c| c.starts_with('-')) {
                roots = vec![json!({"spell": str_to_json(&p), "node": k})];
            }
        }
        let cfg = json!({"mode": "P", "min": *rng.pick(&[0u64, 0, 0, 1, 2, 2]), "max": if rng.chance(1, 6) { 1 } else { super::pwalk::NOMAX }, "depth": rng.chance(1, 4), "sorted": true, "prune": []});
        let pre = match rng.below(4) {
            0 => json!({"p": "name", "pat": *rng.pick(&[vec![42u32], vec![42, 123, 125, 42], vec![63], vec![91, 97, 45, 122, 93, 42]])}),
            1 => json!({"p": "type", "c": *rng.pick(&["f", "d"])}),
            _ => json!({"p": "none"}),
        };
        let execdir = rng.chance(1, 2);
        let mut script = vec![];
        for _ in 0..rng.below(2 * n) {
            // (1000 + s: the command is killed by signal s - it did not exit with status 0)
            script.push(*rng.pick(&[0u64, 0, 0, 1, 2, 255, 1009, 1015, 1013]));
        }
        if self.flavour == "C09" {
            // (also words that mean something to find itself when they stand in the expression: inside the action they
            // are the command's arguments and nothing else)
            let pieces: [&str; 23] = ["{}", "x{}y", "{}{}", "lit", "", "--", "{} {}", "a b", "{", "}{", "--help", "-help", "--version", "-version", "-print", "-o", "(", ")", "!", "-quit",
                                      "-delete", "{}+", ","];
            let mut template = vec![];
            for _ in 0..rng.below(4) {
                template.push(str_to_json(*rng.pick(&pieces)));
            }
            let nocmd = idx % 17 == 3;
            let mut v = json!({"mode": "single", "tree": tree, "roots": roots, "cfg": cfg, "pre": pre, "template": template, "execdir": execdir,
                   "script": if nocmd { vec![] } else { script }, "nocmd": nocmd, "echo": rng.chance(1, 2)});
            // "byte for byte" also for names that are not valid UTF-8 (the test before the action then looks at types only)
            if rng.chance(1, 4) && add_raw_names(&mut v, rng) && v["pre"]["p"] == "name" {
                v["pre"] = json!({"p": "none"});
            }
            v
        } else {
            let mut fixed = vec![];
            for _ in 0..rng.below(3) {
                fixed.push(str_to_json(*rng.pick(&["-x", "lit", "a b", "", "--"])));
            }
            let mut v = json!({"mode": "multi", "tree": tree, "roots": roots, "cfg": cfg, "pre": pre, "fixed": fixed, "execdir": execdir,
                               "script": script, "quit": [], "nocmd": false, "two": rng.chance(1, 4)});
            if idx % 9 == 7 {
                // the boundary of a command line: a probe run with plenty of equally long paths tells how many (K) fit
                // into one invocation under this stack limit; the case itself then has K, K + 1 or K + 2 of them, so
                // that the last invocation carries two, one or no path over - or exactly fills up
                let len = 120 + rng.below(60);
                let rl = *rng.pick(&[512u64 * 1024, 600 * 1024]);
                let build = |cnt: usize| -> Value {
                    let mut tree = vec![json!({"parent": 0, "name": str_to_json("d"), "kind": "d", "target": 0})];
                    for j in 0..cnt {
                        tree.push(json!({"parent": 1, "name": str_to_json(&format!("{:05}{}", j, "n".repeat(len))), "kind": "f", "target": 0}));
                    }
                    json!({"mode": "multi", "tree": tree, "roots": [{"spell": str_to_json("d"), "node": 1}],
                           "cfg": {"mode": "P", "min": 1, "max": super::pwalk::NOMAX, "depth": false, "sorted": true, "prune": []},
                           "pre": {"p": "none"}, "fixed": [], "execdir": false, "script": [], "quit": [], "nocmd": false, "two": false, "rlimit_stack": rl})
                };
                let probe = self.run(&build(1500));
                let k = arr(&probe["execs"]).first().map(|e| arr(&e["argv"]).len()).unwrap_or(0);
                if k > 10 && k < 1500 {
                    return build(k + rng.below(3));
                }
            }
            if idx % 9 == 6 {
                // -execdir: the command line of a directory is run when the walk leaves it - while the next entry is being
                // evaluated; that invocation fails, and -quit is reached on that very entry: the failure still counts
                let tree = vec![json!({"parent": 0, "name": str_to_json("d"), "kind": "d", "target": 0}),
                                json!({"parent": 1, "name": str_to_json("a"), "kind": "d", "target": 0}),
                                json!({"parent": 2, "name": str_to_json("f1"), "kind": "f", "target": 0}),
                                json!({"parent": 1, "name": str_to_json("b"), "kind": "f", "target": 0}),
                                json!({"parent": 1, "name": str_to_json("c"), "kind": "f", "target": 0})];
                let (script, quit) = rng.pick(&[(vec![0u64, 0, 3], "d/b"), (vec![0, 2], "d/a/f1"), (vec![1], "d/a"), (vec![0, 0, 1009], "d/b")]).clone();
                return json!({"mode": "multi", "tree": tree, "roots": [{"spell": str_to_json("d"), "node": 1}],
                              "cfg": {"mode": "P", "min": 0, "max": super::pwalk::NOMAX, "depth": false, "sorted": true, "prune": []},
                              "pre": {"p": "none"}, "fixed": [], "execdir": true, "script": script, "quit": str_to_json(quit), "nocmd": false, "two": false});
            }
            if idx % 9 == 4 {
                // many long names under a small stack limit: several invocations, also within one directory
                v["roots"] = json!([{"spell": str_to_json(spell), "node": 1}]);
                let cnt = if tier == "thorough" { 3200 } else { 1600 };
                let nd = 1 + rng.below(2);
                for k in 0..nd {
                    let t = arr(&v["tree"]).len();
                    v["tree"].as_array_mut().unwrap().push(json!({"parent": 1, "name": str_to_json(&format!("bulk{}", k)), "kind": "d", "target": 0}));
                    for j in 0..cnt / nd {
                        let name = format!("{:05}{}", j, "n".repeat(150 + (j % 50)));
                        v["tree"].as_array_mut().unwrap().push(json!({"parent": t + 1, "name": str_to_json(&name), "kind": "f", "target": 0}));
                    }
                }
                v["rlimit_stack"] = json!(*rng.pick(&[512u64 * 1024, 600 * 1024]));
                // an invocation dispatched in the middle of the walk fails more often than not
                v["script"] = json!([*rng.pick(&[0u64, 0, 1]), *rng.pick(&[0u64, 1, 1]), *rng.pick(&[0u64, 1])]);
            } else if rng.chance(1, 3) && n > 2 {
                // -quit on some entry without glob characters in its path
                let k = 2 + rng.below(n - 1);
                let mut comps = vec![];
                let mut j = k;
                while j != 0 {
                    comps.push(json_to_string(&v["tree"][j - 1]["name"]));
                    j = v["tree"][j - 1]["parent"].as_u64().unwrap() as usize;
                }
                comps.reverse();
                let p = format!("{}/{}", spell, comps[1..].join("/"));
                if !p.contains(|c: char| "*?[\\".contains(c)) && comps.len() > 1 && json_to_string(&v["roots"][0]["spell"]) == spell {
                    v["quit"] = str_to_json(&p);
                }
            }
            v
        }
    }

    fn same(&self, exp: &Value, obs: &Value) -> bool {
        obs.get("panic").is_none() && obs["exit"] == exp["exit"] && arr(&obs["execs"]) == arr(&exp["execs"]) && (exp.get("truth").is_none() || arr(&obs["truth"]) == arr(&exp["truth"]))
    }

    fn corrupt(&self, obs: &Value) -> Option<Value> {
        let mut o = obs.clone();
        let mut e = arr(&o["execs"]);
        if e.is_empty() {
            o["exit"] = json!(if obs["exit"].as_i64() == Some(0) { 1 } else { 0 });
            if let Some(t) = o.get("truth").cloned() {
                let mut t = arr(&t);
                t.push(json!([true, str_to_json("ghost")]));
                o["truth"] = json!(t);
            }
        } else {
            let last = e.len() - 1;
            let mut argv = arr(&e[last]["argv"]);
            if argv.is_empty() {
                argv.push(str_to_json("ghost"));
            } else {
                argv.pop();
            }
            e[last]["argv"] = json!(argv);
            o["execs"] = json!(e);
        }
        Some(o)
    }
}
