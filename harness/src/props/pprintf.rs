//! C16: -printf.  Input (spec/Printf.tla): {tree:[{parent,name,kind,target,size?,mode?,text?}], roots:[{spell,node}],
//!   cfg:{mode,min,max,depth,sorted,prune}, fmt:[characters]}
//! Observation: {out:[bytes], exit, attrs:[{size,mode,uid,gid,nlink,ino,text} per node, read back with lstat/readlink]}
use super::pglob::cps_to_string;
use super::pwalk::NOMAX;
use super::Prop;
use crate::findrun::*;
use crate::tree::*;
use crate::util::*;
use serde_json::{json, Value};
use std::os::unix::ffi::OsStrExt;
use std::os::unix::fs::MetadataExt;

pub struct PPrintf {
    sb: Sandbox,
    counter: u64,
}

impl Default for PPrintf {
    fn default() -> Self {
        PPrintf { sb: Sandbox::new("pprintf"), counter: 0 }
    }
}

pub fn measure(dir: &std::path::Path, tree: &[Node]) -> Vec<Value> {
    let mut attrs = vec![];
    for i in 1..=tree.len() {
        let p = dir.join(node_path(tree, i));
        match std::fs::symlink_metadata(&p) {
            Ok(m) => {
                let text = if m.file_type().is_symlink() { std::fs::read_link(&p).map(|t| t.as_os_str().as_bytes().to_vec()).unwrap_or_default() } else { vec![] };
                attrs.push(json!({"size": m.size(), "mode": m.mode() & 0o7777, "uid": m.uid(), "gid": m.gid(), "nlink": m.nlink(), "ino": m.ino(), "text": bytes_to_json(&text),
                                   "mt": [m.mtime(), m.mtime_nsec()], "ct": [m.ctime(), m.ctime_nsec()]}));
            }
            Err(_) => attrs.push(json!({"missing": true})),
        }
    }
    attrs
}

pub fn mode_args(cfg: &Value, a: &mut Vec<String>) {
    match cfg["mode"].as_str().unwrap_or("P") {
        "H" => a.push("-H".into()),
        "L" => a.push("-L".into()),
        _ => {}
    }
}

pub fn depth_args(cfg: &Value, args: &mut Vec<String>) {
    if cfg["min"].as_u64().unwrap_or(0) > 0 {
        args.push("-mindepth".into());
        args.push(cfg["min"].as_u64().unwrap().to_string());
    }
    if cfg["max"].as_u64().unwrap_or(NOMAX) < NOMAX {
        args.push("-maxdepth".into());
        args.push(cfg["max"].as_u64().unwrap().to_string());
    }
    if cfg["depth"].as_bool().unwrap_or(false) {
        args.push("-depth".into());
    }
}

impl Prop for PPrintf {
    fn run(&mut self, input: &Value) -> Value {
        let dir = fresh_case_dir(&self.sb, &mut self.counter);
        let tree = parse_tree(&input["tree"]);
        materialize(&dir, &tree);
        let attrs = measure(&dir, &tree);
        let cfg = &input["cfg"];
        let mut args: Vec<String> = vec![];
        mode_args(cfg, &mut args);
        for r in arr(&input["roots"]) {
            args.push(json_to_string(&r["spell"]));
        }
        depth_args(cfg, &mut args);
        args.push("-sorted".into());
        args.push("-printf".into());
        args.push(cps_to_string(&input["fmt"]));
        let errf = dir.parent().unwrap().join("stderr.txt");
        let r = run_find_inproc(&dir, &args, None, &errf);
        if r.panicked {
            return json!({"panic": true, "args": args});
        }
        json!({"out": bytes_to_json(&r.out), "exit": r.exit, "attrs": attrs})
    }

    fn gen(&mut self, rng: &mut Rng, idx: usize, tier: &str) -> Value {
        // a random tree as for the traversal properties (names incl. blanks and multi-byte), a random format
        let mut w = super::pwalk::PWalk::new("C02");
        let mut v = w.gen(rng, idx, tier);
        v["cfg"]["sorted"] = json!(true);
        v["cfg"]["prune"] = json!([]);
        // unreadable directories belong to C02 (they need the binary run as an unprivileged user)
        for t in v["tree"].as_array_mut().unwrap() {
            if let Some(o) = t.as_object_mut() {
                o.remove("noread");
            }
        }
        v.as_object_mut().unwrap().remove("form");
        if v["cfg"].get("modeflag").is_some() {
            v["cfg"].as_object_mut().unwrap().remove("modeflag");
        }
        // some attributes worth printing
        let n = arr(&v["tree"]).len();
        for i in 0..n {
            if v["tree"][i]["kind"] == "f" {
                v["tree"][i]["size"] = json!(*rng.pick(&[0u64, 1, 9, 10, 511, 4096, 123456]));
            }
            if v["tree"][i]["kind"] != "l" && rng.chance(1, 2) {
                let m = *rng.pick(&[0o644u64, 0o755, 0o4755, 0o2750, 0o1777, 0o600, 0o7777, 0o7, 0o70, 0o700]);
                // directories stay searchable and readable so that the walk itself is not affected
                v["tree"][i]["mode"] = json!(if v["tree"][i]["kind"] == "d" { m | 0o500 } else { m });
            }
            if v["tree"][i]["kind"] != "l" && rng.chance(1, 4) {
                v["tree"][i]["uid"] = json!(*rng.pick(&[0u64, 1, 1000, 54321]));
                v["tree"][i]["gid"] = json!(*rng.pick(&[0u64, 5, 100, 54322]));
            }
            if v["tree"][i]["kind"] == "l" && rng.chance(1, 2) && v["tree"][i]["target"].as_u64() == Some(0) {
                v["tree"][i]["text"] = str_to_json(*rng.pick(&["nowhere", "../gone", "no such", "né/x"]));
            }
        }
        // one case in three: names of two- and three-byte characters (a column is so many characters wide, not bytes)
        // (not where a link's text was written with the old names in it)
        let texts = arr(&v["tree"]).iter().any(|t| t.get("text").map(|x| !x.is_null()).unwrap_or(false));
        // (a "reltext" link follows its target's name: nothing to keep)
        if idx % 3 == 1 && !texts {
            for i in 0..n {
                if rng.chance(1, 2) {
                    let base = *rng.pick(&["é", "日本", "dé", "ü", "€uro"]);
                    v["tree"][i]["name"] = str_to_json(&format!("{}{}", base, i));
                }
            }
            // starting points are spelled after their nodes' names
            let tree_copy = v["tree"].clone();
            for r in v["roots"].as_array_mut().unwrap() {
                let k = r["node"].as_u64().unwrap_or(0) as usize;
                if k > 0 {
                    // (a starting point may lie below the working directory: hd/hroot)
                    let mut comps = vec![];
                    let mut j = k;
                    while j != 0 {
                        comps.push(json_to_string(&tree_copy[j - 1]["name"]));
                        j = tree_copy[j - 1]["parent"].as_u64().unwrap_or(0) as usize;
                    }
                    comps.reverse();
                    let nm = comps.join("/");
                    r["spell"] = str_to_json(&if nm.starts_with('-') { format!("./{}", nm) } else { nm });
                }
            }
        }
        let dirs: [&str; 15] = ["p", "f", "h", "H", "P", "d", "s", "n", "i", "U", "G", "m", "y", "Y", "l"];
        let mut fmt: Vec<u32> = vec![];
        // one case in twenty-five (of the first 600) begins with a column wider than any small integer type a formatting
        // routine might keep the width in (the value is a number or a type letter: plain ASCII)
        if idx % 25 == 1 && idx < 600 {
            fmt.push(37);
            if rng.chance(1, 2) {
                fmt.push(45);
            }
            let w = *rng.pick(&[65535usize, 65536, 65537, 70000, 131072, 200000]);
            fmt.extend(format!("{}", w).chars().map(|c| c as u32));
            fmt.push(*rng.pick(&[100u32, 115, 71, 85, 110, 121]));
            fmt.push(124);
        }
        for _ in 0..1 + rng.below(if tier == "thorough" { 10 } else { 6 }) {
            match rng.below(10) {
                0..=4 => {
                    fmt.push(37);
                    if rng.chance(1, 3) {
                        if rng.chance(1, 2) {
                            fmt.push(45);
                        }
                        // mostly column widths as people write them; now and then a wide column (the padding is written
                        // in pieces: a value of 1..8 characters in 64, 65.., 128.., 192.. columns meets every remainder)
                        // ... and, rarely, a column wider than any integer type a formatting routine might keep the width in
                        let w = if rng.chance(1, 4) { *rng.pick(&[64usize, 128, 192, 256]) + rng.below(9) } else { 1 + rng.below(25) };
                        fmt.extend(format!("{}", w).chars().map(|c| c as u32));
                    }
                    fmt.push(rng.pick(&dirs).chars().next().unwrap() as u32);
                }
                5 => fmt.extend([37, 37]),
                6 => {
                    fmt.push(92);
                    fmt.push(*rng.pick(&[97u32, 98, 102, 110, 114, 116, 118, 92, 48]));
                }
                7 => {
                    // an octal escape has exactly three digits: a digit right after it is a literal
                    fmt.extend(*rng.pick(&[[92u32, 49, 48, 49], [92, 48, 52, 48], [92, 49, 55, 55]]));
                    if rng.chance(1, 2) {
                        fmt.push(*rng.pick(&[48u32, 49, 55, 56]));
                    }
                }
                _ => fmt.push(*rng.pick(&[120u32, 32, 124, 233, 58, 0x4e2d, 45, 53])),
            }
        }
        // under -H -depth with a starting point that is a link to a directory find walks the link's target from a spelling
        // of its own making: what %H and %P say there is the starting point as given and the path below it
        {
            let t = arr(&v["tree"]);
            let linkroot = arr(&v["roots"]).iter().any(|r| {
                let n = r["node"].as_u64().unwrap_or(0) as usize;
                n > 0 && t[n - 1]["kind"] == "l"
            });
            if v["cfg"]["mode"] == "H" && v["cfg"]["depth"] == true && linkroot {
                let mut f2: Vec<u32> = vec![37, 72, 124, 37, 80, 124];
                f2.extend(&fmt);
                fmt = f2;
            }
        }
        fmt.extend([92, 110]);
        // a very wide column: the starting points alone are enough (the output is that many bytes per entry)
        let digits = fmt.iter().fold((0usize, 0usize), |(run, best), c| if (48..=57).contains(c) { (run + 1, best.max(run + 1)) } else { (0, best) }).1;
        if digits >= 5 {
            v["cfg"]["min"] = json!(0);
            v["cfg"]["max"] = json!(0);
        }
        v["fmt"] = json!(fmt);
        v
    }

    fn same(&self, exp: &Value, obs: &Value) -> bool {
        obs.get("panic").is_none() && obs["exit"].as_i64() == Some(0) && json_to_bytes(&exp["out"]) == json_to_bytes(&obs["out"])
    }

    fn corrupt(&self, obs: &Value) -> Option<Value> {
        let mut o = obs.clone();
        let mut b = json_to_bytes(&o["out"]);
        if b.is_empty() {
            b.push(b'x');
        } else {
            let k = b.len() / 2;
            b[k] = if b[k] == b'#' { b'!' } else { b'#' };
        }
        o["out"] = bytes_to_json(&b);
        Some(o)
    }
}
