//! Whole runs of find against the composed specification (spec/FindSem.tla): random trees with measured
//! attributes x random expressions over real tests and output actions.
//! Input: {tree, roots, cfg, words:[{k:"op",t} | {k:"test",q:{..}} | {k:"glob",on,pat,fold} | {k:"const",v} | {k:"prune"} | {k:"quit"}
//!         | {k:"print",delim} | {k:"printf",fmt}]}
//! Observation: {out:[bytes], exit, attrs:[..]}
use super::pglob::cps_to_string;
use super::pprintf::{depth_args, measure, mode_args};
use super::Prop;
use crate::findrun::*;
use crate::tree::*;
use crate::util::*;
use serde_json::{json, Value};

pub struct PSem {
    sb: Sandbox,
    counter: u64,
}

impl Default for PSem {
    fn default() -> Self {
        PSem { sb: Sandbox::new("psem"), counter: 0 }
    }
}

fn sign(form: &str) -> &'static str {
    match form {
        "gt" => "+",
        "lt" => "-",
        _ => "",
    }
}

pub fn word_args(w: &Value, tree: &[Node], a: &mut Vec<String>) {
    match w["k"].as_str().unwrap_or("") {
        "op" => a.push(
            match w["t"].as_str().unwrap_or("") {
                "not" => "!",
                "and" => "-a",
                "or" => "-o",
                "comma" => ",",
                "lp" => "(",
                "rp" => ")",
                x => x,
            }
            .to_string(),
        ),
        "const" => a.push(if w["v"].as_bool().unwrap_or(true) { "-true".into() } else { "-false".into() }),
        "prune" => a.push("-prune".into()),
        "quit" => a.push("-quit".into()),
        "print" => a.push(if w["delim"].as_u64() == Some(0) { "-print0".into() } else { "-print".into() }),
        "printf" => {
            a.push("-printf".into());
            a.push(cps_to_string(&w["fmt"]));
        }
        "glob" => {
            let fold = w["fold"].as_bool().unwrap_or(false);
            a.push(match (w["on"].as_str().unwrap_or("name"), fold) {
                ("name", false) => "-name",
                ("name", true) => "-iname",
                (_, false) => "-path",
                (_, true) => "-ipath",
            }
            .to_string());
            a.push(cps_to_string(&w["pat"]));
        }
        "test" => {
            let t = &w["q"];
            let p = t["p"].as_str().unwrap_or("");
            match p {
                "type" | "xtype" => {
                    a.push(format!("-{}", p));
                    a.push(t["c"].as_str().unwrap_or("f").into());
                }
                "perm" => {
                    a.push("-perm".into());
                    let prefix = match t["kind"].as_str().unwrap_or("exact") {
                        "all" => "-",
                        "any" => "/",
                        _ => "",
                    };
                    a.push(format!("{}{:o}", prefix, t["m"].as_u64().unwrap_or(0)));
                }
                "uid" | "gid" | "links" | "size" => {
                    a.push(format!("-{}", p));
                    a.push(format!("{}{}{}", sign(t["form"].as_str().unwrap_or("eq")), t["n"].as_u64().unwrap_or(0), if p == "size" { "c" } else { "" }));
                }
                "empty" => a.push("-empty".into()),
                "samefile" => {
                    a.push("-samefile".into());
                    a.push(node_path(tree, t["ref"].as_u64().unwrap_or(1) as usize).to_string_lossy().into_owned());
                }
                "lname" => {
                    a.push("-lname".into());
                    a.push(cps_to_string(&t["pat"]));
                }
                _ => {}
            }
        }
        _ => {}
    }
}

impl Prop for PSem {
    fn run(&mut self, input: &Value) -> Value {
        let dir = fresh_case_dir(&self.sb, &mut self.counter);
        let tree = parse_tree(&input["tree"]);
        materialize(&dir, &tree);
        let attrs = measure(&dir, &tree);
        let cfg = &input["cfg"];
        let mut args: Vec<String> = vec![];
        mode_args(cfg, &mut args);
        for r in arr(&input["roots"]) {
            args.push(json_to_string(&r["spell"]));
        }
        depth_args(cfg, &mut args);
        args.push("-sorted".into());
        let words = arr(&input["words"]);
        if !words.is_empty() {
            // the options in front are and-ed with the whole expression
            args.push("(".into());
            for w in &words {
                word_args(w, &tree, &mut args);
            }
            args.push(")".into());
        }
        let errf = dir.parent().unwrap().join("stderr.txt");
        let r = run_find_inproc(&dir, &args, None, &errf);
        if r.panicked {
            return json!({"panic": true, "args": args});
        }
        json!({"out": bytes_to_json(&r.out), "exit": r.exit, "attrs": attrs, "diag": !r.stderr.is_empty()})
    }

    fn gen(&mut self, rng: &mut Rng, idx: usize, tier: &str) -> Value {
        let mut st = super::pstat::PStat::default();
        let mut v = st.gen(rng, idx, tier);
        v.as_object_mut().unwrap().remove("test");
        let n = arr(&v["tree"]).len();
        // the shape of the expression from the C01 generator; its leaves become real primaries
        let mut toks: Vec<String> = vec![];
        let budget = 1 + rng.below(if tier == "thorough" { 10 } else { 6 });
        super::pexpr::gen_list(rng, &mut toks, budget, 0, 3, 2);
        let names: Vec<String> = arr(&v["tree"]).iter().map(|t| json_to_string(&t["name"])).collect();
        let mut words: Vec<Value> = vec![];
        for t in toks {
            let w = match t.as_str() {
                "not" | "and" | "or" | "comma" | "lp" | "rp" => json!({"k": "op", "t": t}),
                "true" | "opt" => json!({"k": "const", "v": true}),
                "false" => json!({"k": "const", "v": false}),
                "prune" => json!({"k": "prune"}),
                "quit" => json!({"k": "quit"}),
                x if x.starts_with('a') => match rng.below(4) {
                    0 => json!({"k": "print", "delim": 10}),
                    1 => json!({"k": "print", "delim": 0}),
                    _ => {
                        let mut fmt: Vec<u32> = vec![];
                        for _ in 0..1 + rng.below(3) {
                            match rng.below(6) {
                                0 => fmt.extend([37, *rng.pick(&[112u32, 102, 80, 72, 100])]),
                                1 => fmt.extend([37, *rng.pick(&[115u32, 109, 85, 71, 121, 110])]),
                                2 => fmt.extend([37, 45, 53, 100]),
                                3 => fmt.extend([92, *rng.pick(&[116u32, 92, 48])]),
                                _ => fmt.push(*rng.pick(&[120u32, 58, 32, 233])),
                            }
                        }
                        fmt.extend([92, 110]);
                        json!({"k": "printf", "fmt": fmt})
                    }
                },
                _ => match rng.below(10) {
                    0 | 1 => json!({"k": "test", "q": {"p": "type", "c": *rng.pick(&["d", "f", "l", "p", "s"])}}),
                    2 => json!({"k": "test", "q": {"p": "xtype", "c": *rng.pick(&["d", "f", "l"])}}),
                    3 => json!({"k": "test", "q": {"p": "perm", "kind": *rng.pick(&["exact", "all", "any"]), "m": *rng.pick(&[0u64, 0o644, 0o755, 0o4000, 0o700, 0o111, 0o22, 0o777])}}),
                    4 => json!({"k": "test", "q": {"p": *rng.pick(&["uid", "gid"]), "form": *rng.pick(&["eq", "gt", "lt"]), "n": *rng.pick(&[0u64, 1, 100, 1000, 54321])}}),
                    5 => json!({"k": "test", "q": {"p": "size", "form": *rng.pick(&["eq", "gt", "lt"]), "n": *rng.pick(&[0u64, 1, 9, 10, 511, 4096])}}),
                    6 => json!({"k": "test", "q": {"p": "empty"}}),
                    7 => json!({"k": "test", "q": {"p": "samefile", "ref": 1 + rng.below(n)}}),
                    8 => {
                        // a path pattern: "*/NAME" or "*NAME*"
                        let nm = rng.pick(&names).clone();
                        let lit: Vec<u32> = nm.chars().map(|c| c as u32).collect();
                        let mut pat: Vec<u32> = vec![42];
                        if rng.chance(1, 2) {
                            pat.push(47);
                        }
                        for c in lit {
                            if [42, 63, 91, 92].contains(&c) {
                                pat.push(92);
                            }
                            pat.push(c);
                        }
                        if rng.chance(1, 2) {
                            pat.push(42);
                        }
                        json!({"k": "glob", "on": "path", "pat": pat, "fold": false})
                    }
                    _ => {
                        let pats: [&[u32]; 8] = [&[42], &[97, 42], &[63], &[42, 98, 42], &[91, 97, 45, 99, 93, 42], &[101], &[42, 46, 42], &[65, 42]];
                        json!({"k": "glob", "on": "name", "pat": rng.pick(&pats).to_vec(), "fold": rng.chance(1, 4)})
                    }
                },
            };
            words.push(w);
        }
        v["words"] = json!(words);
        v
    }

    fn same(&self, exp: &Value, obs: &Value) -> bool {
        obs.get("panic").is_none() && obs["exit"].as_i64() == Some(0) && json_to_bytes(&exp["out"]) == json_to_bytes(&obs["out"])
    }

    fn corrupt(&self, obs: &Value) -> Option<Value> {
        let mut o = obs.clone();
        let mut b = json_to_bytes(&o["out"]);
        if b.is_empty() {
            b.push(b'x');
        } else {
            b.pop();
        }
        o["out"] = bytes_to_json(&b);
        Some(o)
    }
}
