//! Whole runs of find against the composed specification (spec/FindSem.tla): random trees with measured
//! attributes x random expressions over real tests and output actions.
//! Input: {tree (nodes may carry age:[s,ns] = now - mtime), roots, cfg (+ syn, nowoff:[s,ns]),
//!         words:[{k:"op",t} | {k:"test",q:{..}} | {k:"glob",on,pat,fold} | {k:"regex",ast,fold,text} | {k:"const",v} | {k:"gopt",o,n} | {k:"prune"}
//!         | {k:"quit"} | {k:"print",delim,file} | {k:"printf",fmt,file}]}   file: 0 = standard output, 1|2 = -fprint* to ../F1 | ../F2
//! Observation: {out:[bytes], files:[{there,b}..], exit, diag, attrs:[..], now:[s,ns], users:[uid..], groups:[gid..]}
use super::pglob::cps_to_string;
use super::pprintf::{depth_args, measure, mode_args};
use super::Prop;
use crate::findrun::*;
use crate::tree::*;
use crate::util::*;
use serde_json::{json, Value};

pub struct PSem {
    sb: Sandbox,
    counter: u64,
}

impl Default for PSem {
    fn default() -> Self {
        PSem { sb: Sandbox::new("psem"), counter: 0 }
    }
}

fn norm_ts(t: (i64, i64)) -> (i64, i64) {
    let (mut s, mut n) = t;
    while n < 0 {
        n += 1_000_000_000;
        s -= 1;
    }
    while n >= 1_000_000_000 {
        n -= 1_000_000_000;
        s += 1;
    }
    (s, n)
}

/// Set the modification time of the entry itself (not of what a link points to); the access time is left alone.
fn set_mtime(p: &std::path::Path, m: (i64, i64)) {
    use std::os::unix::ffi::OsStrExt;
    let c = std::ffi::CString::new(p.as_os_str().as_bytes()).unwrap();
    let ts = [libc::timespec { tv_sec: 0, tv_nsec: libc::UTIME_OMIT }, libc::timespec { tv_sec: m.0, tv_nsec: m.1 }];
    unsafe { libc::utimensat(libc::AT_FDCWD, c.as_ptr(), ts.as_ptr(), libc::AT_SYMLINK_NOFOLLOW) };
}

/// The user and group ids the system's databases know (first three fields of /etc/passwd and /etc/group).
fn known_ids() -> (Vec<u64>, Vec<u64>) {
    let ids = |f: &str| -> Vec<u64> {
        std::fs::read_to_string(f).unwrap_or_default().lines().filter_map(|l| l.split(':').nth(2).and_then(|x| x.parse().ok())).collect()
    };
    (ids("/etc/passwd"), ids("/etc/group"))
}

fn sign(form: &str) -> &'static str {
    match form {
        "gt" => "+",
        "lt" => "-",
        _ => "",
    }
}

pub fn word_args(w: &Value, tree: &[Node], a: &mut Vec<String>) {
    match w["k"].as_str().unwrap_or("") {
        "op" => a.push(
            match w["t"].as_str().unwrap_or("") {
                "not" => "!",
                "and" => "-a",
                "or" => "-o",
                "comma" => ",",
                "lp" => "(",
                "rp" => ")",
                x => x,
            }
            .to_string(),
        ),
        "const" => a.push(if w["v"].as_bool().unwrap_or(true) { "-true".into() } else { "-false".into() }),
        "gopt" => {
            a.push(format!("-{}", w["o"].as_str().unwrap_or("depth")));
            if w["o"] != "depth" && w["o"] != "xdev" {
                a.push(w["n"].as_u64().unwrap_or(0).to_string());
            }
        }
        "exec" => {
            a.push("-exec".into());
            match w["c"].as_str().unwrap_or("true") {
                "exists" => a.extend(["test".to_string(), "-e".into(), "{}".into()]),
                c => a.push(c.to_string()),
            }
            a.push(";".into());
        }
        "fls" => {
            a.push("-fls".into());
            a.push("../F3".into());
        }
        "prune" => a.push("-prune".into()),
        "quit" => a.push("-quit".into()),
        "print" => {
            let f = w["file"].as_u64().unwrap_or(0);
            let zero = w["delim"].as_u64() == Some(0);
            if f == 0 {
                a.push(if zero { "-print0".into() } else { "-print".into() });
            } else {
                a.push(if zero { "-fprint0".into() } else { "-fprint".into() });
                a.push(format!("../F{}", f));
            }
        }
        "printf" => {
            let f = w["file"].as_u64().unwrap_or(0);
            if f == 0 {
                a.push("-printf".into());
            } else {
                a.push("-fprintf".into());
                a.push(format!("../F{}", f));
            }
            a.push(cps_to_string(&w["fmt"]));
        }
        "regex" => {
            a.push(if w["fold"].as_bool().unwrap_or(false) { "-iregex".into() } else { "-regex".into() });
            a.push(cps_to_string(&w["text"]));
        }
        "glob" => {
            let fold = w["fold"].as_bool().unwrap_or(false);
            a.push(match (w["on"].as_str().unwrap_or("name"), fold) {
                ("name", false) => "-name",
                ("name", true) => "-iname",
                (_, false) => "-path",
                (_, true) => "-ipath",
            }
            .to_string());
            a.push(cps_to_string(&w["pat"]));
        }
        "test" => {
            let t = &w["q"];
            let p = t["p"].as_str().unwrap_or("");
            match p {
                "type" | "xtype" => {
                    a.push(format!("-{}", p));
                    a.push(t["c"].as_str().unwrap_or("f").into());
                }
                "perm" => {
                    a.push("-perm".into());
                    let prefix = match t["kind"].as_str().unwrap_or("exact") {
                        "all" => "-",
                        "any" => "/",
                        _ => "",
                    };
                    a.push(format!("{}{:o}", prefix, t["m"].as_u64().unwrap_or(0)));
                }
                "uid" | "gid" | "links" | "size" => {
                    a.push(format!("-{}", p));
                    let unit = if p == "size" { t.get("unit").and_then(|u| u.as_str()).unwrap_or("c") } else { "" };
                    a.push(format!("{}{}{}", sign(t["form"].as_str().unwrap_or("eq")), t["n"].as_u64().unwrap_or(0), unit));
                }
                "age" => {
                    a.push(format!("-{}{}", t["kind"].as_str().unwrap_or("m"), if t["unit"] == "day" { "time" } else { "min" }));
                    a.push(format!("{}{}", sign(t["form"].as_str().unwrap_or("eq")), t["n"].as_u64().unwrap_or(0)));
                }
                "newer" => {
                    let (x, y) = (t["x"].as_str().unwrap_or("m"), t["y"].as_str().unwrap_or("m"));
                    a.push(if x == "m" && y == "m" { "-newer".to_string() } else if x == "c" && y == "m" { "-cnewer".to_string() } else { format!("-newer{}{}", x, y) });
                    a.push(node_path(tree, t["ref"].as_u64().unwrap_or(1) as usize).to_string_lossy().into_owned());
                }
                "nouser" => a.push("-nouser".into()),
                "nogroup" => a.push("-nogroup".into()),
                "empty" => a.push("-empty".into()),
                "samefile" => {
                    a.push("-samefile".into());
                    a.push(node_path(tree, t["ref"].as_u64().unwrap_or(1) as usize).to_string_lossy().into_owned());
                }
                "lname" => {
                    a.push("-lname".into());
                    a.push(cps_to_string(&t["pat"]));
                }
                _ => {}
            }
        }
        _ => {}
    }
}

impl Prop for PSem {
    fn run(&mut self, input: &Value) -> Value {
        let dir = fresh_case_dir(&self.sb, &mut self.counter);
        let tree = parse_tree(&input["tree"]);
        materialize(&dir, &tree);
        // the injected clock: the real time after the tree was made, plus the offset of the input; modification
        // times are set relative to it (a node's "age"), change times are whatever they are
        let rn = std::time::SystemTime::now().duration_since(std::time::UNIX_EPOCH).unwrap();
        let off = &input["cfg"]["nowoff"];
        let now = norm_ts((rn.as_secs() as i64 + 2 + off[0].as_i64().unwrap_or(0), off[1].as_i64().unwrap_or(0)));
        for (idx, n) in tree.iter().enumerate() {
            if let Some(age) = n.extra.get("age").filter(|a| a.is_array()) {
                let t = norm_ts((now.0 - age[0].as_i64().unwrap_or(0), now.1 - age[1].as_i64().unwrap_or(0)));
                set_mtime(&dir.join(node_path(&tree, idx + 1)), t);
            }
        }
        if mount_failed() {
            return json!({"nomount": true});
        }
        let attrs = measure(&dir, &tree);
        let cfg = &input["cfg"];
        let mut args: Vec<String> = vec![];
        mode_args(cfg, &mut args);
        for r in arr(&input["roots"]) {
            args.push(json_to_string(&r["spell"]));
        }
        depth_args(cfg, &mut args);
        args.push("-sorted".into());
        if let Some(syn) = cfg.get("syn").and_then(|s| s.as_str()) {
            if syn != "emacs" || cfg["nowoff"][1].as_i64().unwrap_or(0) % 2 == 1 {
                args.push("-regextype".into());
                args.push(syn.into());
            }
        }
        let words = arr(&input["words"]);
        if !words.is_empty() {
            // the options in front are and-ed with the whole expression
            args.push("(".into());
            for w in &words {
                word_args(w, &tree, &mut args);
            }
            args.push(")".into());
        }
        let errf = dir.parent().unwrap().join("stderr.txt");
        let sysnow = std::time::UNIX_EPOCH + std::time::Duration::new(now.0 as u64, now.1 as u32);
        let r = run_find_inproc(&dir, &args, Some(sysnow), &errf);
        if r.panicked {
            return json!({"panic": true, "args": args});
        }
        let mut files = vec![];
        for f in 1..=2 {
            match std::fs::read(dir.parent().unwrap().join(format!("F{}", f))) {
                Ok(b) => files.push(json!({"there": true, "b": bytes_to_json(&b)})),
                Err(_) => files.push(json!({"there": false, "b": []})),
            }
        }
        let (users, groups) = known_ids();
        json!({"out": bytes_to_json(&r.out), "files": files, "exit": r.exit, "attrs": attrs, "diag": !r.stderr.is_empty(),
               "now": [now.0, now.1], "users": users, "groups": groups, "err": String::from_utf8_lossy(&r.stderr[..r.stderr.len().min(300)])})
    }

    fn gen(&mut self, rng: &mut Rng, idx: usize, tier: &str) -> Value {
        let mut st = super::pstat::PStat::default();
        let mut v = st.gen(rng, idx, tier);
        v.as_object_mut().unwrap().remove("test");
        let n = arr(&v["tree"]).len();
        // the clock and the modification times: ages around the boundaries of the minute and day tests
        let ages: [(i64, i64); 12] = [(0, 0), (0, 5), (59, 999_999_999), (60, 0), (60, 1), (119, 0), (3600, 0), (86399, 999_999_999), (86400, 0), (86400, 1), (172800, 0), (200000, 77)];
        for i in 0..n {
            if rng.chance(3, 4) {
                let a = *rng.pick(&ages);
                v["tree"][i]["age"] = json!([a.0, a.1]);
            }
        }
        let syn = *rng.pick(&["emacs", "emacs", "posix-basic", "posix-extended", "grep", "sed"]);
        v["cfg"]["syn"] = json!(syn);
        v["cfg"]["nowoff"] = json!([*rng.pick(&[0i64, 30, 86400, 100000]), rng.below(1_000_000_000)]);
        // the shape of the expression from the C01 generator; its leaves become real primaries
        let mut toks: Vec<String> = vec![];
        let budget = 1 + rng.below(if tier == "thorough" { 10 } else { 6 });
        super::pexpr::gen_list(rng, &mut toks, budget, 0, 3, 2);
        let names: Vec<String> = arr(&v["tree"]).iter().map(|t| json_to_string(&t["name"])).collect();
        let mut words: Vec<Value> = vec![];
        let mut free_files: Vec<u64> = vec![1, 2];
        for t in toks {
            let w = match t.as_str() {
                "not" | "and" | "or" | "comma" | "lp" | "rp" => json!({"k": "op", "t": t}),
                // a global option inside the expression: true where it stands, in force everywhere
                "opt" => match rng.below(4) {
                    0 => json!({"k": "gopt", "o": "depth"}),
                    1 => json!({"k": "gopt", "o": "maxdepth", "n": rng.below(4)}),
                    2 => json!({"k": "gopt", "o": "mindepth", "n": rng.below(3)}),
                    _ => json!({"k": "const", "v": true}),
                },
                "true" => json!({"k": "const", "v": true}),
                "false" => json!({"k": "const", "v": false}),
                "prune" => json!({"k": "prune"}),
                "quit" => json!({"k": "quit"}),
                x if x.starts_with('a') => {
                    // standard output, or one of the two output files (each named by at most one action)
                    let file = if !free_files.is_empty() && rng.chance(1, 3) { free_files.remove(rng.below(free_files.len())) } else { 0 };
                    match rng.below(6) {
                        // actions without output of their own: they still suppress the default -print
                        4 => json!({"k": "exec", "c": *rng.pick(&["true", "false", "exists"])}),
                        5 if rng.chance(1, 6) => json!({"k": "fls"}),
                        0 => json!({"k": "print", "delim": 10, "file": file}),
                        1 => json!({"k": "print", "delim": 0, "file": file}),
                        _ => {
                            let mut fmt: Vec<u32> = vec![];
                            for _ in 0..1 + rng.below(3) {
                                match rng.below(6) {
                                    0 => fmt.extend([37, *rng.pick(&[112u32, 102, 80, 72, 100])]),
                                    1 => fmt.extend([37, *rng.pick(&[115u32, 109, 85, 71, 121, 110])]),
                                    2 => fmt.extend([37, 45, 53, 100]),
                                    3 => fmt.extend([92, *rng.pick(&[116u32, 92, 48])]),
                                    _ => fmt.push(*rng.pick(&[120u32, 58, 32, 233])),
                                }
                            }
                            fmt.extend([92, 110]);
                            json!({"k": "printf", "fmt": fmt, "file": file})
                        }
                    }
                }
                _ => match rng.below(16) {
                    0 | 1 => json!({"k": "test", "q": {"p": "type", "c": *rng.pick(&["d", "f", "l", "p", "s"])}}),
                    2 => json!({"k": "test", "q": {"p": "xtype", "c": *rng.pick(&["d", "f", "l"])}}),
                    3 => json!({"k": "test", "q": {"p": "perm", "kind": *rng.pick(&["exact", "all", "any"]), "m": *rng.pick(&[0u64, 0o644, 0o755, 0o4000, 0o700, 0o111, 0o22, 0o777])}}),
                    4 => json!({"k": "test", "q": {"p": *rng.pick(&["uid", "gid"]), "form": *rng.pick(&["eq", "gt", "lt"]), "n": *rng.pick(&[0u64, 1, 100, 1000, 54321])}}),
                    5 => json!({"k": "test", "q": {"p": "size", "form": *rng.pick(&["eq", "gt", "lt"]), "n": *rng.pick(&[0u64, 1, 2, 9, 10, 511, 4096]), "unit": *rng.pick(&["c", "c", "w", "b", "k", "", "M"])}}),
                    6 => json!({"k": "test", "q": {"p": "empty"}}),
                    7 => json!({"k": "test", "q": {"p": "samefile", "ref": 1 + rng.below(n)}}),
                    8 => {
                        // a path pattern: "*/NAME" or "*NAME*"
                        let nm = rng.pick(&names).clone();
                        let lit: Vec<u32> = nm.chars().map(|c| c as u32).collect();
                        let mut pat: Vec<u32> = vec![42];
                        if rng.chance(1, 2) {
                            pat.push(47);
                        }
                        for c in lit {
                            if [42, 63, 91, 92].contains(&c) {
                                pat.push(92);
                            }
                            pat.push(c);
                        }
                        if rng.chance(1, 2) {
                            pat.push(42);
                        }
                        json!({"k": "glob", "on": "path", "pat": pat, "fold": false})
                    }
                    9 => json!({"k": "test", "q": {"p": "age", "kind": *rng.pick(&["m", "m", "c"]), "unit": *rng.pick(&["min", "day"]), "form": *rng.pick(&["eq", "gt", "lt"]), "n": *rng.pick(&[0u64, 1, 2, 60])}}),
                    10 => json!({"k": "test", "q": {"p": "newer", "x": *rng.pick(&["m", "m", "c"]), "y": *rng.pick(&["m", "m", "c"]), "ref": 1 + rng.below(n)}}),
                    // (described by FindSem, fixed by no listed property: kept rare)
                    11 if rng.chance(1, 3) => json!({"k": "test", "q": {"p": *rng.pick(&["nouser", "nogroup"])}}),
                    12 => json!({"k": "test", "q": {"p": "links", "form": *rng.pick(&["eq", "gt", "lt"]), "n": *rng.pick(&[1u64, 2, 3])}}),
                    13 => {
                        // a regular expression over the whole path: ".*" + a literal tail, a literal path, or a small random tree
                        let nm: Vec<u32> = rng.pick(&names).chars().map(|c| c as u32).collect();
                        let litseq = |cs: &[u32]| -> Option<Value> {
                            let mut it = cs.iter().map(|c| json!({"t": "c", "c": c}));
                            let first = it.next()?;
                            Some(it.fold(first, |a, b| json!({"t": "cat", "a": a, "b": b})))
                        };
                        let ast = match rng.below(4) {
                            0 | 1 if !nm.is_empty() => {
                                let tail = litseq(&nm).unwrap();
                                let head = json!({"t": "star", "a": {"t": "any"}});
                                json!({"t": "cat", "a": head, "b": tail})
                            }
                            2 => {
                                let cs: Vec<u32> = nm.iter().copied().chain([47u32, 97, 98]).collect();
                                json!({"t": "plus", "a": {"t": "set", "cs": cs, "neg": rng.chance(1, 4)}})
                            }
                            _ => {
                                let size = 1 + rng.below(4);
                                super::pregex::gen_ast(rng, size, &[97, 98, 47, 46, 100], !["posix-basic", "sed"].contains(&syn), syn != "emacs")
                            }
                        };
                        let mut text: Vec<u32> = vec![];
                        super::pregex::render(&ast, syn, &mut text);
                        json!({"k": "regex", "ast": ast, "fold": rng.chance(1, 4), "text": text})
                    }
                    _ => {
                        let pats: [&[u32]; 8] = [&[42], &[97, 42], &[63], &[42, 98, 42], &[91, 97, 45, 99, 93, 42], &[101], &[42, 46, 42], &[65, 42]];
                        json!({"k": "glob", "on": "name", "pat": rng.pick(&pats).to_vec(), "fold": rng.chance(1, 4)})
                    }
                },
            };
            words.push(w);
        }
        // now and then another file system is mounted on a directory and -xdev stands somewhere in the expression
        // (described by FindSem, fixed by no listed property)
        if rng.chance(1, 12) && !words.is_empty() {
            let tr = arr(&v["tree"]);
            let hl_involved: Vec<usize> = tr.iter().enumerate().filter(|(_, t)| t["hl"].as_u64().unwrap_or(0) > 0).flat_map(|(i, t)| [i + 1, t["hl"].as_u64().unwrap() as usize]).collect();
            let below = |mut k: usize, d: usize| -> bool {
                while k != 0 {
                    if k == d {
                        return true;
                    }
                    k = tr[k - 1]["parent"].as_u64().unwrap_or(0) as usize;
                }
                false
            };
            // no hard link may cross the boundary; the mounted file system starts out empty, so the harness creates
            // the directory's children inside it - the directory must come before them in the tree (it does)
            let cands: Vec<usize> = (1..=n).filter(|d| tr[d - 1]["kind"] == "d" && !hl_involved.iter().any(|h| below(*h, *d))).collect();
            // preferably a directory that has something in it and is not itself a starting point
            let roots_nodes: Vec<usize> = arr(&v["roots"]).iter().map(|r| r["node"].as_u64().unwrap_or(0) as usize).collect();
            let good: Vec<usize> = cands.iter().copied().filter(|d| !roots_nodes.contains(d) && tr.iter().any(|t| t["parent"].as_u64() == Some(*d as u64))).collect();
            let cands = if good.is_empty() { cands } else { good };
            if !cands.is_empty() {
                let d = *rng.pick(&cands);
                v["tree"][d - 1]["mnt"] = json!(true);
                let pos = rng.below(words.len() + 1);
                words.insert(pos, json!({"k": "gopt", "o": "xdev"}));
                // keep the expression well-formed: a primary next to a primary is a conjunction
            }
        }
        v["words"] = json!(words);
        v
    }

    fn same(&self, exp: &Value, obs: &Value) -> bool {
        // vectors from MC_Sem: standard output only, no failures
        let files_ok = match exp.get("files") {
            Some(f) => (0..2).all(|k| f[k]["there"] == obs["files"][k]["there"] && json_to_bytes(&f[k]["b"]) == json_to_bytes(&obs["files"][k]["b"])),
            None => true,
        };
        // the exit status is non-zero exactly when something was diagnosed (a starting point that does not exist)
        let errs = exp.get("errs").and_then(|e| e.as_u64()).unwrap_or(0);
        obs.get("panic").is_none() && (obs["exit"].as_i64() != Some(0)) == (errs > 0) && json_to_bytes(&exp["out"]) == json_to_bytes(&obs["out"]) && files_ok
    }

    fn corrupt(&self, obs: &Value) -> Option<Value> {
        let mut o = obs.clone();
        let mut b = json_to_bytes(&o["out"]);
        let pick = b.len() % 3;
        if pick == 1 && o.get("files").is_some() {
            // an output file: one byte more or less, or a file that should not be there
            let k = if o["files"][0]["there"] == true { 0 } else { 1 };
            let mut fb = json_to_bytes(&o["files"][k]["b"]);
            if o["files"][k]["there"] == true && !fb.is_empty() {
                fb.pop();
            } else {
                fb.push(b'x');
            }
            o["files"][k]["b"] = bytes_to_json(&fb);
            o["files"][k]["there"] = json!(true);
            return Some(o);
        }
        if b.is_empty() {
            b.push(b'x');
        } else if pick == 2 && b.len() > 1 {
            b.swap(0, 1);
            if b[0] == b[1] {
                b[0] ^= 1;
            }
        } else {
            b.pop();
        }
        o["out"] = bytes_to_json(&b);
        Some(o)
    }
}
