//! Recorder command run by xargs / find -exec in the conformance harness.
//! Environment:
//!   VREC_LOG     file to append one JSON line per invocation to (O_APPEND)
//!   VREC_SCRIPT  optional file: JSON array of outcomes, the k-th invocation (0-based, counted
//!                by the lines already in the log) takes outcome k: n = exit status n,
//!                1000+s = kill self with signal s; missing entries mean 0
//!   VREC_SLEEP_MS  optional: sleep that long after logging (the log line carries the start time "t")
//!   VREC_MODE    "full" (default): {"a":[hex argv[1..]], "cwd":hex}
//!                "sum": {"n":argc-1,"bytes":sum of len+1,"first":hex,"last":hex,"h":fnv over all args,
//!                        "envc":count,"envbytes":sum of len+1, "maxlen":longest}
use std::io::Write;
use std::os::unix::ffi::OsStrExt;

fn hex(b: &[u8]) -> String {
    let mut s = String::with_capacity(b.len() * 2);
    for x in b {
        s.push_str(&format!("{:02x}", x));
    }
    s
}

fn main() {
    let log = match std::env::var_os("VREC_LOG") {
        Some(l) => l,
        None => std::process::exit(97),
    };
    let args: Vec<Vec<u8>> = std::env::args_os().skip(1).map(|a| a.as_bytes().to_vec()).collect();
    // on request a mark on the standard output shared with the caller: where in its own output did this run happen?
    if std::env::var_os("VREC_ECHO").is_some() {
        use std::io::Write;
        let _ = std::io::stdout().write_all(b"X|\0");
        let _ = std::io::stdout().flush();
    }
    let cwd = std::env::current_dir().map(|p| p.as_os_str().as_bytes().to_vec()).unwrap_or_default();
    let seq = std::fs::read(&log).map(|c| c.iter().filter(|b| **b == b'\n').count()).unwrap_or(0);
    let mode = std::env::var("VREC_MODE").unwrap_or_else(|_| "full".into());
    let line = if mode == "sum" {
        let mut h: u64 = 0xcbf29ce484222325;
        let mut bytes = 0usize;
        let mut maxlen = 0usize;
        for a in &args {
            for b in a.iter().chain([0u8].iter()) {
                h ^= *b as u64;
                h = h.wrapping_mul(0x100000001b3);
            }
            bytes += a.len() + 1;
            maxlen = maxlen.max(a.len());
        }
        let (mut envc, mut envbytes) = (0usize, 0usize);
        for (k, v) in std::env::vars_os() {
            envc += 1;
            envbytes += k.len() + v.len() + 2;
        }
        format!(
            "{{\"n\":{},\"bytes\":{},\"first\":\"{}\",\"last\":\"{}\",\"h\":\"{:016x}\",\"envc\":{},\"envbytes\":{},\"maxlen\":{},\"cwd\":\"{}\"}}\n",
            args.len(),
            bytes,
            args.first().map(|a| hex(&a[..a.len().min(64)])).unwrap_or_default(),
            args.last().map(|a| hex(&a[..a.len().min(64)])).unwrap_or_default(),
            h,
            envc,
            envbytes,
            maxlen,
            hex(&cwd)
        )
    } else {
        let a: Vec<String> = args.iter().map(|a| format!("\"{}\"", hex(a))).collect();
        let t = std::time::SystemTime::now().duration_since(std::time::UNIX_EPOCH).unwrap();
        format!("{{\"a\":[{}],\"cwd\":\"{}\",\"t\":[{},{}]}}\n", a.join(","), hex(&cwd), t.as_secs(), t.subsec_nanos())
    };
    let mut f = std::fs::OpenOptions::new().create(true).append(true).open(&log).expect("vrec log");
    f.write_all(line.as_bytes()).expect("vrec write");
    drop(f);
    if let Some(ms) = std::env::var("VREC_SLEEP_MS").ok().and_then(|m| m.parse::<u64>().ok()) {
        std::thread::sleep(std::time::Duration::from_millis(ms));
    }
    let mut outcome: i64 = 0;
    if let Some(sp) = std::env::var_os("VREC_SCRIPT") {
        if let Ok(txt) = std::fs::read_to_string(sp) {
            let nums: Vec<i64> = txt
                .trim()
                .trim_start_matches('[')
                .trim_end_matches(']')
                .split(',')
                .filter_map(|x| x.trim().parse().ok())
                .collect();
            if seq < nums.len() {
                outcome = nums[seq];
            }
        }
    }
    if outcome >= 1000 {
        unsafe {
            libc::signal((outcome - 1000) as i32, libc::SIG_DFL);
            libc::kill(libc::getpid(), (outcome - 1000) as i32);
        }
        std::thread::sleep(std::time::Duration::from_secs(5));
        std::process::exit(98);
    }
    std::process::exit(outcome as i32);
}
