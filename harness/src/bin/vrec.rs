fn main(){}
