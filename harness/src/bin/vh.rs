//! vh replay <PROP> <vectors.jsonl> <results.jsonl>
//!      each vector: {"in":…, "exp":…}; results: one line per failing vector + a summary line
//! vh record <PROP> <seed> <n> <tier> <trace.ndjson>
//!      each line: {"in":…, "obs":…}
//! vh run <PROP> <input.json>            prints the observation for one input (replay files)
//! vh selftest <PROP> <seed> <n> <trace.ndjson>   like record, but every observation is corrupted
use serde_json::{json, Value};
use std::io::{BufRead, BufReader, BufWriter, Write};
use vharness::props;
use vharness::util::Rng;

/// VH_JOBS > 1: re-run this command in N worker processes (VH_WORKER=k/N); every worker
/// handles the lines / indices congruent to k modulo N and writes <out>.part<k>; the parent
/// merges the parts in index order.  Process-level parallelism keeps chdir and the
/// in-process find runs safe.
fn worker() -> Option<(usize, usize)> {
    let w = std::env::var("VH_WORKER").ok()?;
    let (k, n) = w.split_once('/')?;
    Some((k.parse().ok()?, n.parse().ok()?))
}

fn fan_out(args: &[String], out_idx: usize) -> bool {
    let jobs: usize = std::env::var("VH_JOBS").ok().and_then(|j| j.parse().ok()).unwrap_or(1);
    if jobs <= 1 || worker().is_some() {
        return false;
    }
    let me = std::env::current_exe().expect("exe");
    let mut kids = vec![];
    for k in 0..jobs {
        let mut a = args[1..].to_vec();
        a[out_idx - 1] = format!("{}.part{}", args[out_idx], k);
        kids.push(
            std::process::Command::new(&me)
                .args(&a)
                .env("VH_WORKER", format!("{}/{}", k, jobs))
                .spawn()
                .expect("spawn worker"),
        );
    }
    let mut ok = true;
    for mut c in kids {
        ok &= c.wait().map(|s| s.success()).unwrap_or(false);
    }
    if !ok {
        eprintln!("a worker failed");
        std::process::exit(2);
    }
    // merge: every line carries its index as "#<idx>\t" prefix
    let mut all: Vec<(u64, String)> = vec![];
    for k in 0..jobs {
        let p = format!("{}.part{}", args[out_idx], k);
        for line in std::fs::read_to_string(&p).unwrap_or_default().lines() {
            if let Some((i, rest)) = line.split_once('\t') {
                all.push((i.trim_start_matches('#').parse().unwrap_or(0), rest.to_string()));
            }
        }
        let _ = std::fs::remove_file(&p);
    }
    all.sort_by_key(|x| x.0);
    let mut out = BufWriter::new(std::fs::File::create(&args[out_idx]).expect("out"));
    let (mut n, mut skipped, mut failed) = (0u64, 0u64, 0u64);
    let mut had_summary = false;
    for (_, l) in all {
        let v: Value = serde_json::from_str(&l).unwrap_or(Value::Null);
        if v.get("summary").is_some() {
            n += v["replayed"].as_u64().unwrap_or(0);
            skipped += v["skipped"].as_u64().unwrap_or(0);
            failed += v["failed"].as_u64().unwrap_or(0);
            had_summary = true;
        } else {
            writeln!(out, "{}", l).unwrap();
        }
    }
    if had_summary {
        writeln!(out, "{}", json!({"summary": true, "replayed": n, "skipped": skipped, "failed": failed})).unwrap();
    }
    true
}

fn main() {
    let args: Vec<String> = std::env::args().collect();
    if args.len() < 3 {
        eprintln!("usage: vh replay|record|run|selftest PROP ...");
        std::process::exit(2);
    }
    let Some(mut prop) = props::get(&args[2]) else {
        eprintln!("unknown property {}", args[2]);
        std::process::exit(2);
    };
    match args[1].as_str() {
        "replay" => {
            if fan_out(&args, 4) {
                return;
            }
            let w = worker();
            let pre = |i: u64| if w.is_some() { format!("#{}\t", i) } else { String::new() };
            let f = BufReader::new(std::fs::File::open(&args[3]).expect("vectors"));
            let mut out = BufWriter::new(std::fs::File::create(&args[4]).expect("results"));
            let (mut n, mut skipped, mut failed) = (0u64, 0u64, 0u64);
            for (li, line) in f.lines().enumerate() {
                let line = line.unwrap();
                if line.trim().is_empty() {
                    continue;
                }
                if let Some((k, nn)) = w {
                    if li % nn != k {
                        continue;
                    }
                }
                let v: Value = serde_json::from_str(&line).expect("vector json");
                if v["exp"].get("dom").and_then(|d| d.as_bool()) == Some(false) {
                    skipped += 1;
                    continue;
                }
                n += 1;
                let obs = prop.run(&v["in"]);
                if !prop.same(&v["exp"], &obs) {
                    failed += 1;
                    writeln!(out, "{}{}", pre(li as u64), json!({"fail": true, "in": v["in"], "exp": v["exp"], "obs": obs})).unwrap();
                }
            }
            writeln!(out, "{}{}", pre(u64::MAX), json!({"summary": true, "replayed": n, "skipped": skipped, "failed": failed})).unwrap();
        }
        "record" => {
            let seed: u64 = args[3].parse().expect("seed");
            let n: usize = args[4].parse().expect("n");
            let tier = args[5].clone();
            if fan_out(&args, 6) {
                return;
            }
            let w = worker();
            let mut out = BufWriter::new(std::fs::File::create(&args[6]).expect("trace"));
            for idx in 0..n {
                if let Some((k, nn)) = w {
                    if idx % nn != k {
                        continue;
                    }
                }
                // one generator per case, so that a case does not depend on which worker ran it
                let mut rng = Rng::new(seed ^ (idx as u64).wrapping_mul(0xA24BAED4963EE407));
                let input = prop.gen(&mut rng, idx, &tier);
                let obs = prop.run(&input);
                if w.is_some() {
                    write!(out, "#{}\t", idx).unwrap();
                }
                writeln!(out, "{}", json!({"in": input, "obs": obs})).unwrap();
            }
        }
        "corrupt" => {
            // vh corrupt PROP in.ndjson out.ndjson : corrupt the observation of every record
            let f = BufReader::new(std::fs::File::open(&args[3]).expect("in"));
            let mut out = BufWriter::new(std::fs::File::create(&args[4]).expect("out"));
            for line in f.lines() {
                let v: Value = serde_json::from_str(&line.unwrap()).expect("json");
                if let Some(o) = prop.corrupt(&v["obs"]) {
                    writeln!(out, "{}", json!({"in": v["in"], "obs": o})).unwrap();
                }
            }
        }
        "run" => {
            let v: Value = serde_json::from_str(&std::fs::read_to_string(&args[3]).expect("input")).expect("json");
            let input = if v.get("in").is_some() { v["in"].clone() } else { v };
            println!("{}", prop.run(&input));
        }
        _ => {
            eprintln!("unknown subcommand");
            std::process::exit(2);
        }
    }
}
