//! vh replay <PROP> <vectors.jsonl> <results.jsonl>
//!      each vector: {"in":…, "exp":…}; results: one line per failing vector + a summary line
//! vh record <PROP> <seed> <n> <tier> <trace.ndjson>
//!      each line: {"in":…, "obs":…}
//! vh run <PROP> <input.json>            prints the observation for one input (replay files)
//! vh selftest <PROP> <seed> <n> <trace.ndjson>   like record, but every observation is corrupted
use serde_json::{json, Value};
use std::io::{BufRead, BufReader, BufWriter, Write};
use vharness::props;
use vharness::util::Rng;

fn main() {
    let args: Vec<String> = std::env::args().collect();
    if args.len() < 3 {
        eprintln!("usage: vh replay|record|run|selftest PROP ...");
        std::process::exit(2);
    }
    let Some(mut prop) = props::get(&args[2]) else {
        eprintln!("unknown property {}", args[2]);
        std::process::exit(2);
    };
    match args[1].as_str() {
        "replay" => {
            let f = BufReader::new(std::fs::File::open(&args[3]).expect("vectors"));
            let mut out = BufWriter::new(std::fs::File::create(&args[4]).expect("results"));
            let (mut n, mut skipped, mut failed) = (0u64, 0u64, 0u64);
            for line in f.lines() {
                let line = line.unwrap();
                if line.trim().is_empty() {
                    continue;
                }
                let v: Value = serde_json::from_str(&line).expect("vector json");
                if v["exp"].get("dom").and_then(|d| d.as_bool()) == Some(false) {
                    skipped += 1;
                    continue;
                }
                n += 1;
                let obs = prop.run(&v["in"]);
                if !prop.same(&v["exp"], &obs) {
                    failed += 1;
                    writeln!(out, "{}", json!({"fail": true, "in": v["in"], "exp": v["exp"], "obs": obs})).unwrap();
                }
            }
            writeln!(out, "{}", json!({"summary": true, "replayed": n, "skipped": skipped, "failed": failed})).unwrap();
        }
        "record" | "selftest" => {
            let seed: u64 = args[3].parse().expect("seed");
            let n: usize = args[4].parse().expect("n");
            let tier = args[5].clone();
            let mut out = BufWriter::new(std::fs::File::create(&args[6]).expect("trace"));
            let mut rng = Rng::new(seed);
            for idx in 0..n {
                let input = prop.gen(&mut rng, idx, &tier);
                let mut obs = prop.run(&input);
                if args[1] == "selftest" {
                    match prop.corrupt(&obs) {
                        Some(o) => obs = o,
                        None => continue,
                    }
                }
                writeln!(out, "{}", json!({"in": input, "obs": obs})).unwrap();
            }
        }
        "run" => {
            let v: Value = serde_json::from_str(&std::fs::read_to_string(&args[3]).expect("input")).expect("json");
            let input = if v.get("in").is_some() { v["in"].clone() } else { v };
            println!("{}", prop.run(&input));
        }
        _ => {
            eprintln!("unknown subcommand");
            std::process::exit(2);
        }
    }
}
