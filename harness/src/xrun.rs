//! (filled in with the xargs properties)
