//! Running the real xargs binary with the recorder as its command.
use crate::util::*;
use serde_json::Value;
use std::io::Write;
use std::os::unix::process::ExitStatusExt;
use std::path::{Path, PathBuf};
use std::process::{Command, Stdio};

pub struct XRun {
    pub execs: Vec<Vec<Vec<u8>>>, // argv[1..] of every recorder invocation
    pub cwds: Vec<Vec<u8>>,
    pub sums: Vec<Value>, // in sum mode
    pub exit: i64,        // exit status, 1000+signal, or -1 for a hang
    pub stderr: Vec<u8>,
    pub stdout: Vec<u8>,
    pub env_stats: Option<(usize, usize)>, // with clear_env: number of environment strings of xargs and their bytes (NAME=VALUE + terminator each)
}

pub struct XOpts<'a> {
    pub opts: Vec<String>,       // xargs options
    pub cmd: Option<PathBuf>,    // command (default: the recorder); None = recorder
    pub init: Vec<Vec<u8>>,      // initial arguments
    pub stdin: &'a [u8],
    pub script: Option<Vec<i64>>,
    pub sum_mode: bool,
    pub env: Vec<(String, String)>,
    pub clear_env: bool,
    pub rlimit_stack: Option<u64>,
    pub timeout_s: u64,
    pub no_cmd: bool,   // no command at all: xargs' own echo
    pub arg_file: bool, // the input is given with -a FILE; standard input holds something else
    pub hooked: bool,   // run the binary built with the verification hook (event traces)
}

impl<'a> XOpts<'a> {
    pub fn new(stdin: &'a [u8]) -> Self {
        XOpts {
            opts: vec![],
            cmd: None,
            init: vec![],
            stdin,
            script: None,
            sum_mode: false,
            env: vec![],
            clear_env: false,
            rlimit_stack: None,
            timeout_s: 60,
            no_cmd: false,
            arg_file: false,
            hooked: false,
        }
    }
}

pub fn read_log(path: &Path) -> (Vec<Vec<Vec<u8>>>, Vec<Vec<u8>>, Vec<Value>) {
    let mut execs = vec![];
    let mut cwds = vec![];
    let mut sums = vec![];
    if let Ok(txt) = std::fs::read_to_string(path) {
        for line in txt.lines() {
            if let Ok(v) = serde_json::from_str::<Value>(line) {
                if let Some(a) = v.get("a") {
                    execs.push(a.as_array().unwrap().iter().map(|x| unhex(x.as_str().unwrap_or(""))).collect());
                } else {
                    sums.push(v.clone());
                }
                cwds.push(unhex(v["cwd"].as_str().unwrap_or("")));
            }
        }
    }
    (execs, cwds, sums)
}

pub fn run_xargs(sb: &Sandbox, o: &XOpts) -> XRun {
    use std::os::unix::ffi::OsStrExt;
    use std::os::unix::process::CommandExt;
    let log = sb.path().join("vrec.log");
    let _ = std::fs::remove_file(&log);
    let inp = sb.path().join("stdin.bin");
    std::fs::File::create(&inp).unwrap().write_all(o.stdin).unwrap();
    let mut c = Command::new(if o.hooked { hooked_bin_dir().join("xargs") } else { bin_dir().join("xargs") });
    for a in &o.opts {
        c.arg(a);
    }
    if o.arg_file {
        c.arg("-a").arg(&inp);
    }
    if !o.no_cmd {
        match &o.cmd {
            None => c.arg(vrec_path()),
            Some(p) => c.arg(p),
        };
    }
    for a in &o.init {
        c.arg(std::ffi::OsStr::from_bytes(a));
    }
    if o.clear_env {
        c.env_clear();
    }
    let mut envlist: Vec<(String, String)> = vec![("VREC_LOG".into(), log.to_string_lossy().into_owned())];
    c.env("VREC_LOG", &log);
    if o.sum_mode {
        c.env("VREC_MODE", "sum");
        envlist.push(("VREC_MODE".into(), "sum".into()));
    } else {
        c.env_remove("VREC_MODE");
    }
    if let Some(s) = &o.script {
        let sp = sb.path().join("script.json");
        std::fs::write(&sp, serde_json::to_string(s).unwrap()).unwrap();
        c.env("VREC_SCRIPT", &sp);
        envlist.push(("VREC_SCRIPT".into(), sp.to_string_lossy().into_owned()));
    } else {
        c.env_remove("VREC_SCRIPT");
    }
    for (k, v) in &o.env {
        c.env(k, v);
        envlist.retain(|(n, _)| n != k);
        envlist.push((k.clone(), v.clone()));
    }
    let env_stats = if o.clear_env { Some((envlist.len(), envlist.iter().map(|(k, v)| k.len() + 1 + v.len() + 1).sum::<usize>())) } else { None };
    if o.arg_file {
        let other = sb.path().join("stdin.other");
        std::fs::write(&other, b"NOT THE INPUT\n").unwrap();
        c.stdin(Stdio::from(std::fs::File::open(&other).unwrap()));
    } else {
        c.stdin(Stdio::from(std::fs::File::open(&inp).unwrap()));
    }
    let outf = sb.path().join("stdout.bin");
    c.stdout(Stdio::from(std::fs::File::create(&outf).unwrap()));
    let errf = sb.path().join("stderr.txt");
    c.stderr(Stdio::from(std::fs::File::create(&errf).unwrap()));
    c.current_dir(sb.path());
    if let Some(lim) = o.rlimit_stack {
        unsafe {
            c.pre_exec(move || {
                let r = libc::rlimit { rlim_cur: lim, rlim_max: lim };
                libc::setrlimit(libc::RLIMIT_STACK, &r);
                Ok(())
            });
        }
    }
    let mut child = match c.spawn() {
        Ok(ch) => ch,
        Err(e) => {
            // e.g. the environment asked for does not fit the stack limit asked for: nothing was run
            return XRun { execs: vec![], cwds: vec![], sums: vec![], exit: -3, stderr: format!("spawn: {}", e).into_bytes(), stdout: vec![], env_stats };
        }
    };
    let t0 = std::time::Instant::now();
    let exit;
    loop {
        match child.try_wait() {
            Ok(Some(st)) => {
                exit = match st.code() {
                    Some(c) => c as i64,
                    None => 1000 + st.signal().unwrap_or(0) as i64,
                };
                break;
            }
            Ok(None) => {
                if t0.elapsed().as_secs() > o.timeout_s {
                    let _ = child.kill();
                    let _ = child.wait();
                    exit = -1;
                    break;
                }
                std::thread::sleep(std::time::Duration::from_micros(300));
            }
            Err(_) => {
                exit = -2;
                break;
            }
        }
    }
    let (execs, cwds, sums) = read_log(&log);
    let stderr = std::fs::read(&errf).unwrap_or_default();
    let stdout = std::fs::read(&outf).unwrap_or_default();
    XRun { execs, cwds, sums, exit, stderr, stdout, env_stats }
}

/// A panic of the code under test shows up as exit status 101 with a panic message.
pub fn looks_like_panic(r: &XRun) -> bool {
    r.exit == 101 || r.exit == 1000 + 6 || String::from_utf8_lossy(&r.stderr).contains("panicked at")
}
